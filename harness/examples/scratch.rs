fn main() {
    let db = rbx_reflection_database::get();
    let c = &db.classes["BasePart"];
    for n in ["Size","size","Color","Color3uint8","BrickColor","brickColor","Anchored"] {
        let p = &c.properties[n];
        println!("{} {:?} {:?} scriptability={:?} tags={:?}", n, p.data_type, p.kind, p.scriptability, p.tags);
    }
    let c = &db.classes["Instance"];
    for n in ["Tags","Attributes","AttributesSerialize","Name"] { if let Some(p)=c.properties.get(n) { println!("{} {:?} {:?}", n, p.data_type, p.kind);} }
}
