use rbx_dom_weak::{InstanceBuilder, WeakDom};
use rbx_types::*;
fn main() {
    let dom = WeakDom::new(InstanceBuilder::new("DataModel")
        .with_child(InstanceBuilder::new("Folder").with_property("UniqueId", UniqueId::new(1, 2, 3)))
        .with_child(InstanceBuilder::new("Folder"))
        .with_child(InstanceBuilder::new("Folder")));
    let roots = dom.root().children().to_vec();
    let mut b = Vec::new();
    rbx_binary::to_writer(&mut b, &dom, &roots).unwrap();
    for round in 0..2 {
        let d = rbx_binary::from_reader(b.as_slice()).unwrap();
        for r in d.root().children() {
            let i = d.get_by_ref(*r).unwrap();
            println!("round {} {:?}", round, i.properties.get(&"UniqueId".into()));
        }
    }
}
