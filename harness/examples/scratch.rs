fn main() {
    let db = rbx_reflection_database::get();
    let c = &db.classes["StarterPlayer"];
    for (n, p) in c.properties.iter() {
        if n.starts_with("GameSettings") { println!("{} {:?} {:?}", n, p.data_type, p.kind); }
    }
}
