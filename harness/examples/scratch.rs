fn main() {
    let depth: usize = std::env::args().nth(1).unwrap().parse().unwrap();
    let mut dom = rbx_dom_weak::WeakDom::new(rbx_dom_weak::InstanceBuilder::new("DataModel"));
    let mut parent = dom.root_ref();
    for _ in 0..depth {
        parent = dom.insert(parent, rbx_dom_weak::InstanceBuilder::new("Folder").with_name("d"));
    }
    eprintln!("built"); let roots = dom.root().children().to_vec();
    let mut v = Vec::new();
    rbx_binary::to_writer(&mut v, &dom, &roots).unwrap();
    eprintln!("written {} bytes", v.len());
    let d = rbx_binary::from_reader(v.as_slice()).unwrap();
    eprintln!("read {} instances", d.descendants().count());
    if depth > 20000 { return; } let mut x = Vec::new();
    rbx_xml::to_writer_default(&mut x, &dom, &roots).unwrap();
    eprintln!("xml written {} bytes", x.len());
}
