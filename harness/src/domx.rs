//! Explicit-state exploration of `WeakDom` histories (C09, C10, C11, C12a).
//!
//! Breadth-first search over canonical states of a pair of DOMs; every
//! transition is executed on real `WeakDom` objects (rebuilt by replaying the
//! shortest history of the source state, and a second time from a freshly
//! constructed DOM of the same state) in lock-step with the reference model.

use std::collections::{BTreeMap, HashSet};
use std::time::Instant;

use serde::{Deserialize, Serialize};
use serde_json::{json, Value};

use crate::dommodel::*;
use crate::evidence::{Run, Tier};

#[derive(Clone, Copy, Debug, PartialEq, Eq, Serialize, Deserialize)]
pub enum PathKind {
    History,
    Fresh,
}

#[derive(Clone)]
struct St {
    model: Model,
    history: Vec<Op>,
}

#[derive(Serialize, Deserialize, Clone)]
pub struct Case {
    pub cfg: Config,
    pub history: Vec<Op>,
    pub op: Op,
    pub path: PathKind,
    /// Product sweep only: `R` assignment applied to the state reached by
    /// `history` before `op` runs (fresh path).
    #[serde(default)]
    pub assign: Vec<(Id, Option<RefT>)>,
}

/// Executes one transition on the real implementation and returns every
/// mismatch observed, plus whether the real operation completed.
pub fn check_transition(cfg: &Config, history: &[Op], op: &Op, path: PathKind) -> (Vec<Mismatch>, bool) {
    check_transition_assigned(cfg, history, &[], op, path)
}

pub fn check_transition_assigned(
    cfg: &Config,
    history: &[Op],
    assign: &[(Id, Option<RefT>)],
    op: &Op,
    path: PathKind,
) -> (Vec<Mismatch>, bool) {
    let uids = !cfg.uid_tokens.is_empty();
    let mut model = Model::new();
    let mut out = Vec::new();
    let mut real = match path {
        PathKind::History => {
            let mut real = Real::new();
            for h in history {
                let before = model.clone();
                let effect = model.apply(h);
                let sets = if effect.regenerated.is_empty() {
                    [HashSet::new(), HashSet::new()]
                } else {
                    real.uid_sets(&before)
                };
                if let Err(m) = real.apply(h, &before, &model, &effect) {
                    // A prefix that fails was already reported when it was a transition.
                    out.push(m);
                    return (out, false);
                }
                let mut sink = Vec::new();
                real.bind_fresh(&sets, &model, &effect, &mut sink);
            }
            real
        }
        PathKind::Fresh => {
            for h in history {
                model.apply(h);
            }
            for (id, r) in assign {
                if let Some(n) = model.nodes.get_mut(id) {
                    n.r = *r;
                }
            }
            Real::build_fresh(&model)
        }
    };
    let before = model.clone();
    let effect = model.apply(op);
    let sets = if uids { real.uid_sets(&before) } else { [HashSet::new(), HashSet::new()] };
    if let Err(m) = real.apply(op, &before, &model, &effect) {
        out.push(m);
        return (out, false);
    }
    real.bind_fresh(&sets, &model, &effect, &mut out);
    real.check_invariants(&model, &mut out);
    real.compare(&model, Some(op), Some(&effect), &mut out);
    if uids {
        real.probe_uids(&model, &[Uid::U1, Uid::U2, Uid::Nil], &mut out);
        // the probes must leave the visible state untouched
        let mut after_probe = Vec::new();
        real.compare(&model, None, None, &mut after_probe);
        for mut m in after_probe {
            m.kind = format!("after-probe:{}", m.kind);
            out.push(m);
        }
        // the same probes once more on DOMs rebuilt through into_raw / from_raw
        match real.reraw() {
            Err((site, msg)) => out.push(Mismatch { prop: "C12", kind: "from_raw:panic".into(), detail: format!("from_raw(into_raw(dom)) panicked on a DOM without duplicate ids: {} {}", site, msg) }),
            Ok(()) => {
                let mut again = Vec::new();
                real.probe_uids(&model, &[Uid::U1, Uid::U2, Uid::Nil], &mut again);
                for mut m in again {
                    m.kind = format!("after-from_raw:{}", m.kind);
                    out.push(m);
                }
            }
        }
    }
    real.check_raw(&model, &mut out);
    (out, true)
}

/// Replays `history` then `op` on real WeakDoms (history replay or fresh construction of the
/// source state) and hands back the real objects with the model of the resulting state.
pub fn run_to(history: &[Op], op: &Op, path: PathKind) -> Option<(Real, Model)> {
    let mut model = Model::new();
    let mut real = match path {
        PathKind::History => {
            let mut real = Real::new();
            for h in history {
                let before = model.clone();
                let effect = model.apply(h);
                let sets = if effect.regenerated.is_empty() { [HashSet::new(), HashSet::new()] } else { real.uid_sets(&before) };
                if real.apply(h, &before, &model, &effect).is_err() {
                    return None;
                }
                let mut sink = Vec::new();
                real.bind_fresh(&sets, &model, &effect, &mut sink);
            }
            real
        }
        PathKind::Fresh => {
            for h in history {
                model.apply(h);
            }
            Real::build_fresh(&model)
        }
    };
    let before = model.clone();
    let effect = model.apply(op);
    if real.apply(op, &before, &model, &effect).is_err() {
        return None;
    }
    let mut sink = Vec::new();
    real.bind_fresh(&[HashSet::new(), HashSet::new()], &model, &effect, &mut sink);
    Some((real, model))
}

pub struct Stats {
    pub states: u64,
    pub transitions: u64,
    pub real_executions: u64,
    pub layers: Vec<u64>,
    pub closed: bool,
    pub cap_hit: bool,
    pub per_op: BTreeMap<String, u64>,
    pub merges: u64,
    pub samples: Vec<Value>,
    pub mismatches_total: u64,
    pub regenerations: u64,
    pub max_live: usize,
}

#[derive(Serialize, Deserialize, Default)]
struct WorkerOut {
    transitions: u64,
    real_exec: u64,
    mismatches: u64,
    regens: u64,
    merges: u64,
    per_op: BTreeMap<String, u64>,
    /// key -> (count, what, case json)
    violations: BTreeMap<String, (u64, String, String)>,
    new_states: Vec<(Vec<u8>, u32, Op)>,
    samples: Vec<String>,
}

pub fn explore(run: &Run, cfg: &Config, report: &[&str], mode: &str, wall_cap_s: f64, fresh_path: bool) -> Stats {
    let sort_detached = cfg.uid_tokens.is_empty() && !cfg.refs;
    let start = Instant::now();
    let init = St {
        model: Model::new(),
        history: Vec::new(),
    };
    let mut seen: HashSet<Vec<u8>> = HashSet::new();
    seen.insert(canon_key(&init.model, sort_detached));
    let mut layer = vec![init];
    let mut stats = Stats {
        states: 1,
        transitions: 0,
        real_executions: 0,
        layers: vec![1],
        closed: false,
        cap_hit: false,
        per_op: BTreeMap::new(),
        merges: 0,
        samples: Vec::new(),
        mismatches_total: 0,
        regenerations: 0,
        max_live: 2,
    };
    let seed = run.seed;
    let procs_max = crate::forkpool::default_procs();

    loop {
        if layer.is_empty() {
            stats.closed = true;
            break;
        }
        if start.elapsed().as_secs_f64() > wall_cap_s {
            stats.cap_hit = true;
            break;
        }
        let depth = stats.layers.len();
        let procs = if layer.len() < 64 { 1 } else { procs_max.min(layer.len() / 16).max(1) };
        let seen_ref = &seen;
        let layer_ref = &layer;
        let outs: Vec<WorkerOut> = crate::forkpool::fork_map(procs, |w| {
            let mut out = WorkerOut::default();
            let mut local_keys: HashSet<Vec<u8>> = HashSet::new();
            for (si, st) in layer_ref.iter().enumerate() {
                if si % procs != w {
                    continue;
                }
                let ops = enabled_ops(&st.model, cfg);
                for (oi, op) in ops.iter().enumerate() {
                    out.transitions += 1;
                    *out.per_op.entry(op.name().to_owned()).or_insert(0) += 1;
                    let mut ok = true;
                    let paths: &[PathKind] = if fresh_path {
                        &[PathKind::History, PathKind::Fresh]
                    } else {
                        &[PathKind::History]
                    };
                    for &path in paths {
                        out.real_exec += 1;
                        let (mis, completed) = check_transition(cfg, &st.history, op, path);
                        if !completed {
                            ok = false;
                        }
                        for m in mis {
                            out.mismatches += 1;
                            if !report.contains(&m.prop) {
                                continue;
                            }
                            let key = format!("{}|{}|{}", mode, m.kind, if path == PathKind::Fresh { "fresh" } else { "history" });
                            let e = out.violations.entry(key).or_insert_with(|| {
                                let case = serde_json::to_string(&Case {
                                    cfg: cfg.clone(),
                                    history: st.history.clone(),
                                    op: op.clone(),
                                    path,
                                    assign: vec![],
                                })
                                .unwrap();
                                (0, m.detail.clone(), case)
                            });
                            e.0 += 1;
                        }
                    }
                    if !ok {
                        continue;
                    }
                    let mut m2 = st.model.clone();
                    let eff = m2.apply(op);
                    if eff.overlap && (cfg.refs || !cfg.uid_tokens.is_empty()) {
                        // Which copy a Ref into a twice-cloned node follows is
                        // not documented; the step is checked but not continued.
                        continue;
                    }
                    out.regens += eff.regenerated.len() as u64;
                    let key = canon_key(&m2, sort_detached);
                    if (si as u64 + oi as u64 * 7919 + seed) % 50021 == 0 && out.samples.len() < 2 {
                        out.samples.push(
                            json!({
                                "depth": depth,
                                "history": st.history,
                                "op": op,
                                "state_after": String::from_utf8_lossy(&key),
                            })
                            .to_string(),
                        );
                    }
                    if seen_ref.contains(&key) || local_keys.contains(&key) {
                        out.merges += 1;
                        continue;
                    }
                    local_keys.insert(key.clone());
                    out.new_states.push((key, si as u32, op.clone()));
                }
            }
            out
        });
        let mut next = Vec::new();
        for out in outs {
            stats.transitions += out.transitions;
            stats.real_executions += out.real_exec;
            stats.mismatches_total += out.mismatches;
            stats.regenerations += out.regens;
            stats.merges += out.merges;
            for (k, v) in out.per_op {
                *stats.per_op.entry(k).or_insert(0) += v;
            }
            for (key, (count, what, case)) in out.violations {
                run.violation_n(&key, &what, count, || serde_json::from_str(&case).unwrap());
            }
            for s in out.samples {
                if stats.samples.len() < 4 {
                    stats.samples.push(serde_json::from_str(&s).unwrap());
                }
            }
            for (key, si, op) in out.new_states {
                if seen.insert(key) {
                    let parent = &layer[si as usize];
                    let mut m2 = parent.model.clone();
                    m2.apply(&op);
                    stats.max_live = stats.max_live.max(m2.live());
                    let mut h = parent.history.clone();
                    h.push(op);
                    next.push(St { model: m2, history: h });
                } else {
                    stats.merges += 1;
                }
            }
        }
        stats.states += next.len() as u64;
        if !next.is_empty() {
            stats.layers.push(next.len() as u64);
        }
        layer = next;
    }
    if stats.samples.is_empty() {
        stats.samples.push(json!({"depth": 0, "history": [], "note": "initial state: two DataModel roots"}));
    }
    stats
}

pub fn config_for(mode: &str, tier: Tier) -> Config {
    let cap_env = std::env::var("VERIF_DOM_CAP").ok().and_then(|s| s.parse::<usize>().ok());
    match mode {
        "struct" => Config {
            cap: cap_env.unwrap_or(if tier == Tier::Quick { 10 } else { 12 }),
            shapes: if tier == Tier::Quick {
                vec![Shape::Leaf, Shape::Chain2, Shape::Fan2]
            } else {
                vec![Shape::Leaf, Shape::Chain2, Shape::Fan2, Shape::Deep4]
            },
            uid_tokens: vec![],
            refs: false,
            overlapping_multi: true,
            triples: false,
        },
        "refs" => Config {
            cap: cap_env.unwrap_or(if tier == Tier::Quick { 5 } else { 6 }),
            shapes: vec![Shape::Leaf, Shape::Chain2, Shape::Fan2],
            uid_tokens: vec![],
            refs: true,
            overlapping_multi: true,
            triples: false,
        },
        "uids" => Config {
            cap: cap_env.unwrap_or(if tier == Tier::Quick { 6 } else { 7 }),
            shapes: vec![Shape::Leaf, Shape::Chain2],
            uid_tokens: vec![Uid::None, Uid::U1, Uid::U2, Uid::Nil],
            refs: false,
            overlapping_multi: false,
            triples: false,
        },
        _ => unreachable!(),
    }
}

pub fn stats_json(cfg: &Config, s: &Stats) -> Value {
    json!({
        "config": cfg,
        "states": s.states,
        "transitions": s.transitions,
        "traces_validated_against_impl": s.real_executions,
        "layers": s.layers,
        "closed": s.closed,
        "cap_hit": s.cap_hit,
        "max_live_instances": s.max_live,
        "merges": s.merges,
        "per_operation_transitions": s.per_op,
        "uid_regenerations_in_model": s.regenerations,
        "mismatches_all_properties": s.mismatches_total,
    })
}

pub fn replay(case_v: &Value) -> Vec<Mismatch> {
    let case: Case = match serde_json::from_value(case_v.clone()) {
        Ok(c) => c,
        Err(e) => crate::evidence::machinery_failure(&format!("bad domx replay case: {}", e)),
    };
    let (a, _) = check_transition_assigned(&case.cfg, &case.history, &case.assign, &case.op, case.path);
    let (b, _) = check_transition_assigned(&case.cfg, &case.history, &case.assign, &case.op, case.path);
    let ka: Vec<String> = a.iter().map(|m| format!("{}|{}", m.prop, m.kind)).collect();
    let kb: Vec<String> = b.iter().map(|m| format!("{}|{}", m.prop, m.kind)).collect();
    if ka != kb {
        crate::evidence::machinery_failure("replay observed different outcomes on two runs of the same case");
    }
    a
}

// ---------------------------------------------------------------------------
// C11 (a): topology product — every forest pair with at most `n_nodes` live
// instances x every assignment of the Ref property of every non-root node over
// {absent, null, ghost, every instance of either DOM} x every clone call.

#[derive(Serialize, Deserialize, Default)]
struct ProductOut {
    states: u64,
    executions: u64,
    mismatches: u64,
    per_op: BTreeMap<String, u64>,
    violations: BTreeMap<String, (u64, String, String)>,
    /// distinct (rule outcome) classes seen for Ref rewriting: inside/kept/nulled
    outcomes: BTreeMap<String, u64>,
    samples: Vec<String>,
}

pub struct ProductStats {
    pub structures: u64,
    pub states: u64,
    pub executions: u64,
    pub per_op: BTreeMap<String, u64>,
    pub outcomes: BTreeMap<String, u64>,
    pub samples: Vec<Value>,
}

pub fn clone_product(run: &Run, n_nodes: usize) -> ProductStats {
    // 1. all structures (insert-only closure, leaves only; structure-only keys)
    let gen_cfg = Config {
        cap: n_nodes,
        shapes: vec![Shape::Leaf],
        uid_tokens: vec![],
        refs: false,
        overlapping_multi: true,
            triples: false,
    };
    let mut seen: HashSet<Vec<u8>> = HashSet::new();
    let mut all: Vec<(Model, Vec<Op>)> = Vec::new();
    let mut frontier = vec![(Model::new(), Vec::<Op>::new())];
    seen.insert(canon_key(&frontier[0].0, true));
    while let Some((m, h)) = frontier.pop() {
        for op in enabled_ops(&m, &gen_cfg) {
            if !matches!(op, Op::Insert { .. }) {
                continue;
            }
            let mut m2 = m.clone();
            m2.apply(&op);
            let key = canon_key(&m2, true);
            if seen.insert(key) {
                let mut h2 = h.clone();
                h2.push(op);
                frontier.push((m2, h2));
            }
        }
        all.push((m, h));
    }
    all.sort_by_key(|(m, _)| m.live());
    let check_cfg = Config {
        cap: 64,
        shapes: vec![],
        uid_tokens: vec![],
        refs: true,
        overlapping_multi: true,
            triples: true,
    };
    let procs = crate::forkpool::default_procs();
    let all_ref = &all;
    let seed = run.seed;
    let outs: Vec<ProductOut> = crate::forkpool::fork_map(procs, |w| {
        let mut out = ProductOut::default();
        for (si, (base, hist)) in all_ref.iter().enumerate() {
            if si % procs != w {
                continue;
            }
            let non_root: Vec<Id> = base.nodes.keys().copied().filter(|i| *i >= 2).collect();
            let mut targets: Vec<Option<RefT>> = vec![None, Some(RefT::Null), Some(RefT::Ghost)];
            targets.extend(base.nodes.keys().map(|i| Some(RefT::Node(*i))));
            let k = non_root.len();
            let total = (targets.len() as u64).pow(k as u32);
            let clone_ops: Vec<Op> = enabled_ops(base, &check_cfg)
                .into_iter()
                .filter(|o| o.is_clone())
                .collect();
            for code in 0..total {
                let mut c = code;
                let mut assign: Vec<(Id, Option<RefT>)> = Vec::with_capacity(k);
                for &id in &non_root {
                    assign.push((id, targets[(c % targets.len() as u64) as usize]));
                    c /= targets.len() as u64;
                }
                out.states += 1;
                for op in &clone_ops {
                    out.executions += 1;
                    *out.per_op.entry(op.name().to_owned()).or_insert(0) += 1;
                    let (mis, _) = check_transition_assigned(&check_cfg, hist, &assign, op, PathKind::Fresh);
                    // classify which branches of the three-way rule this case exercises
                    {
                        let mut m = Model::new();
                        for h in hist {
                            m.apply(h);
                        }
                        for (id, r) in &assign {
                            m.nodes.get_mut(id).unwrap().r = *r;
                        }
                        let before = m.clone();
                        let eff = m.apply(op);
                        for (orig, copy) in &eff.clone_pairs {
                            let class = match (before.nodes[orig].r, m.nodes[copy].r) {
                                (None, _) => "no-ref",
                                (Some(RefT::Null), _) => "null-stays-null",
                                (Some(RefT::Ghost), _) => "ghost-to-null",
                                (Some(RefT::Node(a)), Some(RefT::Node(b))) if a == b => "outside-kept",
                                (Some(RefT::Node(_)), Some(RefT::Node(_))) => "inside-rewritten",
                                (Some(RefT::Node(_)), _) => "outside-nulled",
                            };
                            *out.outcomes.entry(class.to_owned()).or_insert(0) += 1;
                        }
                    }
                    for m in mis {
                        out.mismatches += 1;
                        if m.prop != "C11" {
                            continue;
                        }
                        let key = format!("product|{}", m.kind);
                        let e = out.violations.entry(key).or_insert_with(|| {
                            let case = serde_json::to_string(&Case {
                                cfg: check_cfg.clone(),
                                history: hist.clone(),
                                op: op.clone(),
                                path: PathKind::Fresh,
                                assign: assign.clone(),
                            })
                            .unwrap();
                            (0, m.detail.clone(), case)
                        });
                        e.0 += 1;
                    }
                    if out.samples.len() < 1 && (code + si as u64 + seed) % 977 == 5 {
                        out.samples.push(json!({"history": hist, "assign": assign, "op": op}).to_string());
                    }
                }
            }
        }
        out
    });
    let mut st = ProductStats {
        structures: all.len() as u64,
        states: 0,
        executions: 0,
        per_op: BTreeMap::new(),
        outcomes: BTreeMap::new(),
        samples: vec![],
    };
    for o in outs {
        st.states += o.states;
        st.executions += o.executions;
        for (k, v) in o.per_op {
            *st.per_op.entry(k).or_insert(0) += v;
        }
        for (k, v) in o.outcomes {
            *st.outcomes.entry(k).or_insert(0) += v;
        }
        for (key, (count, what, case)) in o.violations {
            run.violation_n(&key, &what, count, || serde_json::from_str(&case).unwrap());
        }
        for s in o.samples {
            if st.samples.len() < 3 {
                st.samples.push(serde_json::from_str(&s).unwrap());
            }
        }
    }
    st
}
