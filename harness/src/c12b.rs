//! C12 (b): DOMs obtained from the binary and XML readers. Files that really
//! contain equal UniqueId values (written by the independent encoder / as XML
//! text, never by the subject's writers) are decoded by the real readers; the
//! resulting DOM must hold pairwise distinct ids, keep every id that did not
//! collide, and its private bookkeeping must agree with what the instances hold
//! (probed through inserts, as in the history exploration).

use rbx_dom_weak::types::{Ref, UniqueId, Variant};
use rbx_dom_weak::{InstanceBuilder, WeakDom};
use serde::{Deserialize, Serialize};
use serde_json::{json, Value};

use crate::evidence::{Run, Tier};
use crate::plan::{forests, PNode, PVal, Plan, RootSel};
use crate::specbin::enc;
use crate::sweeps::{run_cases, SweepOut};

const CLASSES: [&str; 4] = ["Folder", "Model", "Configuration", "Part"];

pub fn token_id(t: u8) -> Option<UniqueId> {
    match t {
        0 => None,
        // differ in the time field only, negative random part (see dommodel::uid_value)
        1 => Some(UniqueId::new(9, 100, -0x1111)),
        2 => Some(UniqueId::new(9, 200, -0x1111)),
        _ => Some(UniqueId::nil()),
    }
}

fn token_name(t: u8) -> &'static str {
    ["none", "U1", "U2", "nil"][t as usize]
}

#[derive(Clone, Debug, Serialize, Deserialize)]
pub struct Case12b {
    pub parents: Vec<Option<usize>>,
    pub tokens: Vec<u8>,
    /// 0 = binary (spec encoder, base), 1 = binary with reversed INST/referent numbering, 2 = XML, 3 = XML with Properties after the children
    pub format: u8,
    /// all nodes share one class (one PROP column) instead of one class each
    pub same_class: bool,
    /// format 4 only (no file: `WeakDom::new` on nested builders): token carried by the DOM root itself
    #[serde(default)]
    pub root_token: u8,
    /// 0 = none; t = every node that carries a UniqueId names the property twice: first with
    /// token t (when that differs from its own), then with its own. Binary: two PROP chunks of
    /// one name; XML: two elements; builders: two entries. Which entry wins is the
    /// implementation's choice - the bookkeeping must agree with what the instance ends up holding.
    /// Format 5 = like 4, but every top-level tree goes through the public `WeakDom::insert`.
    #[serde(default)]
    pub decoy: u8,
}

fn decoy_for(c: &Case12b, i: usize) -> Option<UniqueId> {
    if c.decoy == 0 || c.tokens[i] == 0 || c.tokens[i] == c.decoy {
        None
    } else {
        token_id(c.decoy)
    }
}

fn plan_of(c: &Case12b) -> Plan {
    let n = c.parents.len();
    let nodes = (0..n)
        .map(|i| PNode {
            class: if c.same_class { "Folder".to_owned() } else { CLASSES[i % CLASSES.len()].to_owned() },
            name: format!("n{}", i),
            parent: c.parents[i],
            props: match token_id(c.tokens[i]) {
                Some(id) => vec![("UniqueId".to_owned(), PVal::V(Variant::UniqueId(id)))],
                None => vec![],
            },
        })
        .collect();
    Plan { nodes, roots: RootSel::Nodes(vec![]) }
}

fn xml_of(c: &Case12b) -> String {
    let plan = plan_of(c);
    let decoys: Vec<Option<UniqueId>> = (0..plan.nodes.len()).map(|i| decoy_for(c, i)).collect();
    fn item(plan: &Plan, decoys: &[Option<UniqueId>], i: usize, props_last: bool, out: &mut String) {
        let n = &plan.nodes[i];
        out.push_str(&format!("<Item class=\"{}\" referent=\"R{}\">", n.class, i));
        let mut props = format!("<Properties><string name=\"Name\">{}</string>", n.name);
        for (k, v) in &n.props {
            if let PVal::V(Variant::UniqueId(id)) = v {
                if let Some(d) = decoys[i] {
                    props.push_str(&format!("<UniqueId name=\"{}\">{}</UniqueId>", k, d));
                }
                props.push_str(&format!("<UniqueId name=\"{}\">{}</UniqueId>", k, id));
            }
        }
        props.push_str("</Properties>");
        if !props_last {
            out.push_str(&props);
        }
        for ch in plan.children_of(Some(i)) {
            item(plan, decoys, ch, props_last, out);
        }
        if props_last {
            out.push_str(&props);
        }
        out.push_str("</Item>");
    }
    let mut s = String::from("<roblox version=\"4\">");
    for r in plan.children_of(None) {
        item(&plan, &decoys, r, c.format == 3, &mut s);
    }
    s.push_str("</roblox>");
    s
}

pub fn file_of(c: &Case12b) -> Result<Vec<u8>, String> {
    match c.format {
        0 | 1 => {
            let plan = plan_of(c);
            let mut e = enc::base_encoding(&plan);
            if c.format == 1 {
                let n = plan.nodes.len() as i32;
                e.referents = (0..n).map(|i| 10 + (n - 1 - i) * 3).collect();
                e.inst_order.reverse();
            }
            let real = enc::encode(&plan, &e)?;
            if c.decoy == 0 {
                return Ok(real);
            }
            // the same file with the decoy values: its UniqueId PROP chunks are spliced in front of
            // the real ones (base encoding: every chunk is stored uncompressed)
            let mut dplan = plan.clone();
            for (i, n) in dplan.nodes.iter_mut().enumerate() {
                if let Some(d) = decoy_for(c, i) {
                    n.props = vec![("UniqueId".to_owned(), PVal::V(Variant::UniqueId(d)))];
                }
            }
            let decoy_file = enc::encode(&dplan, &e)?;
            let chunks = |b: &[u8]| -> Vec<(usize, usize)> {
                let mut v = Vec::new();
                let mut p = 32;
                while p + 16 <= b.len() {
                    let len = u32::from_le_bytes(b[p + 8..p + 12].try_into().unwrap()) as usize;
                    v.push((p, p + 16 + len));
                    p += 16 + len;
                }
                v
            };
            let is_uid_prop = |b: &[u8], (s, e): (usize, usize)| -> bool { &b[s..s + 4] == b"PROP" && e - s > 16 + 8 + 8 && &b[s + 16 + 8..s + 16 + 16] == b"UniqueId" };
            let (rc, dc) = (chunks(&real), chunks(&decoy_file));
            if rc.len() != dc.len() {
                return Err("decoy file has another chunk structure".into());
            }
            let mut out = real[..32].to_vec();
            for (k, &(s, e2)) in rc.iter().enumerate() {
                if is_uid_prop(&real, (s, e2)) && is_uid_prop(&decoy_file, dc[k]) && real[s..e2] != decoy_file[dc[k].0..dc[k].1] {
                    out.extend_from_slice(&decoy_file[dc[k].0..dc[k].1]);
                }
                out.extend_from_slice(&real[s..e2]);
            }
            Ok(out)
        }
        _ => Ok(xml_of(c).into_bytes()),
    }
}

fn preorder(dom: &WeakDom) -> Vec<Ref> {
    let mut out = Vec::new();
    fn go(dom: &WeakDom, r: Ref, out: &mut Vec<Ref>) {
        out.push(r);
        for &c in dom.get_by_ref(r).unwrap().children() {
            go(dom, c, out);
        }
    }
    for &c in dom.root().children() {
        go(dom, c, &mut out);
    }
    out
}

fn held(dom: &WeakDom, r: Ref) -> Option<UniqueId> {
    match dom.get_by_ref(r).and_then(|i| i.properties.get(&"UniqueId".into())) {
        Some(Variant::UniqueId(u)) => Some(*u),
        _ => None,
    }
}

/// probe: insert a leaf carrying `id`; returns whether the leaf kept it. The leaf is destroyed again.
fn probe(dom: &mut WeakDom, id: UniqueId) -> bool {
    let root = dom.root_ref();
    let r = dom.insert(root, InstanceBuilder::new("Folder").with_property("UniqueId", id));
    let kept = held(dom, r) == Some(id);
    dom.destroy(r);
    kept
}

pub fn judge(c: &Case12b) -> Vec<(String, String)> {
    let mut out = Vec::new();
    let fmt = ["binary", "binary", "xml", "xml", "new", "insert"][c.format as usize];
    // (the XML reader's listed finding - it bypasses the bookkeeping altogether - is the same
    // finding whether or not an element is repeated, so XML keys carry no suffix)
    let fmt = if c.decoy != 0 && !fmt.starts_with("xml") { format!("{}+twice", fmt) } else { fmt.to_owned() };
    let fmt = fmt.as_str();
    let desc = format!("{} parents={:?} ids={:?}{}{}", ["binary", "binary(reversed numbering)", "xml", "xml(Properties last)", "WeakDom::new(nested builders)", "WeakDom::insert(nested builders)"][c.format as usize], c.parents, c.tokens.iter().map(|&t| token_name(t)).collect::<Vec<_>>(), if c.same_class { " one class" } else { "" }, if c.format >= 4 { format!(" root={}{}", token_name(c.root_token), if c.decoy != 0 { format!(" named twice, first as {}", token_name(c.decoy)) } else { String::new() }) } else if c.decoy != 0 { format!(" named twice, first as {}", token_name(c.decoy)) } else { String::new() });
    let bytes = if c.format >= 4 {
        Vec::new()
    } else {
        match file_of(c) {
            Ok(b) => b,
            Err(e) => crate::evidence::machinery_failure(&format!("spec encoder failed: {}", e)),
        }
    };
    let res = crate::evidence::guarded(|| match c.format {
        0 | 1 => rbx_binary::from_reader(bytes.as_slice()).map_err(|e| e.to_string()),
        4 | 5 => {
            let plan = plan_of(c);
            let decoys: Vec<Option<UniqueId>> = (0..plan.nodes.len()).map(|i| decoy_for(c, i)).collect();
            fn b(plan: &Plan, decoys: &[Option<UniqueId>], i: usize) -> InstanceBuilder {
                let n = &plan.nodes[i];
                let mut x = InstanceBuilder::new(n.class.as_str()).with_name(n.name.as_str());
                if let Some(d) = decoys[i] {
                    x = x.with_property("UniqueId", d);
                }
                for (k, v) in &n.props {
                    if let PVal::V(v) = v {
                        x = x.with_property(k.as_str(), v.clone());
                    }
                }
                for ch in plan.children_of(Some(i)) {
                    x = x.with_child(b(plan, decoys, ch));
                }
                x
            }
            let mut root = InstanceBuilder::new("DataModel");
            if let Some(id) = token_id(c.root_token) {
                root = root.with_property("UniqueId", id);
            }
            if c.format == 4 {
                for t in plan.children_of(None) {
                    root = root.with_child(b(&plan, &decoys, t));
                }
                Ok(WeakDom::new(root))
            } else {
                let mut dom = WeakDom::new(root);
                let rr = dom.root_ref();
                for t in plan.children_of(None) {
                    dom.insert(rr, b(&plan, &decoys, t));
                }
                Ok(dom)
            }
        }
        _ => rbx_xml::from_reader_default(bytes.as_slice()).map_err(|e| e.to_string()),
    });
    let mut dom = match res {
        Err((site, msg)) => {
            out.push((format!("c12b|{}|panic|{}", fmt, crate::evidence::panic_signature(&site, &msg)), format!("reader panicked on {}: {} {}", desc, site, msg)));
            return out;
        }
        Ok(Err(e)) => {
            out.push((format!("c12b|{}|rejected", fmt), format!("reader rejects a file whose only peculiarity is equal UniqueId values ({}): {}", desc, e)));
            return out;
        }
        Ok(Ok(d)) => d,
    };
    let mut order = preorder(&dom);
    let mut tokens = c.tokens.clone();
    if c.format >= 4 {
        order.insert(0, dom.root_ref());
        tokens.insert(0, c.root_token);
    }
    let c = &Case12b { tokens, ..c.clone() };
    if order.len() != c.tokens.len() {
        out.push((format!("c12b|{}|shape", fmt), format!("{} instances decoded, {} in the file ({})", order.len(), c.tokens.len(), desc)));
        return out;
    }
    let ids: Vec<Option<UniqueId>> = order.iter().map(|&r| held(&dom, r)).collect();
    // API view and property view agree
    for (k, &r) in order.iter().enumerate() {
        if dom.get_unique_id(r) != ids[k] {
            out.push((format!("c12b|{}|get_unique_id-disagrees", fmt), format!("get_unique_id and the UniqueId property disagree on node {} ({})", k, desc)));
        }
    }
    // (1) pairwise distinct
    for a in 0..ids.len() {
        for b in (a + 1)..ids.len() {
            if ids[a].is_some() && ids[a] == ids[b] {
                out.push((format!("c12b|{}|duplicate-after-decode", fmt), format!("two instances of the decoded DOM hold the same UniqueId {} (nodes {} and {}; {})", ids[a].unwrap(), a, b, desc)));
            }
        }
    }
    // (2) preserved unless it collided: every distinct file value is still held by exactly one of the
    // instances that carried it in the file, an instance whose value is unique in the file keeps it,
    // and an instance without the property in the file does not gain a colliding one
    if c.decoy != 0 {
        // which of the two entries wins is not specified: a node may hold either; a third value
        // (a regenerated id) needs another carrier to collide with
        let carriers = c.tokens.iter().filter(|&&t| t != 0).count();
        let dv = token_id(c.decoy);
        for k in 0..ids.len() {
            if c.tokens[k] == 0 {
                continue;
            }
            let own = token_id(c.tokens[k]);
            if ids[k].is_some() && ids[k] != own && ids[k] != dv && carriers < 2 {
                out.push((format!("c12b|{}|changed-without-collision", fmt), format!("node {} named {} and {} and holds {:?} after decoding although nothing else carries an id ({})", k, token_name(c.decoy), token_name(c.tokens[k]), ids[k].map(|u| u.to_string()), desc)));
            }
        }
    }
    for t in 1..4u8 {
        if c.decoy != 0 {
            break;
        }
        let v = token_id(t).unwrap();
        let carriers: Vec<usize> = (0..ids.len()).filter(|&k| c.tokens[k] == t).collect();
        if carriers.is_empty() {
            continue;
        }
        let still: Vec<usize> = carriers.iter().cloned().filter(|&k| ids[k] == Some(v)).collect();
        if carriers.len() == 1 && still.len() != 1 {
            out.push((format!("c12b|{}|changed-without-collision", fmt), format!("node {} carried {} alone in the file and holds {:?} after decoding ({})", carriers[0], token_name(t), ids[carriers[0]].map(|u| u.to_string()), desc)));
        }
        if carriers.len() > 1 && still.is_empty() {
            out.push((format!("c12b|{}|all-carriers-changed", fmt), format!("none of the nodes {:?} that carried {} keeps it after decoding ({})", carriers, token_name(t), desc)));
        }
    }
    for k in 0..ids.len() {
        if c.tokens[k] != 0 && ids[k].is_none() {
            out.push((format!("c12b|{}|id-lost", fmt), format!("node {} carried {} in the file and has no UniqueId after decoding ({})", k, token_name(c.tokens[k]), desc)));
        }
    }
    if out.iter().any(|(k, _)| k.contains("duplicate-after-decode")) {
        // the probes below assume distinct ids
    }
    // (3) bookkeeping agrees with what is held: a colliding insert regenerates, a non-colliding one keeps
    for t in 1..4u8 {
        let v = token_id(t).unwrap();
        let holders = order.iter().filter(|&&r| held(&dom, r) == Some(v)).count();
        let kept = probe(&mut dom, v);
        if holders > 0 && kept {
            out.push((format!("c12b|{}|unregistered-id", fmt), format!("after decoding, an instance holds {} but a newly inserted instance with the same id keeps it: the DOM does not know the id is taken ({})", token_name(t), desc)));
        }
        if holders == 0 && !kept {
            out.push((format!("c12b|{}|stale-id", fmt), format!("after decoding, no instance holds {} but a newly inserted instance with that id gets a new one ({})", token_name(t), desc)));
        }
        // the probe itself must have been freed again
        let kept2 = probe(&mut dom, v);
        if kept2 != kept {
            out.push((format!("c12b|{}|probe-not-repeatable", fmt), format!("inserting and destroying an instance with {} changes what the next such insert does ({})", token_name(t), desc)));
        }
    }
    // (4) one more history step: destroy the holder of each value, the value becomes available again
    for t in 1..4u8 {
        let v = token_id(t).unwrap();
        let holder = preorder(&dom).into_iter().find(|&r| held(&dom, r) == Some(v));
        if let Some(h) = holder {
            // only leaves, so that other holders are not removed with it
            if dom.get_by_ref(h).unwrap().children().is_empty() {
                dom.destroy(h);
                let others = preorder(&dom).into_iter().filter(|&r| held(&dom, r) == Some(v)).count();
                let kept = probe(&mut dom, v);
                if others == 0 && !kept {
                    out.push((format!("c12b|{}|not-freed-after-destroy", fmt), format!("the decoded holder of {} was destroyed but the id is still treated as taken ({})", token_name(t), desc)));
                }
            }
        }
    }
    out.sort();
    out.dedup_by(|a, b| a.0 == b.0);
    out
}

pub fn cases(tier: Tier) -> Vec<Case12b> {
    let maxn = if tier == Tier::Quick { 3 } else { 4 };
    let mut out = Vec::new();
    for n in 1..=maxn {
        for parents in forests(n) {
            let total = 4usize.pow(n as u32);
            for code in 0..total {
                let mut c = code;
                let tokens: Vec<u8> = (0..n).map(|_| { let x = (c % 4) as u8; c /= 4; x }).collect();
                for format in 0..6u8 {
                  for decoy in 0..4u8 {
                    if decoy != 0 && !tokens.iter().any(|&t| t != 0 && t != decoy) {
                        continue;
                    }
                    for same_class in [false, true] {
                        if format >= 4 {
                            if !same_class {
                                for root_token in 0..4u8 {
                                    out.push(Case12b { parents: parents.clone(), tokens: tokens.clone(), format, same_class, root_token, decoy });
                                }
                            }
                            continue;
                        }
                        // one PROP column carries one value per instance: with a shared class every node needs the property
                        if same_class && format < 2 && tokens.iter().any(|&t| t == 0) && tokens.iter().any(|&t| t != 0) {
                            continue;
                        }
                        out.push(Case12b { parents: parents.clone(), tokens: tokens.clone(), format, same_class, root_token: 0, decoy });
                    }
                  }
                }
            }
        }
    }
    out
}

pub fn check(run: &Run, total: &mut SweepOut) -> Value {
    let cs = cases(run.tier);
    let o = run_cases(&cs, &|_, c: &Case12b, out: &mut SweepOut| {
        out.cases += 1;
        out.executions += 1;
        let dup = (1..4u8).any(|t| c.tokens.iter().filter(|&&x| x == t).count() > 1);
        if dup {
            out.nontrivial += 1;
        }
        let vs = judge(c);
        out.outcome(if vs.is_empty() { if dup { "held:file-with-duplicates" } else { "held:file-without-duplicates" } } else { "problem" });
        for (k, w) in vs {
            out.violation(k, w, || serde_json::to_value(c).unwrap());
        }
        if out.samples.len() < 2 && dup {
            out.samples.push(json!({"reader_case": c, "file_bytes": file_of(c).map(|b| b.len()).unwrap_or(0)}).to_string());
        }
    });
    let v = json!({
        "files_decoded": o.cases,
        "files_with_equal_ids": o.nontrivial,
        "outcomes": o.outcomes,
        "max_instances": if run.tier == Tier::Quick { 3 } else { 4 },
        "formats": ["binary via the independent encoder (base and reversed numbering)", "XML text (Properties first / last)"],
    });
    total.merge(o);
    v
}

pub fn replay(case: &Value) -> Vec<(String, String)> {
    let c: Case12b = serde_json::from_value(case.clone()).unwrap_or_else(|e| crate::evidence::machinery_failure(&format!("bad replay: {}", e)));
    judge(&c)
}
