//! Our own walk of the public `rbx_reflection` types (alias -> canonical ->
//! serializes-as / migrate), independent of both `find_property_descriptors`
//! copies in rbx_binary and rbx_xml. Used to compute *expected* canonical names
//! and types.

use rbx_reflection::{
    ClassDescriptor, DataType, PropertyDescriptor, PropertyKind, PropertyMigration, PropertySerialization,
    ReflectionDatabase,
};
use rbx_types::{Variant, VariantType};

pub fn db() -> &'static ReflectionDatabase<'static> {
    rbx_reflection_database::get()
}

#[derive(Clone, Debug, PartialEq, Eq)]
pub enum Ty {
    Value(VariantType),
    Enum(String),
    Other,
}

impl Ty {
    pub fn of(d: &DataType) -> Ty {
        match d {
            DataType::Value(v) => Ty::Value(*v),
            DataType::Enum(e) => Ty::Enum(e.to_string()),
            _ => Ty::Other,
        }
    }
    /// The Variant type values of this property have in a DOM.
    pub fn variant_type(&self) -> Option<VariantType> {
        match self {
            Ty::Value(v) => Some(*v),
            Ty::Enum(_) => Some(VariantType::Enum),
            Ty::Other => None,
        }
    }
}

#[derive(Clone, Debug)]
pub enum Ser {
    Serializes,
    DoesNotSerialize,
    /// serialized under another descriptor of the same class
    As { name: String, ty: Ty },
    Migrate { to: String, migration: &'static PropertyMigration },
    Unknown,
}

#[derive(Clone, Debug)]
pub struct Known {
    /// class that declares the descriptor
    pub declared_in: String,
    /// the name that was looked up is an alias
    pub via_alias: bool,
    pub canonical: String,
    pub canonical_ty: Ty,
    pub ser: Ser,
}

#[derive(Clone, Debug)]
pub enum Lookup {
    UnknownClass,
    UnknownProp,
    Known(Known),
    /// the database is incoherent for this name
    Broken(String),
}

pub fn class_chain(class: &str) -> Option<Vec<&'static ClassDescriptor<'static>>> {
    let d = db();
    let mut out = Vec::new();
    let mut cur = d.classes.get(class)?;
    let mut guard = 0;
    loop {
        out.push(cur);
        guard += 1;
        if guard > 64 {
            return None;
        }
        match &cur.superclass {
            Some(s) => match d.classes.get(s.as_ref()) {
                Some(n) => cur = n,
                None => return None,
            },
            None => break,
        }
    }
    Some(out)
}

fn describe(class: &'static ClassDescriptor<'static>, desc: &'static PropertyDescriptor<'static>, via_alias: bool) -> Lookup {
    match &desc.kind {
        PropertyKind::Canonical { serialization } => {
            let ser = match serialization {
                PropertySerialization::Serializes => Ser::Serializes,
                PropertySerialization::DoesNotSerialize => Ser::DoesNotSerialize,
                PropertySerialization::SerializesAs(name) => match class.properties.get(name.as_ref()) {
                    Some(s) => Ser::As {
                        name: name.to_string(),
                        ty: Ty::of(&s.data_type),
                    },
                    None => {
                        return Lookup::Broken(format!(
                            "{}.{} serializes as {} which is not a property of the same class",
                            class.name, desc.name, name
                        ))
                    }
                },
                PropertySerialization::Migrate(m) => Ser::Migrate {
                    to: m.new_property_name.clone(),
                    migration: m,
                },
                _ => Ser::Unknown,
            };
            Lookup::Known(Known {
                declared_in: class.name.to_string(),
                via_alias,
                canonical: desc.name.to_string(),
                canonical_ty: Ty::of(&desc.data_type),
                ser,
            })
        }
        PropertyKind::Alias { alias_for } => {
            if via_alias {
                return Lookup::Broken(format!("{}.{} is an alias of an alias", class.name, desc.name));
            }
            match class.properties.get(alias_for.as_ref()) {
                Some(c) => match &c.kind {
                    PropertyKind::Canonical { .. } => describe(class, c, true),
                    _ => Lookup::Broken(format!(
                        "{}.{} is an alias for {} which is not canonical",
                        class.name, desc.name, alias_for
                    )),
                },
                None => Lookup::Broken(format!(
                    "{}.{} is an alias for {} which is not a property of the same class",
                    class.name, desc.name, alias_for
                )),
            }
        }
        _ => Lookup::Broken(format!("{}.{} has an unknown kind", class.name, desc.name)),
    }
}

pub fn lookup(class: &str, prop: &str) -> Lookup {
    let chain = match class_chain(class) {
        Some(c) => c,
        None => {
            if db().classes.contains_key(class) {
                return Lookup::Broken(format!("superclass chain of {} does not resolve", class));
            }
            return Lookup::UnknownClass;
        }
    };
    for c in chain {
        if let Some(d) = c.properties.get(prop) {
            return describe(c, d, false);
        }
    }
    Lookup::UnknownProp
}

/// Default value recorded for `class` (walking up the superclass chain).
pub fn default_value(class: &str, canonical: &str) -> Option<&'static Variant> {
    for c in class_chain(class)? {
        if let Some(v) = c.default_properties.get(canonical) {
            return Some(v);
        }
    }
    None
}

/// What a (class, property-name) pair is expected to look like after a binary
/// or XML round trip: the canonical name, and the type the value is stored as.
#[derive(Clone, Debug)]
pub struct Expect {
    pub name: String,
    /// type of the decoded value in the DOM
    pub ty: Option<VariantType>,
    /// serialized (wire) descriptor name / type
    pub wire_name: String,
    pub wire_ty: Option<VariantType>,
    pub serializes: bool,
    pub migrate: Option<(String, &'static PropertyMigration)>,
}

pub fn expect(class: &str, prop: &str) -> Option<Expect> {
    match lookup(class, prop) {
        Lookup::Known(k) => {
            let cty = k.canonical_ty.variant_type();
            Some(match k.ser {
                Ser::Serializes => Expect {
                    name: k.canonical.clone(),
                    ty: cty,
                    wire_name: k.canonical,
                    wire_ty: cty,
                    serializes: true,
                    migrate: None,
                },
                Ser::As { name, ty } => Expect {
                    // a reader meets the serialized name and resolves *that*: normally an alias of
                    // this very property, but two properties of the bundled database are stored under
                    // a descriptor that belongs to another canonical property (Sound.MaxDistance ->
                    // xmlRead_MaxDistance_3 = alias of RollOffMaxDistance; MaterialService.Use2022Materials
                    // -> Use2022MaterialsXml, canonical itself)
                    name: match lookup(class, &name) {
                        Lookup::Known(t) => t.canonical,
                        _ => k.canonical,
                    },
                    ty: cty,
                    wire_name: name,
                    wire_ty: ty.variant_type(),
                    serializes: true,
                    migrate: None,
                },
                Ser::Migrate { to, migration } => Expect {
                    name: k.canonical.clone(),
                    ty: cty,
                    wire_name: k.canonical,
                    wire_ty: cty,
                    serializes: true,
                    migrate: Some((to, migration)),
                },
                Ser::DoesNotSerialize | Ser::Unknown => Expect {
                    name: k.canonical.clone(),
                    ty: cty,
                    wire_name: k.canonical,
                    wire_ty: cty,
                    serializes: false,
                    migrate: None,
                },
            })
        }
        _ => None,
    }
}

/// For every Variant type: a database-known, serializing, non-migrating
/// property whose declared type is that type, reached through its canonical
/// name and (if different) its serialized name. Chosen deterministically
/// (lexicographically smallest class, then property).
pub fn known_property_for(ty: VariantType) -> Option<(String, String, String)> {
    // plainly serializing properties first; types that only occur on properties stored under
    // another descriptor (Attributes, Tags, MaterialColors ...) fall back to those
    known_property_pass(ty, false).or_else(|| known_property_pass(ty, true))
}

fn known_property_pass(ty: VariantType, serializes_as: bool) -> Option<(String, String, String)> {
    let d = db();
    let mut names: Vec<String> = d.classes.keys().map(|k| k.to_string()).collect();
    names.sort();
    for cname in &names {
        let c = &d.classes[cname.as_str()];
        let mut props: Vec<&str> = c.properties.keys().map(|k| k.as_ref()).collect();
        props.sort();
        for p in props {
            let desc = &c.properties[p];
            if let PropertyKind::Canonical { serialization } = &desc.kind {
                let vt = match &desc.data_type {
                    DataType::Value(v) => *v,
                    DataType::Enum(_) => VariantType::Enum,
                    _ => continue,
                };
                if vt != ty {
                    continue;
                }
                if p == "UniqueId" || p == "Name" {
                    continue;
                }
                match serialization {
                    PropertySerialization::Serializes if !serializes_as => return Some((cname.clone(), p.to_owned(), p.to_owned())),
                    PropertySerialization::SerializesAs(other) if serializes_as => {
                        // only where the stored descriptor is an alias of this very property
                        if let Lookup::Known(k) = lookup(cname, other) {
                            if k.canonical == p {
                                return Some((cname.clone(), p.to_owned(), other.to_string()));
                            }
                        }
                    }
                    _ => continue,
                }
            }
        }
    }
    None
}
