//! Model-checking harness for rbx-dom (see /verif/DESIGN.md).
pub mod evidence;
pub mod dommodel;
pub mod domx;
pub mod deepdom;
pub mod forkpool;
pub mod sched;
pub mod c18;
pub mod vals;
pub mod specdb;
pub mod plan;
pub mod codec;
pub mod sweeps;
pub mod c14;
pub mod c17;
pub mod c16;
pub mod c15;
pub mod c06;
pub mod c08;
pub mod c07;
pub mod c07b;
pub mod alloctrack;
pub mod crashpool;

#[global_allocator]
static GLOBAL: alloctrack::Tracking = alloctrack::Tracking;
pub mod c12b;
pub mod c13;
pub mod specbin;
pub mod scalar;
pub mod mixed;
pub mod domprobes;
pub mod lencheck;
pub mod history;
pub mod c03;
pub mod c04;
pub mod c05;
