//! C18: SharedString interning under every interleaving of short thread
//! programs; C12(c): concurrent `UniqueId::now()`.

use std::collections::{BTreeMap, BTreeSet};
use std::hash::{Hash, Hasher};
use std::sync::{Arc, Mutex};

use rbx_types::{SharedString, UniqueId};
use serde::{Deserialize, Serialize};
use serde_json::{json, Value};

use crate::evidence::Run;
use crate::sched::{self, Execution};

#[derive(Clone, Copy, Debug, PartialEq, Eq, Hash, Serialize, Deserialize, PartialOrd, Ord)]
pub enum SOp {
    NewA,
    NewB,
    /// clone the newest live handle of this thread
    CloneNewest,
    DropNewest,
    DropOldest,
}

fn content(id: u8) -> Vec<u8> {
    match id {
        0 => b"verif-content-a".to_vec(),
        _ => b"verif-content-b-longer".to_vec(),
    }
}

#[derive(Clone, Debug, Serialize, Deserialize, PartialEq, Eq, Hash, PartialOrd, Ord)]
pub struct Config18 {
    /// per thread: number of pre-existing handles to content A it starts with (0/1)
    pub pre: Vec<u8>,
    pub programs: Vec<Vec<SOp>>,
    /// which free block the allocator hands out for a buffer header: 0 = whatever malloc does,
    /// 1 = the most recently freed one, 2 = the least recently freed one (see alloctrack)
    #[serde(default)]
    pub alloc: u8,
}

/// live handle table shared with the controller: per thread, (content id, buffer address)
type Table = Arc<Mutex<Vec<Vec<(u8, usize)>>>>;

pub struct ThreadEnd {
    pub handles: Vec<(u8, SharedString)>,
    pub failures: Vec<String>,
}

fn hash_of(s: &SharedString) -> u64 {
    let mut h = std::collections::hash_map::DefaultHasher::new();
    Hash::hash(s, &mut h);
    h.finish()
}

/// What each content hashed to the first time this process held it (outside any explored
/// execution): equal contents hash equal whenever their handles lived, not only while they
/// share a buffer.
fn reference_hashes() -> &'static [u64; 2] {
    static R: std::sync::OnceLock<[u64; 2]> = std::sync::OnceLock::new();
    R.get_or_init(|| {
        let mut out = [0u64; 2];
        for c in 0..2u8 {
            // a decoy allocation of the same size class first, kept alive, so that the buffers of
            // later executions do not all land on this one's address
            let decoy = content(c);
            let h = SharedString::new(content(c));
            out[c as usize] = hash_of(&h);
            drop(h);
            std::mem::forget(decoy);
        }
        out
    })
}

fn run_program(tid: usize, prog: Vec<SOp>, mut handles: Vec<(u8, SharedString)>, table: Table) -> ThreadEnd {
    let mut failures = Vec::new();
    let publish = |handles: &Vec<(u8, SharedString)>| {
        let mut t = table.lock().unwrap();
        t[tid] = handles.iter().map(|(c, h)| (*c, h.data().as_ptr() as usize)).collect();
    };
    let verify = |handles: &Vec<(u8, SharedString)>, failures: &mut Vec<String>| {
        for (c, h) in handles {
            if h.data() != content(*c).as_slice() {
                failures.push(format!("thread {}: handle created from content {} exposes other bytes", tid, c));
            }
            if hash_of(h) != reference_hashes()[*c as usize] {
                failures.push("a handle hashes differently from an earlier handle of the same contents (one that was released before this one was created)".to_owned());
            }
        }
        for i in 0..handles.len() {
            for j in (i + 1)..handles.len() {
                let same = handles[i].0 == handles[j].0;
                if same && !(handles[i].1 == handles[j].1 && hash_of(&handles[i].1) == hash_of(&handles[j].1)) {
                    failures.push(format!("thread {}: equal contents compare or hash unequal", tid));
                }
                if !same && handles[i].1 == handles[j].1 {
                    failures.push(format!("thread {}: different contents compare equal", tid));
                }
            }
        }
    };
    for (opi, op) in prog.into_iter().enumerate() {
        // operation boundary: the other threads may run between two operations
        sched::yield_here("op");
        match op {
            SOp::NewA | SOp::NewB => {
                let c = if op == SOp::NewA { 0 } else { 1 };
                // the same bytes arrive in buffers of different capacity (exact, or with room to
                // spare), as they do from `to_vec`, `read_to_end` or a base64 decoder
                let mut bytes = content(c);
                if (tid + opi) % 2 == 1 {
                    let mut roomy = Vec::with_capacity(bytes.len() + 40);
                    roomy.extend_from_slice(&bytes);
                    bytes = roomy;
                }
                let h = SharedString::new(bytes);
                handles.push((c, h));
            }
            SOp::CloneNewest => {
                let (c, h) = handles.last().expect("program validity");
                let n = (*c, h.clone());
                handles.push(n);
            }
            SOp::DropNewest => {
                let (_, h) = handles.pop().expect("program validity");
                // the handle stops being live the moment drop starts
                publish(&handles);
                drop(h);
            }
            SOp::DropOldest => {
                let (_, h) = handles.remove(0);
                publish(&handles);
                drop(h);
            }
        }
        publish(&handles);
        verify(&handles, &mut failures);
    }
    ThreadEnd { handles, failures }
}

pub fn valid_programs(max_len: usize, pre: u8) -> Vec<Vec<SOp>> {
    let mut out: Vec<Vec<SOp>> = Vec::new();
    fn rec(cur: &mut Vec<SOp>, live: usize, max_len: usize, out: &mut Vec<Vec<SOp>>) {
        if !cur.is_empty() {
            out.push(cur.clone());
        }
        if cur.len() == max_len {
            return;
        }
        for op in [SOp::NewA, SOp::NewB, SOp::CloneNewest, SOp::DropNewest, SOp::DropOldest] {
            let nl = match op {
                SOp::NewA | SOp::NewB => live + 1,
                SOp::CloneNewest => {
                    if live == 0 {
                        continue;
                    }
                    live + 1
                }
                SOp::DropNewest => {
                    if live == 0 {
                        continue;
                    }
                    live - 1
                }
                SOp::DropOldest => {
                    // identical to DropNewest with a single live handle
                    if live < 2 {
                        continue;
                    }
                    live - 1
                }
            };
            cur.push(op);
            rec(cur, nl, max_len, out);
            cur.pop();
        }
    }
    rec(&mut Vec::new(), pre as usize, max_len, &mut out);
    out
}

#[derive(Serialize, Deserialize, Clone)]
pub struct Case18 {
    pub cfg: Config18,
    pub schedule: Vec<usize>,
}

/// What one execution showed, as comparable data.
#[derive(Debug, Clone, PartialEq, Eq, Serialize, Deserialize)]
pub struct Obs18 {
    pub failures: Vec<String>,
    pub steps: usize,
    pub final_table_len: usize,
    pub sharing_classes: Vec<(u8, usize)>,
}

/// Runs one configuration under one forced schedule prefix (default
/// continuation) and judges it. Returns the execution and the failures.
pub fn run_config_once(cfg: &Config18, prefix: &[usize]) -> (Execution<ThreadEnd>, Obs18) {
    let _ = reference_hashes();
    let mut make = maker(cfg.clone());
    let (bodies, mut at_cut) = make();
    let ex = sched::run_once(bodies, prefix, &mut *at_cut, sched::WATCHDOG);
    let obs = judge(&ex);
    (ex, obs)
}

fn maker(
    cfg: Config18,
) -> impl FnMut() -> (
    Vec<Box<dyn FnOnce() -> ThreadEnd + Send + 'static>>,
    Box<dyn FnMut() -> Option<String>>,
) {
    move || {
        let n = cfg.programs.len();
        // the table must be empty between executions so they do not alias (an execution the
        // controller aborted may also have left the lock poisoned)
        let start_len = rbx_types::verif::string_cache_len();
        crate::alloctrack::recycle(cfg.alloc);
        rbx_types::verif::STRING_CACHE.clear_poison();
        if start_len != 0 {
            rbx_types::verif::reset_string_cache();
        }
        let table: Table = Arc::new(Mutex::new(vec![Vec::new(); n]));
        let mut bodies: Vec<Box<dyn FnOnce() -> ThreadEnd + Send + 'static>> = Vec::new();
        // pre-existing handles: created single-threaded by the controller
        let mut pre_handles: Vec<Vec<(u8, SharedString)>> = Vec::new();
        for t in 0..n {
            let mut v = Vec::new();
            for _ in 0..cfg.pre[t] {
                v.push((0u8, SharedString::new(content(0))));
            }
            pre_handles.push(v);
        }
        {
            let mut tb = table.lock().unwrap();
            for t in 0..n {
                tb[t] = pre_handles[t].iter().map(|(c, h)| (*c, h.data().as_ptr() as usize)).collect();
            }
        }
        for (t, pre) in pre_handles.into_iter().enumerate() {
            let prog = cfg.programs[t].clone();
            let table = table.clone();
            bodies.push(Box::new(move || run_program(t, prog, pre, table)));
        }
        let table2 = table.clone();
        let mut first = true;
        let at_cut: Box<dyn FnMut() -> Option<String>> = Box::new(move || {
            if first {
                first = false;
                if start_len != 0 {
                    return Some(format!("intern table not empty at the start of the execution ({} entries)", start_len));
                }
            }
            // sharing: all live handles with equal contents share one buffer
            let t = table2.lock().unwrap();
            let mut by_content: BTreeMap<u8, BTreeSet<usize>> = BTreeMap::new();
            for th in t.iter() {
                for (c, p) in th {
                    by_content.entry(*c).or_default().insert(*p);
                }
            }
            for (c, ptrs) in by_content {
                if ptrs.len() > 1 {
                    return Some(format!(
                        "sharing broken: {} distinct buffers are live for content {}",
                        ptrs.len(),
                        c
                    ));
                }
            }
            None
        });
        (bodies, at_cut)
    }
}

fn judge(ex: &Execution<ThreadEnd>) -> Obs18 {
    let mut failures: Vec<String> = Vec::new();
    if ex.lock_deadlock {
        failures.push("deadlock: every unfinished thread waits for the intern-table lock".into());
    } else if ex.deadlock {
        failures.push("deadlock: a step did not reach its next yield point".into());
    }
    for (tid, p) in &ex.panics {
        failures.push(format!("panic in thread {}: {}", tid, p));
    }
    for f in &ex.cut_failures {
        // keep only the class of the failure (positions vary by schedule)
        let class = f.splitn(2, ": ").nth(1).unwrap_or(f).to_owned();
        if !failures.contains(&class) {
            failures.push(class);
        }
    }
    let mut all: Vec<(u8, SharedString)> = Vec::new();
    for r in &ex.results {
        if let Some(te) = r {
            for f in &te.failures {
                if !failures.contains(f) {
                    failures.push(f.clone());
                }
            }
        }
    }
    // final phase (single-threaded): cross-thread equality / sharing, then drop everything
    let mut classes: BTreeMap<u8, BTreeSet<usize>> = BTreeMap::new();
    for r in ex.results.iter().flatten() {
        for (c, h) in &r.handles {
            all.push((*c, h.clone()));
        }
    }
    for (c, h) in &all {
        if h.data() != content(*c).as_slice() {
            failures.push("a handle exposes bytes other than those it was created from".into());
        }
        classes.entry(*c).or_default().insert(h.data().as_ptr() as usize);
    }
    for i in 0..all.len() {
        for j in (i + 1)..all.len() {
            let same = all[i].0 == all[j].0;
            let eq = all[i].1 == all[j].1 && hash_of(&all[i].1) == hash_of(&all[j].1);
            if same && !eq {
                failures.push("equal contents compare or hash unequal".into());
            }
        }
    }
    for (c, ptrs) in &classes {
        if ptrs.len() > 1 {
            let f = format!("sharing broken: {} distinct buffers are live for content {}", ptrs.len(), c);
            if !failures.contains(&f) {
                failures.push(f);
            }
        }
    }
    let sharing_classes = classes.iter().map(|(c, p)| (*c, p.len())).collect();
    drop(all);
    // `ex.results` still own the thread handles; they are dropped by the caller
    Obs18 {
        failures,
        steps: ex.points.len(),
        final_table_len: usize::MAX,
        sharing_classes,
    }
}

fn failure_key(f: &str) -> String {
    let mut k = String::new();
    let mut last_digit = false;
    for c in f.chars().take(70) {
        if c.is_ascii_digit() {
            if !last_digit {
                k.push('#');
            }
            last_digit = true;
        } else {
            last_digit = false;
            k.push(c);
        }
    }
    k
}

#[derive(Serialize, Deserialize, Default)]
pub struct Out18 {
    pub configs: u64,
    pub executions: u64,
    pub by_preemptions: Vec<u64>,
    pub max_steps: usize,
    pub cap_hit: bool,
    pub distinct_observations: BTreeSet<String>,
    pub violations: BTreeMap<String, (u64, String, String)>,
    pub samples: Vec<String>,
}

/// Explores one configuration completely (or up to the preemption bound).
pub fn explore_config(cfg: &Config18, bound: Option<usize>, max_exec: u64, out: &mut Out18) {
    let _ = reference_hashes();
    let mut make = maker(cfg.clone());
    let mut local: Vec<(Vec<usize>, Obs18)> = Vec::new();
    let stats = {
        let mut check = |ex: &Execution<ThreadEnd>| {
            let mut obs = judge(ex);
            // drop thread-held handles now (results are borrowed, so clone-free drop
            // happens when `ex` is dropped by the explorer right after this call)
            obs.final_table_len = 0;
            local.push((ex.schedule(), obs));
        };
        let mut make_dyn = || {
            let (b, c) = make();
            (b, c)
        };
        sched::explore(&mut make_dyn, bound, max_exec, &mut check)
    };
    out.configs += 1;
    out.executions += stats.executions;
    for (i, c) in stats.by_preemptions.iter().enumerate() {
        if out.by_preemptions.len() <= i {
            out.by_preemptions.resize(i + 1, 0);
        }
        out.by_preemptions[i] += c;
    }
    out.max_steps = out.max_steps.max(stats.max_steps);
    out.cap_hit |= stats.cap_hit;
    // the table must be empty once every handle of the last execution is gone
    let leftover = rbx_types::verif::string_cache_len();
    for (schedule, obs) in local {
        out.distinct_observations
            .insert(format!("{:?}|{:?}", obs.sharing_classes, obs.failures.iter().map(|f| failure_key(f)).collect::<Vec<_>>()));
        for f in &obs.failures {
            let key = format!("sched|{}", failure_key(f));
            let e = out.violations.entry(key).or_insert_with(|| {
                (
                    0,
                    format!("{} [programs {:?}, pre {:?}, allocator policy {}, schedule {:?}]", f, cfg.programs, cfg.pre, cfg.alloc, schedule),
                    serde_json::to_string(&Case18 {
                        cfg: cfg.clone(),
                        schedule: schedule.clone(),
                    })
                    .unwrap(),
                )
            });
            e.0 += 1;
        }
        if out.samples.len() < 2 {
            out.samples.push(json!({"programs": cfg.programs, "pre": cfg.pre, "schedule": schedule}).to_string());
        }
    }
    if leftover != 0 {
        let key = "sched|intern table not empty after every handle was dropped".to_owned();
        let e = out.violations.entry(key).or_insert_with(|| {
            (
                0,
                format!("{} entries left in the intern table after all handles of programs {:?} were dropped", leftover, cfg.programs),
                serde_json::to_string(&Case18 {
                    cfg: cfg.clone(),
                    schedule: vec![],
                })
                .unwrap(),
            )
        });
        e.0 += 1;
    }
}

/// Leak check per execution: the intern table must be empty after each
/// execution's handles are gone. `sched::explore` drops an execution before
/// starting the next, and `maker` reports a non-empty table at the start of
/// the next execution as a cut failure, so every execution is covered.
pub fn all_configs(threads: usize, max_len: usize) -> Vec<Config18> {
    let mut out = Vec::new();
    let pres: Vec<Vec<u8>> = match threads {
        2 => vec![vec![0, 0], vec![1, 0], vec![1, 1]],
        _ => vec![vec![0; threads], {
            let mut v = vec![0; threads];
            v[0] = 1;
            v
        }, vec![1; threads]],
    };
    for pre in pres {
        let per_thread: Vec<Vec<Vec<SOp>>> = pre.iter().map(|p| valid_programs(max_len, *p)).collect();
        let mut idx = vec![0usize; threads];
        loop {
            let programs: Vec<Vec<SOp>> = (0..threads).map(|t| per_thread[t][idx[t]].clone()).collect();
            // symmetry: threads with equal `pre` are interchangeable -> keep sorted programs
            let mut ok = true;
            for t in 1..threads {
                if pre[t] == pre[t - 1] && programs[t] < programs[t - 1] {
                    ok = false;
                }
            }
            if ok {
                out.push(Config18 {
                    pre: pre.clone(),
                    programs,
                    alloc: 0,
                });
            }
            let mut k = 0;
            loop {
                idx[k] += 1;
                if idx[k] < per_thread[k].len() {
                    break;
                }
                idx[k] = 0;
                k += 1;
                if k == threads {
                    break;
                }
            }
            if k == threads {
                break;
            }
        }
    }
    out
}

/// Two threads with programs of different lengths: thread 0 runs at most `short_len` operations,
/// thread 1 between `min_long` and `long_len`. With a small preemption bound this reaches the
/// states where one thread is parked inside a single operation while the other goes through
/// several whole create/drop cycles (buffers and table slots being recycled meanwhile).
pub fn asym_configs(short_len: usize, min_long: usize, long_len: usize) -> Vec<Config18> {
    let mut out = Vec::new();
    for pre in [vec![1u8, 0], vec![0, 0], vec![1, 1]] {
        for a in valid_programs(short_len, pre[0]) {
            for b in valid_programs(long_len, pre[1]) {
                if b.len() < min_long {
                    continue;
                }
                for alloc in [1u8, 2] {
                    out.push(Config18 { pre: pre.clone(), programs: vec![a.clone(), b.clone()], alloc });
                }
            }
        }
    }
    out
}

pub fn merge_out(run: &Run, total: &mut Out18, o: Out18) {
    total.configs += o.configs;
    total.executions += o.executions;
    for (i, c) in o.by_preemptions.iter().enumerate() {
        if total.by_preemptions.len() <= i {
            total.by_preemptions.resize(i + 1, 0);
        }
        total.by_preemptions[i] += c;
    }
    total.max_steps = total.max_steps.max(o.max_steps);
    total.cap_hit |= o.cap_hit;
    total.distinct_observations.extend(o.distinct_observations);
    for (key, (count, what, case)) in o.violations {
        run.violation_n(&key, &what, count, || serde_json::from_str(&case).unwrap());
    }
    for s in o.samples {
        if total.samples.len() < 4 {
            total.samples.push(s);
        }
    }
}

pub fn replay(case_v: &Value) -> Vec<String> {
    let case: Case18 = match serde_json::from_value(case_v.clone()) {
        Ok(c) => c,
        Err(e) => crate::evidence::machinery_failure(&format!("bad C18 replay case: {}", e)),
    };
    let (e1, o1) = run_config_once(&case.cfg, &case.schedule);
    if std::env::var_os("VERIF_C18_TRACE").is_some() {
        for p in &e1.points {
            eprintln!("point {:?}", p);
        }
        crate::alloctrack::dump_log();
    }
    drop(e1);
    let (e2, o2) = run_config_once(&case.cfg, &case.schedule);
    drop(e2);
    if o1.failures != o2.failures || o1.steps != o2.steps {
        crate::evidence::machinery_failure("replay observed different outcomes on two runs of the same schedule");
    }
    let mut f = o1.failures;
    let left = rbx_types::verif::string_cache_len();
    if left != 0 {
        f.push(format!("{} entries left in the intern table after every handle was dropped", left));
    }
    f
}

// ---------------------------------------------------------------------------
// C12 (c): concurrent UniqueId::now()

#[derive(Serialize, Deserialize, Clone, Debug)]
pub struct CaseNow {
    pub calls: Vec<usize>,
    pub start_index: u32,
    pub schedule: Vec<usize>,
}

#[derive(Serialize, Deserialize, Default)]
pub struct OutNow {
    pub configs: u64,
    pub executions: u64,
    pub by_preemptions: Vec<u64>,
    pub max_steps: usize,
    pub cap_hit: bool,
    pub distinct_observations: BTreeSet<String>,
    pub violations: BTreeMap<String, (u64, String, String)>,
    pub samples: Vec<String>,
}

fn now_bodies(calls: &[usize]) -> Vec<Box<dyn FnOnce() -> Vec<Result<UniqueId, String>> + Send + 'static>> {
    calls
        .iter()
        .map(|&k| {
            let b: Box<dyn FnOnce() -> Vec<Result<UniqueId, String>> + Send + 'static> = Box::new(move || {
                let mut v = Vec::new();
                for _ in 0..k {
                    sched::yield_here("op");
                    v.push(UniqueId::now().map_err(|e| e.to_string()));
                }
                v
            });
            b
        })
        .collect()
}

fn judge_now(ex: &Execution<Vec<Result<UniqueId, String>>>) -> (Vec<String>, String) {
    let mut failures = Vec::new();
    if ex.deadlock {
        failures.push("deadlock in UniqueId::now".to_owned());
    }
    for (tid, p) in &ex.panics {
        failures.push(format!("panic in thread {}: {}", tid, p));
    }
    let mut ids: Vec<UniqueId> = Vec::new();
    for r in ex.results.iter().flatten() {
        for x in r {
            match x {
                Ok(id) => ids.push(*id),
                Err(e) => failures.push(format!("UniqueId::now failed: {}", e)),
            }
        }
    }
    let mut dup = false;
    for i in 0..ids.len() {
        for j in (i + 1)..ids.len() {
            if ids[i] == ids[j] {
                dup = true;
            }
        }
    }
    if dup {
        failures.push("two UniqueId::now() calls returned the same id (same clock second, same random word)".to_owned());
    }
    let mut idx: Vec<u32> = ids.iter().map(|i| i.index()).collect();
    idx.sort();
    (failures, format!("{:?}", idx))
}

pub fn explore_now(calls: &[usize], start_index: u32, bound: Option<usize>, max_exec: u64, out: &mut OutNow) {
    // adversarial but legal environment: the clock stays within one second and
    // the RNG returns the same word every time
    rbx_types::verif::pin_clock(Some(1_700_000_000));
    rbx_types::verif::pin_random(Some(0x1234_5678_9abc));
    let calls_v = calls.to_vec();
    let mut make = move || {
        rbx_types::verif::INDEX.set_quiet(start_index);
        let bodies = now_bodies(&calls_v);
        let cut: Box<dyn FnMut() -> Option<String>> = Box::new(|| None);
        (bodies, cut)
    };
    let mut local: Vec<(Vec<usize>, Vec<String>, String)> = Vec::new();
    let stats = {
        let mut check = |ex: &Execution<Vec<Result<UniqueId, String>>>| {
            let (f, o) = judge_now(ex);
            local.push((ex.schedule(), f, o));
        };
        sched::explore(&mut make, bound, max_exec, &mut check)
    };
    rbx_types::verif::pin_clock(None);
    rbx_types::verif::pin_random(None);
    out.configs += 1;
    out.executions += stats.executions;
    for (i, c) in stats.by_preemptions.iter().enumerate() {
        if out.by_preemptions.len() <= i {
            out.by_preemptions.resize(i + 1, 0);
        }
        out.by_preemptions[i] += c;
    }
    out.max_steps = out.max_steps.max(stats.max_steps);
    out.cap_hit |= stats.cap_hit;
    for (schedule, failures, obs) in local {
        out.distinct_observations.insert(obs);
        for f in failures {
            let key = format!("now|{}", failure_key(&f));
            let e = out.violations.entry(key).or_insert_with(|| {
                (
                    0,
                    format!("{} [calls per thread {:?}, start index {}, schedule {:?}]", f, calls, start_index, schedule),
                    serde_json::to_string(&CaseNow {
                        calls: calls.to_vec(),
                        start_index,
                        schedule: schedule.clone(),
                    })
                    .unwrap(),
                )
            });
            e.0 += 1;
        }
        if out.samples.len() < 2 {
            out.samples.push(json!({"calls": calls, "start_index": start_index, "schedule": schedule}).to_string());
        }
    }
}

pub fn replay_now(case_v: &Value) -> Vec<String> {
    let case: CaseNow = match serde_json::from_value(case_v.clone()) {
        Ok(c) => c,
        Err(e) => crate::evidence::machinery_failure(&format!("bad UniqueId::now replay case: {}", e)),
    };
    let mut runs = Vec::new();
    for _ in 0..2 {
        rbx_types::verif::pin_clock(Some(1_700_000_000));
        rbx_types::verif::pin_random(Some(0x1234_5678_9abc));
        rbx_types::verif::INDEX.set_quiet(case.start_index);
        let bodies = now_bodies(&case.calls);
        let mut cut = || None;
        let ex = sched::run_once(bodies, &case.schedule, &mut cut, sched::WATCHDOG);
        runs.push(judge_now(&ex));
    }
    rbx_types::verif::pin_clock(None);
    rbx_types::verif::pin_random(None);
    if runs[0] != runs[1] {
        crate::evidence::machinery_failure("replay observed different outcomes on two runs of the same schedule");
    }
    runs.remove(0).0
}


// ---------------------------------------------------------------------------
// Handles that outlive the code that created them: dropped by thread-local destructors while
// a thread shuts down, or at process exit from a static. Run in a subprocess (a panic in a
// thread-local destructor aborts the process).

thread_local! {
    static APP_SLOT: std::cell::RefCell<Vec<SharedString>> = const { std::cell::RefCell::new(Vec::new()) };
}

/// scenario: 0 = the application's thread-local is touched before the thread's first `new`;
/// 1 = after it; 2 = the handle was created on another thread and moved in; 3 = the same on
/// the main thread (destructors run at process exit). Prints "ok" when it gets to the end.
pub fn shutdown_probe(scenario: usize) -> String {
    let body = move |moved: Option<SharedString>| {
        if scenario == 0 || scenario == 2 || scenario == 3 {
            APP_SLOT.with(|s| s.borrow_mut().clear());
        }
        let a = SharedString::new(b"shutdown-probe-content".to_vec());
        let b = SharedString::new(b"shutdown-probe-second".to_vec());
        let c = a.clone();
        APP_SLOT.with(|s| {
            let mut s = s.borrow_mut();
            s.push(a);
            s.push(b);
            if let Some(m) = moved {
                s.push(m);
            }
        });
        drop(c);
        // one more interning on this thread after the slot holds the last handles
        let _again = SharedString::new(b"shutdown-probe-content".to_vec());
    };
    if scenario == 3 {
        body(None);
        return "ok".into();
    }
    for _ in 0..3 {
        let moved = if scenario == 2 { Some(SharedString::new(b"shutdown-probe-moved".to_vec())) } else { None };
        let h = std::thread::spawn(move || body(moved));
        if h.join().is_err() {
            return "a worker thread panicked".into();
        }
    }
    // everything the threads held is gone
    let left = rbx_types::verif::string_cache_len();
    if left != 0 {
        return format!("{} entries left in the intern table after the threads ended", left);
    }
    "ok".into()
}

pub fn shutdown_probes() -> Vec<(String, String, Value)> {
    let exe = std::env::current_exe().unwrap_or_else(|e| crate::evidence::machinery_failure(&format!("current_exe: {}", e)));
    let mut out = Vec::new();
    for scenario in 0..4usize {
        let res = std::process::Command::new(&exe).arg("TLSPROBE").arg(scenario.to_string()).arg("x").output();
        match res {
            Err(e) => crate::evidence::machinery_failure(&format!("cannot start probe: {}", e)),
            Ok(o) => {
                let text = String::from_utf8_lossy(&o.stdout);
                let last = text.lines().last().unwrap_or("").to_owned();
                let what = ["application thread-local touched before the first new()", "application thread-local touched after the first new()", "a handle moved in from another thread", "handles owned by the main thread's thread-local at process exit"][scenario];
                if !o.status.success() {
                    let err = String::from_utf8_lossy(&o.stderr);
                    out.push((
                        "shutdown|abnormal-exit".to_owned(),
                        format!("handles dropped by a thread-local destructor ({}): the process ends abnormally ({:?}): {}", what, o.status, err.lines().find(|l| l.contains("panicked") || l.contains("abort") || l.contains("cannot access")).unwrap_or("").chars().take(200).collect::<String>()),
                        json!({"shutdown_probe": scenario}),
                    ));
                } else if last != "ok" {
                    out.push(("shutdown|wrong-state".to_owned(), format!("handles dropped by a thread-local destructor ({}): {}", what, last), json!({"shutdown_probe": scenario})));
                }
            }
        }
    }
    out.sort_by(|a, b| a.0.cmp(&b.0));
    out.dedup_by(|a, b| a.0 == b.0);
    out
}
