//! C15: legacy (migrating) properties end up as the same new property with the
//! same value on all four paths; an explicit new value wins in both encounter
//! orders; every database-legal legacy value migrates.

use std::collections::BTreeMap;

use rbx_dom_weak::{InstanceBuilder, WeakDom};
use rbx_reflection::ReflectionDatabase;
use rbx_types::{BrickColor, Color3uint8, Content, ContentId, Enum, Font, FontStyle, FontWeight, Variant};
use serde::{Deserialize, Serialize};
use serde_json::{json, Value};

use crate::evidence::Run;
use crate::specdb::{self, db, Lookup, Ser, Ty};
use crate::sweeps::{run_cases, SweepOut};
use crate::vals::{render, FloatMode};

fn r(v: &Variant) -> String {
    render(v, FloatMode::Exact, &|x| x.to_string())
}

#[derive(Clone, Debug, Serialize, Deserialize)]
pub struct Case15 {
    pub class: String,
    pub legacy: String,
    /// index into `legacy_values(class, legacy)`
    pub value: usize,
    pub explicit_new: bool,
    /// spelling under which the explicit new value is carried (None = the canonical new name;
    /// Some(alias) e.g. Color3uint8 for Color, which is how a Roblox-written file spells it)
    #[serde(default)]
    pub new_spelling: Option<String>,
    /// a second instance of the same class, after the subject, that carries the legacy value
    /// under this spelling (any spelling that migrates to the same new property): what a
    /// sibling carries must not change how the subject migrates
    #[serde(default)]
    pub sibling: Option<String>,
    /// where that second instance stands: 0 = next sibling of the subject, 1 = parent of the
    /// subject, 2 = first child of the subject
    #[serde(default)]
    pub sibling_place: u8,
    /// an instance of *another* class (unknown to the database; its name sorts before (1) or
    /// after (2) every database class) that carries a property named like the migration's
    /// target: what one class's chunk supplies says nothing about another class's instances
    #[serde(default)]
    pub neighbour: u8,
}

/// every spelling that, for `class`, migrates to `new_name`
fn legacy_spellings(class: &str, new_name: &str) -> Vec<String> {
    let mut out = Vec::new();
    if let Some(chain) = specdb::class_chain(class) {
        for c in chain {
            for (p, _) in c.properties.iter() {
                if let Lookup::Known(k) = specdb::lookup(class, p) {
                    if let Ser::Migrate { to, .. } = &k.ser {
                        if to == new_name {
                            out.push(p.to_string());
                        }
                    }
                }
            }
        }
    }
    out.sort();
    out.dedup();
    out
}

/// alias spellings of `new_name` reachable for `class`
fn alias_spellings(class: &str, new_name: &str) -> Vec<String> {
    let mut out = Vec::new();
    if let Some(chain) = specdb::class_chain(class) {
        for c in chain {
            for (p, _) in c.properties.iter() {
                if p.as_ref() != new_name {
                    if let Lookup::Known(k) = specdb::lookup(class, p) {
                        if k.via_alias && k.canonical == new_name && !matches!(k.ser, Ser::Migrate { .. }) {
                            out.push(p.to_string());
                        }
                    }
                }
            }
        }
    }
    out.sort();
    out.dedup();
    out
}

fn empty_db() -> &'static ReflectionDatabase<'static> {
    static DB: std::sync::OnceLock<ReflectionDatabase<'static>> = std::sync::OnceLock::new();
    DB.get_or_init(ReflectionDatabase::new)
}

pub fn migrating_pairs() -> Vec<(String, String, String)> {
    // (class, legacy property name as reachable for that class, new property)
    let d = db();
    let mut classes: Vec<String> = d.classes.keys().map(|k| k.to_string()).collect();
    classes.sort();
    let mut declared: Vec<String> = Vec::new();
    for c in &classes {
        for (p, desc) in d.classes[c.as_str()].properties.iter() {
            if let rbx_reflection::PropertyKind::Canonical {
                serialization: rbx_reflection::PropertySerialization::Migrate(_),
            } = &desc.kind
            {
                declared.push(p.to_string());
            }
        }
    }
    declared.sort();
    declared.dedup();
    let mut out = Vec::new();
    for c in &classes {
        for p in &declared {
            if let Lookup::Known(k) = specdb::lookup(c, p) {
                if let Ser::Migrate { to, .. } = k.ser {
                    out.push((c.clone(), p.clone(), to));
                }
            }
        }
    }
    out
}

pub fn legacy_values(class: &str, legacy: &str) -> Vec<(String, Variant)> {
    let k = match specdb::lookup(class, legacy) {
        Lookup::Known(k) => k,
        _ => return vec![],
    };
    match &k.canonical_ty {
        Ty::Enum(name) => {
            let e = &db().enums[name.as_str()];
            let mut items: Vec<(String, u32)> = e.items.iter().map(|(n, v)| (n.to_string(), *v)).collect();
            items.sort_by_key(|x| x.1);
            items.into_iter().map(|(n, v)| (format!("{}={}", n, v), Variant::Enum(Enum::from_u32(v)))).collect()
        }
        Ty::Value(rbx_types::VariantType::BrickColor) => crate::vals::brick_colors()
            .into_iter()
            .map(|b| (format!("{}", b as u16), Variant::BrickColor(b)))
            .collect(),
        Ty::Value(rbx_types::VariantType::Bool) => vec![("false".into(), Variant::Bool(false)), ("true".into(), Variant::Bool(true))],
        Ty::Value(rbx_types::VariantType::ContentId) => ["", "rbxassetid://1", "http://x/?a=1&b=<2>", " "]
            .iter()
            .map(|s| (format!("{:?}", s), Variant::ContentId(ContentId::from(*s))))
            .collect(),
        _ => vec![],
    }
}

fn explicit_value(new_ty_of: &Variant) -> Variant {
    match new_ty_of {
        Variant::Font(_) => Variant::Font(Font::new("rbxasset://fonts/families/Explicit.json", FontWeight::Thin, FontStyle::Italic)),
        Variant::Color3uint8(_) => Variant::Color3uint8(Color3uint8::new(7, 8, 9)),
        Variant::Enum(_) => Variant::Enum(Enum::from_u32(0)),
        Variant::Content(_) => Variant::Content(Content::from_uri("rbxassetid://explicit")),
        other => other.clone(),
    }
}

/// Swaps the two PROP chunks named `a` and `b` in an uncompressed binary file.
fn swap_prop_chunks(bytes: &[u8], a: &str, b: &str) -> Option<Vec<u8>> {
    let mut chunks: Vec<(usize, usize)> = Vec::new();
    let mut p = 32;
    while p + 16 <= bytes.len() {
        let clen = u32::from_le_bytes(bytes[p + 4..p + 8].try_into().ok()?) as usize;
        let len = u32::from_le_bytes(bytes[p + 8..p + 12].try_into().ok()?) as usize;
        if clen != 0 {
            return None;
        }
        let end = p + 16 + len;
        if end > bytes.len() {
            return None;
        }
        chunks.push((p, end));
        p = end;
    }
    let name_of = |(s, e): (usize, usize)| -> Option<String> {
        if &bytes[s..s + 4] != b"PROP" {
            return None;
        }
        let d = &bytes[s + 16..e];
        let n = u32::from_le_bytes(d[4..8].try_into().ok()?) as usize;
        String::from_utf8(d[8..8 + n].to_vec()).ok()
    };
    let ia = chunks.iter().position(|c| name_of(*c).as_deref() == Some(a))?;
    let ib = chunks.iter().position(|c| name_of(*c).as_deref() == Some(b))?;
    let mut order: Vec<usize> = (0..chunks.len()).collect();
    order.swap(ia, ib);
    let mut out = bytes[..32].to_vec();
    for i in order {
        out.extend_from_slice(&bytes[chunks[i].0..chunks[i].1]);
    }
    Some(out)
}

/// Swaps the two property elements named `a` and `b` in rbx_xml's output.
fn swap_xml_props(text: &str, a: &str, b: &str) -> Option<String> {
    let find = |name: &str| -> Option<(usize, usize)> {
        let marker = format!(" name=\"{}\">", name);
        let at = text.find(&marker)?;
        let start = text[..at].rfind('<')?;
        let tag: String = text[start + 1..at].to_owned();
        let close = format!("</{}>", tag);
        // the matching close tag: first occurrence after the marker at the same element kind
        let end_rel = text[at..].find(&close)?;
        Some((start, at + end_rel + close.len()))
    };
    let (sa, ea) = find(a)?;
    let (sb, eb) = find(b)?;
    let ((s1, e1), (s2, e2)) = if sa < sb { ((sa, ea), (sb, eb)) } else { ((sb, eb), (sa, ea)) };
    if e1 > s2 {
        return None;
    }
    let mut out = String::new();
    out.push_str(&text[..s1]);
    out.push_str(&text[s2..e2]);
    out.push_str(&text[e1..s2]);
    out.push_str(&text[s1..e1]);
    out.push_str(&text[e2..]);
    Some(out)
}

/// Closes the `<Properties>` element after the earlier of the two property elements named `a` and
/// `b` and opens a second one: the reader keeps one property map per Item, not per element.
fn split_xml_props(text: &str, a: &str, b: &str) -> Option<String> {
    let end_of = |name: &str| -> Option<usize> {
        let marker = format!(" name=\"{}\">", name);
        let at = text.find(&marker)?;
        let start = text[..at].rfind('<')?;
        let close = format!("</{}>", &text[start + 1..at]);
        Some(at + text[at..].find(&close)? + close.len())
    };
    let cut = end_of(a)?.min(end_of(b)?);
    Some(format!("{}</Properties><Properties>{}", &text[..cut], &text[cut..]))
}

fn subject<'a>(dom: &'a WeakDom) -> Option<&'a rbx_dom_weak::Instance> {
    dom.descendants().find(|i| i.name == "subject")
}

type PathResult = Result<BTreeMap<String, String>, String>;

fn props_of(dom: &WeakDom) -> PathResult {
    let inst = subject(dom).ok_or("instance lost")?;
    Ok(inst.properties.iter().map(|(k, v)| (k.to_string(), r(v))).collect())
}

pub fn judge(c: &Case15) -> Vec<(String, String)> {
    let mut out = Vec::new();
    let values = legacy_values(&c.class, &c.legacy);
    let (vlabel, legacy_value) = match values.get(c.value) {
        Some(v) => v.clone(),
        None => return out,
    };
    let (new_name, migration) = match specdb::lookup(&c.class, &c.legacy) {
        Lookup::Known(k) => match k.ser {
            Ser::Migrate { to, migration } => (to, migration),
            _ => return out,
        },
        _ => return out,
    };
    let tag = match &c.new_spelling {
        None => format!("{}->{}", c.legacy, new_name),
        Some(sp) => format!("{}->{}(as {})", c.legacy, new_name, sp),
    };
    let spelled = c.new_spelling.clone().unwrap_or_else(|| new_name.clone());
    // reference: PropertyMigration::perform called directly
    let mut unmigratable = false;
    let direct = match migration.perform(&legacy_value) {
        Ok(v) => v,
        Err(e) => {
            out.push((
                format!("migrate|unmigratable|{}|{}", tag, vlabel),
                format!("{}.{} = {} is a value the database allows but the migration rejects it: {}", c.class, c.legacy, vlabel, e),
            ));
            // with an explicit new value next to it the legacy value does not matter: both writers
            // must still produce a readable file that carries the explicit value (the read paths,
            // where the listed finding makes a lone legacy value a hard error, are left out)
            match (c.explicit_new, values.iter().find_map(|v| migration.perform(&v.1).ok())) {
                (true, Some(sample)) => {
                    unmigratable = true;
                    sample
                }
                _ => return out,
            }
        }
    };
    let explicit = explicit_value(&direct);
    let want = if c.explicit_new { r(&explicit) } else { r(&direct) };

    let build_with = |legacy_first: bool, with_sibling: bool| -> WeakDom {
        let mut b = InstanceBuilder::new(c.class.as_str()).with_name("subject");
        if c.explicit_new && !legacy_first {
            b = b.with_property(spelled.as_str(), explicit.clone());
        }
        b = b.with_property(c.legacy.as_str(), legacy_value.clone());
        if c.explicit_new && legacy_first {
            b = b.with_property(spelled.as_str(), explicit.clone());
        }
        let root = if let (Some(sp), true) = (&c.sibling, with_sibling) {
            let other = values.get((c.value + 1) % values.len()).map(|v| v.1.clone()).unwrap_or_else(|| legacy_value.clone());
            let second = InstanceBuilder::new(c.class.as_str()).with_name("sibling").with_property(sp.as_str(), other);
            match c.sibling_place {
                1 => InstanceBuilder::new("DataModel").with_child(second.with_child(b)),
                2 => InstanceBuilder::new("DataModel").with_child(b.with_child(second)),
                _ => InstanceBuilder::new("DataModel").with_child(b).with_child(second),
            }
        } else {
            InstanceBuilder::new("DataModel").with_child(b)
        };
        let root = match c.neighbour {
            0 => root,
            k => root.with_child(InstanceBuilder::new(if k == 1 { "AaaNeighbourClass" } else { "ZzzNeighbourClass" }).with_name("neighbour").with_property(new_name.as_str(), explicit.clone())),
        };
        WeakDom::new(root)
    };
    let build = |legacy_first: bool| build_with(legacy_first, true);
    // the legacy-named files of the read paths are written without a database, which stores a
    // neutral value for whoever lacks a column: a sibling under *another* legacy spelling would
    // make the file itself state two different legacy values for the subject
    // (and the text surgery that reorders elements of those files finds the first element of a
    // name: only the plain sibling placement, where the subject comes first in the document)
    let sibling_in_files = c.sibling.as_deref() == Some(c.legacy.as_str()) && c.sibling_place == 0;

    let mut paths: Vec<(String, PathResult)> = Vec::new();
    // with a sibling the write paths are repeated on freshly built DOMs: which of two entries a
    // small property map lists first depends on its per-map hash seed
    let rounds: &[bool] = if c.sibling.is_some() { &[true, false, true, false, true, false, true, false, true, false, true, false] } else { &[true, false] };
    for &legacy_first in rounds {
        if !c.explicit_new && !legacy_first {
            continue;
        }
        let dom = build(legacy_first);
        let roots = dom.root().children().to_vec();
        let ord = if legacy_first { "legacy-first" } else { "new-first" };
        // path 1: migration while writing binary
        let res = crate::evidence::guarded(|| -> PathResult {
            let mut buf = Vec::new();
            rbx_binary::to_writer(&mut buf, &dom, &roots).map_err(|e| format!("encode: {}", e))?;
            // the file itself must not contain the legacy name any more: decode it without a database
            let raw = rbx_binary::Deserializer::new().reflection_database(empty_db()).deserialize(buf.as_slice()).map_err(|e| format!("raw decode: {}", e))?;
            let rawp = props_of(&raw)?;
            if rawp.contains_key(&c.legacy) {
                return Err(format!("legacy name {} written to the file", c.legacy));
            }
            let d2 = rbx_binary::from_reader(buf.as_slice()).map_err(|e| format!("decode: {}", e))?;
            props_of(&d2)
        });
        paths.push((format!("write-binary/{}", ord), res.unwrap_or_else(|(s, m)| Err(format!("panic at {}: {}", s, m)))));
        // path 2: migration while writing XML
        let res = crate::evidence::guarded(|| -> PathResult {
            let mut buf = Vec::new();
            rbx_xml::to_writer_default(&mut buf, &dom, &roots).map_err(|e| format!("encode: {}", e))?;
            let text = String::from_utf8_lossy(&buf).to_string();
            if text.contains(&format!(" name=\"{}\">", c.legacy)) {
                return Err(format!("legacy name {} written to the file", c.legacy));
            }
            let d2 = rbx_xml::from_reader_default(buf.as_slice()).map_err(|e| format!("decode: {}", e))?;
            props_of(&d2)
        });
        paths.push((format!("write-xml/{}", ord), res.unwrap_or_else(|(s, m)| Err(format!("panic at {}: {}", s, m)))));
    }
    // read paths: a foreign file that still carries the legacy name, both encounter orders
    if !unmigratable {
        let dom = build_with(true, sibling_in_files);
        let roots = dom.root().children().to_vec();
        let res = crate::evidence::guarded(|| -> Vec<(String, PathResult)> {
            let mut v = Vec::new();
            let mut buf = Vec::new();
            let enc = rbx_binary::Serializer::new()
                .reflection_database(empty_db())
                .compression_type(rbx_binary::CompressionType::None)
                .serialize(&mut buf, &dom, &roots);
            match enc {
                Err(e) => v.push(("read-binary".to_owned(), Err(format!("cannot build legacy file: {}", e)))),
                Ok(()) => {
                    let mut files = vec![("file-order".to_owned(), buf.clone())];
                    if c.explicit_new {
                        if let Some(sw) = swap_prop_chunks(&buf, &c.legacy, &spelled) {
                            files.push(("swapped-order".to_owned(), sw));
                        } else {
                            v.push(("read-binary/swapped-order".to_owned(), Err("harness: could not swap PROP chunks".into())));
                        }
                    }
                    for (ord, f) in files {
                        let r = rbx_binary::from_reader(f.as_slice()).map_err(|e| format!("decode: {}", e)).and_then(|d| props_of(&d));
                        v.push((format!("read-binary/{}", ord), r));
                    }
                }
            }
            let mut buf = Vec::new();
            let enc = rbx_xml::to_writer(
                &mut buf,
                &dom,
                &roots,
                rbx_xml::EncodeOptions::new().property_behavior(rbx_xml::EncodePropertyBehavior::NoReflection),
            );
            match enc {
                Err(e) => v.push(("read-xml".to_owned(), Err(format!("cannot build legacy file: {}", e)))),
                Ok(()) => {
                    let text = String::from_utf8_lossy(&buf).to_string();
                    let mut files = vec![("file-order".to_owned(), text.clone())];
                    if c.explicit_new {
                        if let Some(sw) = swap_xml_props(&text, &c.legacy, &spelled) {
                            match (split_xml_props(&text, &c.legacy, &spelled), split_xml_props(&sw, &c.legacy, &spelled)) {
                                (Some(s1), Some(s2)) => {
                                    files.push(("file-order-two-properties-elements".to_owned(), s1));
                                    files.push(("swapped-order-two-properties-elements".to_owned(), s2));
                                }
                                _ => v.push(("read-xml/two-properties-elements".to_owned(), Err("harness: could not split the Properties element".into()))),
                            }
                            files.push(("swapped-order".to_owned(), sw));
                        } else {
                            v.push(("read-xml/swapped-order".to_owned(), Err("harness: could not swap XML properties".into())));
                        }
                    }
                    // a legacy ContentId may also arrive in the newer element form (docs/xml.md, Content:
                    // child `uri`), e.g. from a writer that has already switched element types
                    let open = format!("<ContentId name=\"{}\">", c.legacy);
                    if let Some(a) = text.find(&open) {
                        if let Some(len) = text[a..].find("</ContentId>") {
                            let inner = &text[a + open.len()..a + len];
                            let uri = match (inner.find("<url>"), inner.find("</url>")) {
                                (Some(x), Some(y)) if y >= x + 5 => inner[x + 5..y].to_owned(),
                                _ => String::new(),
                            };
                            let repl = format!("<Content name=\"{}\"><uri>{}</uri></Content>", c.legacy, uri);
                            let f = format!("{}{}{}", &text[..a], repl, &text[a + len + "</ContentId>".len()..]);
                            files.push(("content-element".to_owned(), f));
                        }
                    }
                    for (ord, f) in files {
                        let r = rbx_xml::from_str_default(&f).map_err(|e| format!("decode: {}", e)).and_then(|d| props_of(&d));
                        v.push((format!("read-xml/{}", ord), r));
                    }
                }
            }
            v
        });
        match res {
            Ok(v) => paths.extend(v),
            Err((s, m)) => paths.push(("read".to_owned(), Err(format!("panic at {}: {}", s, m)))),
        }
    }
    for (path, res) in paths {
        let pclass = path.split('/').next().unwrap_or("").to_owned();
        match res {
            Err(e) => {
                if e.starts_with("harness:") {
                    crate::evidence::machinery_failure(&format!("{} [{:?}]", e, c));
                }
                out.push((
                    format!("migrate|{}|error|{}|{}", pclass, tag, if c.explicit_new { "explicit" } else { "legacy-only" }),
                    format!("{} of {}.{}={} failed: {}", path, c.class, c.legacy, vlabel, e.chars().take(200).collect::<String>()),
                ));
            }
            Ok(props) => {
                if props.contains_key(&c.legacy) {
                    out.push((format!("migrate|{}|legacy-name-survives|{}", pclass, tag), format!("{}: decoded DOM still has {}.{}", path, c.class, c.legacy)));
                }
                match props.get(&new_name) {
                    None => out.push((
                        format!("migrate|{}|new-missing|{}", pclass, tag),
                        format!("{}: {}.{}={} did not produce {} (has {:?})", path, c.class, c.legacy, vlabel, new_name, props.keys().collect::<Vec<_>>()),
                    )),
                    Some(got) if got != &want => out.push((
                        format!("migrate|{}|{}|{}", path, if c.explicit_new { "explicit-loses" } else { "value-differs" }, tag),
                        format!("{}: {}.{}={} gives {}={} but {} expected {}", path, c.class, c.legacy, vlabel, new_name, got, if c.explicit_new { "the explicit value wins:" } else { "PropertyMigration::perform and the other paths give:" }, want),
                    )),
                    _ => {}
                }
            }
        }
    }
    out
}

/// Two different migrations on one instance (MeshPart: BrickColor + MeshId + TextureID, WrapLayer:
/// CageMeshId + ReferenceMeshId, ...): each must behave as it does alone, whatever the other does.
#[derive(Clone, Debug, Serialize, Deserialize)]
pub struct CasePair {
    pub class: String,
    pub legacy_a: String,
    pub legacy_b: String,
    pub explicit_a: bool,
    pub explicit_b: bool,
}

pub fn pair_cases() -> Vec<CasePair> {
    let mut by_class: BTreeMap<String, Vec<(String, String)>> = BTreeMap::new();
    for (class, legacy, to) in migrating_pairs() {
        by_class.entry(class).or_default().push((legacy, to));
    }
    let mut out = Vec::new();
    for (class, v) in by_class {
        for (i, (la, ta)) in v.iter().enumerate() {
            for (lb, tb) in v.iter().skip(i + 1) {
                if ta == tb {
                    continue;
                }
                for explicit_a in [false, true] {
                    for explicit_b in [false, true] {
                        out.push(CasePair { class: class.clone(), legacy_a: la.clone(), legacy_b: lb.clone(), explicit_a, explicit_b });
                    }
                }
            }
        }
    }
    out
}

pub fn judge_pair(c: &CasePair) -> Vec<(String, String)> {
    let mut out = Vec::new();
    let mut wants: Vec<(String, String, String)> = Vec::new(); // (legacy, new name, expected rendered)
    let mut b = InstanceBuilder::new(c.class.as_str()).with_name("subject");
    for (legacy, explicit) in [(&c.legacy_a, c.explicit_a), (&c.legacy_b, c.explicit_b)] {
        let (new_name, migration) = match specdb::lookup(&c.class, legacy) {
            Lookup::Known(k) => match k.ser {
                Ser::Migrate { to, migration } => (to, migration),
                _ => return out,
            },
            _ => return out,
        };
        // a migratable value in the middle of the legal range
        let vals = legacy_values(&c.class, legacy);
        let lv = match vals.iter().map(|x| x.1.clone()).find(|v| migration.perform(v).is_ok()) {
            Some(v) => v,
            None => return out,
        };
        let direct = migration.perform(&lv).unwrap();
        b = b.with_property(legacy.as_str(), lv);
        if explicit {
            let e = explicit_value(&direct);
            b = b.with_property(new_name.as_str(), e.clone());
            wants.push((legacy.clone(), new_name, r(&e)));
        } else {
            wants.push((legacy.clone(), new_name, r(&direct)));
        }
    }
    let dom = WeakDom::new(InstanceBuilder::new("DataModel").with_child(b));
    let roots = dom.root().children().to_vec();
    let mut paths: Vec<(&str, PathResult)> = Vec::new();
    paths.push(("write-binary", crate::evidence::guarded(|| -> PathResult {
        let mut buf = Vec::new();
        rbx_binary::to_writer(&mut buf, &dom, &roots).map_err(|e| format!("encode: {}", e))?;
        let d2 = rbx_binary::from_reader(buf.as_slice()).map_err(|e| format!("decode: {}", e))?;
        props_of(&d2)
    }).unwrap_or_else(|(s, m)| Err(format!("panic at {}: {}", s, m)))));
    paths.push(("write-xml", crate::evidence::guarded(|| -> PathResult {
        let mut buf = Vec::new();
        rbx_xml::to_writer_default(&mut buf, &dom, &roots).map_err(|e| format!("encode: {}", e))?;
        let d2 = rbx_xml::from_reader_default(buf.as_slice()).map_err(|e| format!("decode: {}", e))?;
        props_of(&d2)
    }).unwrap_or_else(|(s, m)| Err(format!("panic at {}: {}", s, m)))));
    paths.push(("read-binary", crate::evidence::guarded(|| -> PathResult {
        let mut buf = Vec::new();
        rbx_binary::Serializer::new().reflection_database(empty_db()).serialize(&mut buf, &dom, &roots).map_err(|e| format!("cannot build legacy file: {}", e))?;
        let d2 = rbx_binary::from_reader(buf.as_slice()).map_err(|e| format!("decode: {}", e))?;
        props_of(&d2)
    }).unwrap_or_else(|(s, m)| Err(format!("panic at {}: {}", s, m)))));
    paths.push(("read-xml", crate::evidence::guarded(|| -> PathResult {
        let mut buf = Vec::new();
        rbx_xml::to_writer(&mut buf, &dom, &roots, rbx_xml::EncodeOptions::new().property_behavior(rbx_xml::EncodePropertyBehavior::NoReflection)).map_err(|e| format!("cannot build legacy file: {}", e))?;
        let d2 = rbx_xml::from_reader_default(buf.as_slice()).map_err(|e| format!("decode: {}", e))?;
        props_of(&d2)
    }).unwrap_or_else(|(s, m)| Err(format!("panic at {}: {}", s, m)))));
    let shape = format!("{}+{}{}{}", c.legacy_a, c.legacy_b, if c.explicit_a { "+newA" } else { "" }, if c.explicit_b { "+newB" } else { "" });
    for (path, res) in paths {
        match res {
            Err(e) => out.push((format!("migrate-pair|{}|error|{}", path, shape), format!("{}: {} with {}: {}", path, c.class, shape, e.chars().take(200).collect::<String>()))),
            Ok(props) => {
                for (legacy, new_name, want) in &wants {
                    if props.contains_key(legacy) {
                        out.push((format!("migrate-pair|{}|legacy-name-survives|{}", path, legacy), format!("{}: {} with {}: the legacy name {} is in the decoded DOM", path, c.class, shape, legacy)));
                    }
                    match props.get(new_name) {
                        Some(g) if g == want => {}
                        other => out.push((format!("migrate-pair|{}|value|{}->{}", path, legacy, new_name), format!("{}: {} carrying {}: {} should be {} but is {:?}", path, c.class, shape, new_name, want, other))),
                    }
                }
            }
        }
    }
    out
}

pub fn cases() -> Vec<Case15> {
    let mut out = Vec::new();
    for (class, legacy, _) in migrating_pairs() {
        let n = legacy_values(&class, &legacy).len();
        for value in 0..n {
            for explicit_new in [false, true] {
                out.push(Case15 { class: class.clone(), legacy: legacy.clone(), value, explicit_new, new_spelling: None, sibling: None, sibling_place: 0, neighbour: 0 });
            }
            if value < 2 {
                for neighbour in 1..3u8 {
                    out.push(Case15 { class: class.clone(), legacy: legacy.clone(), value, explicit_new: false, new_spelling: None, sibling: None, sibling_place: 0, neighbour });
                }
            }
            if let Lookup::Known(k) = specdb::lookup(&class, &legacy) {
                if let Ser::Migrate { to, .. } = &k.ser {
                    for sp in alias_spellings(&class, to) {
                        out.push(Case15 { class: class.clone(), legacy: legacy.clone(), value, explicit_new: true, new_spelling: Some(sp.clone()), sibling: None, sibling_place: 0, neighbour: 0 });
                        if value < 3 {
                            for sib in legacy_spellings(&class, to) {
                                for sibling_place in 0..3u8 {
                                    out.push(Case15 { class: class.clone(), legacy: legacy.clone(), value, explicit_new: true, new_spelling: Some(sp.clone()), sibling: Some(sib.clone()), sibling_place, neighbour: 0 });
                                }
                            }
                        }
                    }
                    if value < 3 {
                        for sib in legacy_spellings(&class, to) {
                            for explicit_new in [false, true] {
                                for sibling_place in 0..3u8 {
                                    out.push(Case15 { class: class.clone(), legacy: legacy.clone(), value, explicit_new, new_spelling: None, sibling: Some(sib.clone()), sibling_place, neighbour: 0 });
                                }
                            }
                        }
                    }
                }
            }
        }
    }
    out
}

pub fn check(run: &Run) -> Value {
    let cs = cases();
    let pairs = migrating_pairs();
    let seed = run.seed;
    let total: SweepOut = run_cases(&cs, &|i, c, out| {
        out.nontrivial += 1;
        out.executions += if c.explicit_new { 8 } else { 4 };
        let vs = judge(c);
        out.outcome(if vs.is_empty() { "ok" } else { "violation" });
        for (k, w) in vs {
            out.violation(k, w, || serde_json::to_value(c).unwrap());
        }
        if out.samples.len() < 2 && (i as u64 + seed) % 997 == 3 {
            out.samples.push(serde_json::to_string(c).unwrap());
        }
    });
    let mut total = total;
    let pcs = pair_cases();
    let o = run_cases(&pcs, &|_, c, out| {
        out.nontrivial += 1;
        out.executions += 4;
        let vs = judge_pair(c);
        out.outcome(if vs.is_empty() { "pair-ok" } else { "pair-violation" });
        for (k, w) in vs {
            out.violation(k, w, || serde_json::to_value(c).unwrap());
        }
    });
    let n_pairs = o.cases;
    total.merge(o);
    let dcs = double_cases();
    let o = run_cases(&dcs, &|_, c, out| {
        out.nontrivial += 1;
        out.executions += 4;
        let vs = judge_double(c);
        out.outcome(if vs.is_empty() { "double-legacy-ok" } else { "double-legacy-violation" });
        for (k, w) in vs {
            out.violation(k, w, || serde_json::to_value(c).unwrap());
        }
    });
    total.merge(o);
    let ccs = column_cases();
    let o = run_cases(&ccs, &|_, c, out| {
        out.nontrivial += 1;
        out.executions += 1;
        let vs = judge_column(c);
        out.outcome(if vs.is_empty() { "legacy-column-ok" } else { "legacy-column-violation" });
        for (k, w) in vs {
            out.violation(k, w, || serde_json::to_value(c).unwrap());
        }
    });
    total.merge(o);
    total.report(run);
    println!("C15 two migrations on one instance: {} cases", n_pairs);
    let declared: std::collections::BTreeSet<String> = pairs.iter().map(|p| format!("{}->{}", p.1, p.2)).collect();
    println!("C15 sweep: cases={} path-executions={} class/property pairs={} outcomes={:?}", total.cases, total.executions, pairs.len(), total.outcomes);
    json!({
        "states": total.cases,
        "transitions": total.executions,
        "traces_validated_against_impl": total.executions,
        "evaluations": total.executions,
        "distinct_nontrivial": total.nontrivial,
        "migrating_class_property_pairs": pairs.len(),
        "migrations": declared,
        "outcomes": total.outcomes,
        "samples": total.samples.iter().map(|s| serde_json::from_str::<Value>(s).unwrap()).collect::<Vec<_>>(),
        "exhaustive": true,
        "rule": "every (class, legacy property) pair of the database whose serialization is Migrate (on the declaring class and every subclass) x every value the database allows for the legacy type (all items of Enum.Font, all BrickColor numbers, both booleans, a URI alphabet) x new property absent / present x four paths (write binary, write XML, read binary, read XML; read paths from files that still carry the legacy name, in both encounter orders, for XML also with the two elements in two separate <Properties> elements of the Item), compared with PropertyMigration::perform and with each other; two legacy spellings with different values on one instance: writing binary and writing XML must agree",
    })
}


// ---------------------------------------------------------------------------
// A legacy column of a foreign file holds one value per instance: three same-class siblings carry
// the legacy property with two migratable values and (where the legacy type has one) a value the
// migration refuses, in every order. Each instance with a migratable value must come back with
// its own migrated value, whatever its neighbours in the column hold.

#[derive(Clone, Debug, Serialize, Deserialize)]
pub struct CaseColumn {
    pub class: String,
    pub column_legacy: String,
    pub order: usize,
    pub with_unmigratable: bool,
}

pub fn column_cases() -> Vec<CaseColumn> {
    let mut out = Vec::new();
    for (class, legacy, _) in migrating_pairs() {
        for with_unmigratable in [false, true] {
            for order in 0..6 {
                out.push(CaseColumn { class: class.clone(), column_legacy: legacy.clone(), order, with_unmigratable });
            }
        }
    }
    out
}

pub fn judge_column(c: &CaseColumn) -> Vec<(String, String)> {
    let mut out = Vec::new();
    let (new_name, migration) = match specdb::lookup(&c.class, &c.column_legacy) {
        Lookup::Known(k) => match k.ser {
            Ser::Migrate { to, migration } => (to, migration),
            _ => return out,
        },
        _ => return out,
    };
    let values = legacy_values(&c.class, &c.column_legacy);
    let good: Vec<&(String, Variant)> = values.iter().filter(|v| migration.perform(&v.1).is_ok()).collect();
    let bad: Option<&(String, Variant)> = values.iter().find(|v| migration.perform(&v.1).is_err());
    if good.len() < 2 {
        return out;
    }
    let mut trio: Vec<(&str, &Variant, Option<String>)> = vec![("first", &good[0].1, migration.perform(&good[0].1).ok().map(|v| r(&v))), ("second", &good[good.len() - 1].1, migration.perform(&good[good.len() - 1].1).ok().map(|v| r(&v)))];
    if c.with_unmigratable {
        match bad {
            Some(b) => trio.push(("unmigratable", &b.1, None)),
            None => return out,
        }
    } else {
        trio.push(("third", &good[good.len() / 2].1, migration.perform(&good[good.len() / 2].1).ok().map(|v| r(&v))));
    }
    let perm = [[0, 1, 2], [0, 2, 1], [1, 0, 2], [1, 2, 0], [2, 0, 1], [2, 1, 0]][c.order % 6];
    let mut root = InstanceBuilder::new("DataModel");
    for &i in &perm {
        root = root.with_child(InstanceBuilder::new(c.class.as_str()).with_name(trio[i].0).with_property(c.column_legacy.as_str(), trio[i].1.clone()));
    }
    let dom = WeakDom::new(root);
    let roots = dom.root().children().to_vec();
    let read = crate::evidence::guarded(|| -> Result<WeakDom, String> {
        let mut buf = Vec::new();
        rbx_binary::Serializer::new().reflection_database(empty_db()).serialize(&mut buf, &dom, &roots).map_err(|e| format!("cannot build legacy file: {}", e))?;
        rbx_binary::from_reader(buf.as_slice()).map_err(|e| format!("decode: {}", e))
    });
    let tag = format!("{}->{}{}", c.column_legacy, new_name, if c.with_unmigratable { "|with-unmigratable" } else { "" });
    let back = match read {
        Ok(Ok(d)) => d,
        Ok(Err(e)) => {
            out.push((format!("migrate-column|read-binary|error|{}", tag), format!("three {} carrying {} ({:?}): {}", c.class, c.column_legacy, perm, e)));
            return out;
        }
        Err((s, m)) => {
            out.push((format!("migrate-column|read-binary|panic|{}", tag), format!("panic at {}: {}", s, m)));
            return out;
        }
    };
    for i in back.descendants() {
        let Some(t) = trio.iter().find(|t| t.0 == i.name) else { continue };
        let Some(want) = &t.2 else { continue };
        let got = i.properties.get(&new_name.as_str().into()).map(r);
        if got.as_ref() != Some(want) {
            out.push((
                format!("migrate-column|read-binary|value|{}", tag),
                format!("three {} carrying {} in column order {:?}: the instance '{}' should read back with {} = {}, got {:?}", c.class, c.column_legacy, perm.iter().map(|k| trio[*k].0).collect::<Vec<_>>(), i.name, new_name, want, got),
            ));
            break;
        }
    }
    out
}

pub fn replay(case: &Value) -> Vec<(String, String)> {
    if case.get("column_legacy").is_some() {
        let c: CaseColumn = serde_json::from_value(case.clone()).unwrap_or_else(|e| crate::evidence::machinery_failure(&format!("bad replay: {}", e)));
        return judge_column(&c);
    }
    if case.get("double_a").is_some() {
        let c: CaseDouble = serde_json::from_value(case.clone()).unwrap_or_else(|e| crate::evidence::machinery_failure(&format!("bad replay: {}", e)));
        return judge_double(&c);
    }
    if case.get("legacy_a").is_some() {
        let c: CasePair = serde_json::from_value(case.clone()).unwrap_or_else(|e| crate::evidence::machinery_failure(&format!("bad replay: {}", e)));
        return judge_pair(&c);
    }
    let c: Case15 = serde_json::from_value(case.clone()).unwrap_or_else(|e| crate::evidence::machinery_failure(&format!("bad replay: {}", e)));
    let a = judge(&c);
    let b = judge(&c);
    if a != b {
        crate::evidence::machinery_failure("replay gave two different observations");
    }
    a
}

/// One instance carrying the legacy value under *two* migrating spellings of the same new
/// property (`BrickColor` and `brickColor`) with different values and no explicit new value.
/// Which of the two wins is not specified - but it is the same DOM, so writing it as binary
/// and writing it as XML must agree, whatever order the two were set in.
#[derive(Clone, Debug, Serialize, Deserialize)]
pub struct CaseDouble {
    pub class: String,
    pub double_a: String,
    pub double_b: String,
    pub value: usize,
    /// another migrating legacy property of the class (with another target) set on the same instance
    #[serde(default)]
    pub also: Option<String>,
}

pub fn double_cases() -> Vec<CaseDouble> {
    let mut out = Vec::new();
    let mut seen = std::collections::BTreeSet::new();
    for (class, legacy, to) in migrating_pairs() {
        for other in legacy_spellings(&class, &to) {
            if other != legacy && seen.insert((class.clone(), legacy.clone().min(other.clone()), legacy.clone().max(other.clone()))) {
                for value in 0..legacy_values(&class, &legacy).len().min(4) {
                    out.push(CaseDouble { class: class.clone(), double_a: legacy.clone(), double_b: other.clone(), value, also: None });
                }
                for (c2, l2, to2) in migrating_pairs() {
                    if c2 == class && to2 != to && !legacy_values(&class, &l2).is_empty() {
                        out.push(CaseDouble { class: class.clone(), double_a: legacy.clone(), double_b: other.clone(), value: 0, also: Some(l2) });
                    }
                }
            }
        }
    }
    out
}

pub fn judge_double(c: &CaseDouble) -> Vec<(String, String)> {
    let mut out = Vec::new();
    let values = legacy_values(&c.class, &c.double_a);
    let (Some(va), Some(vb)) = (values.get(c.value), values.get((c.value + 1) % values.len().max(1))) else { return out };
    let (new_name, migration) = match specdb::lookup(&c.class, &c.double_a) {
        Lookup::Known(k) => match k.ser {
            Ser::Migrate { to, migration } => (to, migration),
            _ => return out,
        },
        _ => return out,
    };
    let allowed: Vec<String> = [&va.1, &vb.1].iter().filter_map(|v| migration.perform(v).ok()).map(|v| r(&v)).collect();
    if allowed.len() != 2 {
        return out;
    }
    let mut results: Vec<(String, Result<Option<String>, String>)> = Vec::new();
    for a_first in [true, false] {
        let mut b = InstanceBuilder::new(c.class.as_str()).with_name("subject");
        if a_first {
            b = b.with_property(c.double_a.as_str(), va.1.clone()).with_property(c.double_b.as_str(), vb.1.clone());
        } else {
            b = b.with_property(c.double_b.as_str(), vb.1.clone()).with_property(c.double_a.as_str(), va.1.clone());
        }
        if let Some(l2) = &c.also {
            if let Some(v2) = legacy_values(&c.class, l2).first() {
                b = b.with_property(l2.as_str(), v2.1.clone());
            }
        }
        let dom = WeakDom::new(InstanceBuilder::new("DataModel").with_child(b));
        let roots = dom.root().children().to_vec();
        let nn = new_name.clone();
        let bin = crate::evidence::guarded(|| -> Result<Option<String>, String> {
            let mut buf = Vec::new();
            rbx_binary::to_writer(&mut buf, &dom, &roots).map_err(|e| format!("encode: {}", e))?;
            let d = rbx_binary::from_reader(buf.as_slice()).map_err(|e| format!("decode: {}", e))?;
            Ok(props_of(&d)?.get(&nn).cloned())
        })
        .unwrap_or_else(|(s, m)| Err(format!("panic at {}: {}", s, m)));
        results.push((format!("write-binary/{}", if a_first { "a-first" } else { "b-first" }), bin));
        let nn = new_name.clone();
        let xml = crate::evidence::guarded(|| -> Result<Option<String>, String> {
            let mut buf = Vec::new();
            rbx_xml::to_writer_default(&mut buf, &dom, &roots).map_err(|e| format!("encode: {}", e))?;
            let text = String::from_utf8_lossy(&buf).to_string();
            if text.matches(&format!(" name=\"{}\">", nn)).count() > 1 {
                return Err(format!("the document holds {} elements named {}", text.matches(&format!(" name=\"{}\">", nn)).count(), nn));
            }
            let d = rbx_xml::from_reader_default(buf.as_slice()).map_err(|e| format!("decode: {}", e))?;
            Ok(props_of(&d)?.get(&nn).cloned())
        })
        .unwrap_or_else(|(s, m)| Err(format!("panic at {}: {}", s, m)));
        results.push((format!("write-xml/{}", if a_first { "a-first" } else { "b-first" }), xml));
    }
    let tag = format!("{}+{}->{}{}", c.double_a, c.double_b, new_name, if c.also.is_some() { "|with-another-migration" } else { "" });
    let mut firsts: Option<String> = None;
    for (path, res) in &results {
        match res {
            Err(e) => out.push((format!("migrate|double-legacy|error|{}|{}", path.split('/').next().unwrap_or(""), tag), format!("{}: {}{{{}={}, {}={}}} failed: {}", path, c.class, c.double_a, va.0, c.double_b, vb.0, e))),
            Ok(None) => out.push((format!("migrate|double-legacy|new-missing|{}", tag), format!("{}: neither legacy value reached {}", path, new_name))),
            Ok(Some(v)) => {
                if !allowed.contains(v) {
                    out.push((format!("migrate|double-legacy|foreign-value|{}", tag), format!("{}: {} = {} is the migration of neither legacy value", path, new_name, v)));
                }
                match &firsts {
                    None => firsts = Some(v.clone()),
                    Some(f) if f != v => out.push((
                        format!("migrate|double-legacy|paths-disagree|{}", tag),
                        format!("{}{{{}={}, {}={}}}: {} gives {} = {}, {} gives {}", c.class, c.double_a, va.0, c.double_b, vb.0, results[0].0, new_name, f, path, v),
                    )),
                    _ => {}
                }
            }
        }
    }
    out.sort();
    out.dedup_by(|a, b| a.0 == b.0);
    out
}
