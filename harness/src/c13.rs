//! C13: decoders never panic / hang / over-allocate; truncation and I/O faults
//! surface as errors. Fault enumeration around the real decoders and encoders,
//! executed in crash-tolerant sandboxed workers (see crashpool.rs).

use std::collections::{BTreeMap, BTreeSet};
use std::io::{self, Read, Write};
use std::time::Duration;

use rbx_dom_weak::types::{
    Attributes, BinaryString, BrickColor, CFrame, Color3, Color3uint8, ColorSequence, ColorSequenceKeypoint, Content, ContentId,
    CustomPhysicalProperties, Enum, Faces, Axes, Font, Matrix3, NumberRange, NumberSequence, NumberSequenceKeypoint,
    PhysicalProperties, Ray, Rect, SecurityCapabilities, Tags, UDim, UDim2, UniqueId, Variant, Vector3, Vector3int16,
};
use serde::{Deserialize, Serialize};
use serde_json::{json, Value};

use crate::codec::{xml_options, Compression, XmlMode};
use crate::crashpool::{Abnormal, Batch};
use crate::evidence::{Run, Tier};
use crate::plan::{canon_forest, How, PNode, PVal, Plan, RootSel, Tgt};
use crate::sweeps::SweepOut;
use crate::vals::FloatMode;

// ---------------------------------------------------------------------------
// Corpus

fn v(x: impl Into<Variant>) -> PVal {
    PVal::V(x.into())
}

pub fn corpus_plans() -> Vec<Plan> {
    let general = Matrix3::new(Vector3::new(0.1, 0.2, 0.3), Vector3::new(0.4, 0.5, 0.6), Vector3::new(0.7, 0.8, 0.9));
    let p1 = Plan {
        nodes: vec![PNode {
            class: "ZzUnknown".into(),
            name: "mixed".into(),
            parent: None,
            props: vec![
                ("S".into(), v(Variant::String("h\u{e9}llo ]]> <x>&".into()))),
                ("I".into(), v(-5i32)),
                ("F".into(), v(1.5f32)),
                ("D".into(), v(0.1f64)),
                ("B".into(), v(true)),
                ("C".into(), v(CFrame::new(Vector3::new(1.0, 2.0, 3.0), general))),
                ("V".into(), v(Vector3::new(1.0, -2.0, 3.5))),
                ("U".into(), v(UDim2::new(UDim::new(0.5, 7), UDim::new(1.0, -3)))),
                ("Bs".into(), v(BinaryString::from(vec![0u8, 255, 0xc3, 0x28]))),
                ("E".into(), v(Enum::from_u32(3))),
                ("Cs".into(), v(ColorSequence { keypoints: vec![ColorSequenceKeypoint::new(0.0, Color3::new(1.0, 0.0, 0.5)), ColorSequenceKeypoint::new(1.0, Color3::new(0.0, 1.0, 0.5))] })),
                ("Ns".into(), v(NumberSequence { keypoints: vec![NumberSequenceKeypoint::new(0.0, 1.0, 0.0), NumberSequenceKeypoint::new(1.0, 0.0, 0.25)] })),
                ("Fo".into(), v(Font::regular("rbxasset://fonts/families/Arial.json"))),
                ("L".into(), v(1i64 << 40)),
                ("Uq".into(), v(rbx_dom_weak::types::UniqueId::new(3, 2, -1))),
                ("Pp".into(), v(PhysicalProperties::Custom(CustomPhysicalProperties { density: 0.7, friction: 0.3, elasticity: 0.5, friction_weight: 1.0, elasticity_weight: 2.0 }))),
            ],
        }],
        roots: RootSel::Nodes(vec![0]),
    };
    let p2 = Plan {
        nodes: vec![
            PNode { class: "Folder".into(), name: "top".into(), parent: None, props: vec![("R".into(), PVal::Ref(Tgt::Node(1))), ("Sh".into(), PVal::Shared(b"shared-content-one".to_vec()))] },
            PNode { class: "Part".into(), name: "kid".into(), parent: Some(0), props: vec![("R".into(), PVal::Ref(Tgt::Node(0))), ("Sh".into(), PVal::Shared(b"shared-content-one".to_vec()))] },
            PNode { class: "ZzUnknown".into(), name: "other".into(), parent: Some(0), props: vec![("R".into(), PVal::Ref(Tgt::Null)), ("Sh".into(), PVal::Shared(b"second".to_vec()))] },
        ],
        roots: RootSel::Nodes(vec![0]),
    };
    let p3 = Plan {
        nodes: vec![
            PNode {
                class: "Part".into(),
                name: "\u{4e16}\u{754c} part".into(),
                parent: None,
                props: vec![
                    ("Size".into(), v(Vector3::new(4.0, 1.0, 2.0))),
                    ("Color".into(), v(Color3uint8::new(10, 20, 30))),
                    ("Anchored".into(), v(true)),
                    ("CFrame".into(), v(CFrame::new(Vector3::new(0.0, 5.0, 0.0), Matrix3::identity()))),
                ],
            },
            PNode { class: "Part".into(), name: "second".into(), parent: None, props: vec![("Anchored".into(), v(false))] },
        ],
        roots: RootSel::Nodes(vec![0, 1]),
    };
    let mut tags = Tags::new();
    tags.push("alpha");
    tags.push("beta gamma");
    let attrs = Attributes::new().with("n", Variant::Float64(1.5)).with("s", Variant::String("str".into())).with("v", Variant::Vector3(Vector3::new(1.0, 2.0, 3.0)));
    let p4 = Plan {
        nodes: vec![PNode {
            class: "Folder".into(),
            name: "blobs".into(),
            parent: None,
            props: vec![
                ("Tags".into(), v(tags)),
                ("Attributes".into(), v(attrs)),
                ("ZzContent".into(), v(Content::from_uri("rbxassetid://1"))),
                ("ZzNone".into(), v(Content::none())),
                ("ZzId".into(), v(ContentId::from("rbxassetid://2"))),
            ],
        }],
        roots: RootSel::Nodes(vec![0]),
    };
    let p5 = Plan {
        nodes: vec![
            PNode {
                class: "Model".into(),
                name: "m".into(),
                parent: None,
                props: vec![
                    ("WorldPivotData".into(), v(Variant::OptionalCFrame(Some(CFrame::new(Vector3::new(1.0, 2.0, 3.0), general))))),
                    ("UniqueId".into(), v(UniqueId::new(7, 8, 9))),
                ],
            },
            PNode {
                class: "ZzUnknown".into(),
                name: "misc".into(),
                parent: Some(0),
                props: vec![
                    ("Sc".into(), v(SecurityCapabilities::from_bits(5))),
                    ("Fa".into(), v(Faces::from_bits(0b101010).unwrap())),
                    ("Ax".into(), v(Axes::from_bits(0b101).unwrap())),
                    ("Ra".into(), v(Ray::new(Vector3::new(1.0, 2.0, 3.0), Vector3::new(4.0, 5.0, 6.0)))),
                    ("Re".into(), v(Rect::new(rbx_dom_weak::types::Vector2::new(1.0, 2.0), rbx_dom_weak::types::Vector2::new(3.0, 4.0)))),
                    ("Nr".into(), v(NumberRange::new(0.5, 2.0))),
                    ("Bc".into(), v(BrickColor::from_number(1004).unwrap())),
                    ("Vi".into(), v(Vector3int16::new(1, -2, 3))),
                    ("Co".into(), v(Color3::new(0.25, 0.5, 1.0))),
                    ("On".into(), v(Variant::OptionalCFrame(None))),
                ],
            },
        ],
        roots: RootSel::Nodes(vec![0]),
    };
    // features the plans above lack: service classes (the other INST object format), three-row
    // columns (real interleaving), object-sourced Contents, MaterialColors, a long string
    let mut mc = rbx_dom_weak::types::MaterialColors::new();
    mc.set_color(rbx_dom_weak::types::TerrainMaterials::Grass, Color3uint8::new(1, 2, 3));
    let row = |i: usize, parent: Option<usize>| PNode {
        class: "ZzRow".into(),
        name: format!("row{}", i),
        parent,
        props: vec![
            ("I".into(), v(0x0102_0304i32.wrapping_mul(i as i32 + 1))),
            ("L".into(), v((i as i64 + 1) << 33)),
            ("F".into(), v(0.1f32 * (i as f32 + 1.0))),
            ("V2".into(), v(rbx_dom_weak::types::Vector2::new(i as f32, -1.5))),
            ("Ud".into(), v(UDim::new(0.25 * i as f32, i as i32 - 1))),
            ("C8".into(), v(Color3uint8::new(i as u8, 128, 255))),
            ("Obj".into(), PVal::ContentObj(Tgt::Node(2 + (i + 1) % 3))),
            ("Long".into(), v(Variant::String("long string ".repeat(120 + i)))),
        ],
    };
    let p6 = Plan {
        nodes: vec![
            PNode { class: "Workspace".into(), name: "Workspace".into(), parent: None, props: vec![("ZzW".into(), v(1i32))] },
            PNode { class: "Terrain".into(), name: "Terrain".into(), parent: Some(0), props: vec![("MaterialColors".into(), v(mc))] },
            row(0, Some(0)),
            row(1, Some(0)),
            row(2, Some(3)),
        ],
        roots: RootSel::Nodes(vec![0]),
    };
    vec![p1, p2, p3, p4, p5, p6]
}

#[derive(Clone, Copy, Debug, PartialEq, Eq, Serialize, Deserialize, PartialOrd, Ord)]
pub enum Kind {
    Bin,
    Xml,
    Attr,
}

#[derive(Clone)]
pub struct CorpusFile {
    pub kind: Kind,
    pub desc: String,
    pub bytes: Vec<u8>,
}

pub struct Corpus {
    pub plans: Vec<Plan>,
    pub files: Vec<CorpusFile>,
}

pub fn build_corpus() -> Corpus {
    let plans = corpus_plans();
    let mut files = Vec::new();
    for (i, p) in plans.iter().enumerate() {
        let r = p.realise(How::Nested, None);
        let roots = p.root_refs(&r);
        for c in Compression::all() {
            match crate::codec::binary_encode(&r, &roots, c) {
                Ok(Ok(b)) => files.push(CorpusFile { kind: Kind::Bin, desc: format!("plan{}/{:?}", i + 1, c), bytes: b }),
                other => crate::evidence::machinery_failure(&format!("corpus plan {} does not serialize to binary: {:?}", i + 1, other.map(|x| x.map(|b| b.len())))),
            }
        }
        // rbx_xml cannot write object-sourced Contents (a listed C02 finding): the XML member of
        // the corpus is the plan without them
        let mut px = p.clone();
        for n in px.nodes.iter_mut() {
            n.props.retain(|(_, v)| !matches!(v, PVal::ContentObj(_)));
        }
        let r = px.realise(How::Nested, None);
        let roots = px.root_refs(&r);
        match crate::codec::xml_encode(&r, &roots, XmlMode::Unknown) {
            Ok(Ok(b)) => files.push(CorpusFile { kind: Kind::Xml, desc: format!("plan{}/xml", i + 1), bytes: b }),
            other => crate::evidence::machinery_failure(&format!("corpus plan {} does not serialize to XML: {:?}", i + 1, other.map(|x| x.map(|b| b.len())))),
        }
    }
    // files another writer could produce (the independent encoder of C04): classes without
    // instances whose PROP chunks name migrating legacy properties, written before and after the
    // properties they migrate to - rbx_binary's own writer never emits either
    {
        use crate::specbin::enc;
        let p = &plans[0];
        let mut e = enc::base_encoding(p);
        e.empty_classes = vec![
            ("SpawnLocation".into(), vec![("Color3uint8".into(), 0x1a), ("BrickColor".into(), 0x0b), ("Name".into(), 0x01)], true, true),
            ("TextLabel".into(), vec![("Font".into(), 0x12), ("FontFace".into(), 0x20)], false, false),
            ("MeshPart".into(), vec![("MeshId".into(), 0x01)], false, true),
            ("ZzNoInstances".into(), vec![("Name".into(), 0x01), ("Whatever".into(), 0x03)], true, false),
        ];
        for c in [enc::Comp::None, enc::Comp::Lz4] {
            e.comp = vec![c];
            match enc::encode(p, &e) {
                Ok(b) => {
                    files.push(CorpusFile { kind: Kind::Bin, desc: format!("foreign-empty-classes/{:?}", c), bytes: b })
                }
                Err(err) => crate::evidence::machinery_failure(&format!("foreign corpus file: {}", err)),
            }
        }
    }
    // XML documents another writer could produce: a migrating legacy property after (and before)
    // the property it migrates to, on the classes that own them - rbx_xml's writer emits neither
    {
        let item = |class: &str, props: &str| format!("<Item class=\"{}\" referent=\"RBX{}\"><Properties><string name=\"Name\">{}</string>{}</Properties></Item>", class, class.len(), class, props);
        let font_new = "<Font name=\"FontFace\"><Family><url>rbxasset://fonts/families/Arial.json</url></Family><Weight>700</Weight><Style>Italic</Style></Font>";
        let font_old = "<token name=\"Font\">3</token>";
        let color_new = "<Color3uint8 name=\"Color3uint8\">4278190335</Color3uint8>";
        let color_old = "<int name=\"BrickColor\">21</int>";
        let mesh_new = "<Content name=\"MeshContent\"><uri>rbxassetid://1</uri></Content>";
        let mesh_old = "<Content name=\"MeshId\"><url>rbxassetid://2</url></Content>";
        let inset_new = "<token name=\"ScreenInsets\">1</token>";
        let inset_old = "<bool name=\"IgnoreGuiInset\">true</bool>";
        for (k, order_new_first) in [true, false].into_iter().enumerate() {
            let pair = |n: &str, o: &str| if order_new_first { format!("{}{}", n, o) } else { format!("{}{}", o, n) };
            let doc = format!(
                "<roblox version=\"4\">{}{}{}{}</roblox>",
                item("TextLabel", &pair(font_new, font_old)),
                item("Part", &pair(color_new, color_old)),
                item("MeshPart", &pair(mesh_new, mesh_old)),
                item("ScreenGui", &pair(inset_new, inset_old))
            );
            files.push(CorpusFile { kind: Kind::Xml, desc: format!("foreign-legacy-and-new/{}", if k == 0 { "new-first" } else { "legacy-first" }), bytes: doc.into_bytes() });
        }
    }
    for (i, a) in [
        Attributes::new().with("a", true),
        Attributes::new().with("x", Variant::Float64(0.1)).with("", Variant::BinaryString(BinaryString::from(vec![0u8, 255]))).with("cf", Variant::CFrame(CFrame::new(Vector3::new(1.0, 2.0, 3.0), Matrix3::identity()))),
        Attributes::new()
            .with("seq", Variant::NumberSequence(NumberSequence { keypoints: vec![NumberSequenceKeypoint::new(0.0, 1.0, 0.0), NumberSequenceKeypoint::new(1.0, 0.0, 0.5)] }))
            .with("font", Variant::Font(Font::regular("fam")))
            .with("e", Variant::EnumItem(rbx_dom_weak::types::EnumItem { ty: "Material".into(), value: 256 })),
    ]
    .iter()
    .enumerate()
    {
        let mut b = Vec::new();
        a.to_writer(&mut b).unwrap_or_else(|e| crate::evidence::machinery_failure(&format!("attr corpus: {}", e)));
        files.push(CorpusFile { kind: Kind::Attr, desc: format!("attr{}", i + 1), bytes: b });
    }
    Corpus { plans, files }
}

// ---------------------------------------------------------------------------
// Outcomes

#[derive(Clone, Debug, PartialEq, Eq)]
pub enum Out {
    Ok(String),
    Err,
    Panic(String),
}

fn forest_digest(dom: &rbx_dom_weak::WeakDom) -> String {
    let f = canon_forest(dom, dom.root().children(), FloatMode::Exact);
    blake3::hash(format!("{:?}", f).as_bytes()).to_hex().to_string()
}

/// Decodes `bytes` through `reader_of` with the decoder of `kind`.
fn decode_with<R: Read>(kind: Kind, reader: R) -> Out {
    let res = crate::evidence::guarded(|| match kind {
        Kind::Bin => rbx_binary::from_reader(reader).map(|d| forest_digest(&d)).map_err(|_| ()),
        Kind::Xml => rbx_xml::from_reader(reader, xml_options(XmlMode::Unknown).1).map(|d| forest_digest(&d)).map_err(|_| ()),
        Kind::Attr => Attributes::from_reader(reader)
            .map(|a| {
                let v: Vec<String> = a.iter().map(|(k, v)| format!("{}={}", k, crate::vals::render(v, FloatMode::Exact, &|_| "?".into()))).collect();
                v.join(",")
            })
            .map_err(|_| ()),
    });
    match res {
        Ok(Ok(d)) => Out::Ok(d),
        Ok(Err(())) => Out::Err,
        Err((site, msg)) => Out::Panic(crate::evidence::panic_signature(&site, &msg)),
    }
}

fn kind_name(k: Kind) -> &'static str {
    match k {
        Kind::Bin => "rbx_binary::from_reader",
        Kind::Xml => "rbx_xml::from_reader",
        Kind::Attr => "Attributes::from_reader",
    }
}

/// Decode with allocation tracking; reports panic / oversized allocation.
fn judge_decode(kind: Kind, bytes: &[u8], family: &str, must_err: bool, out: &mut SweepOut, replay: &dyn Fn() -> Value) -> Out {
    let threshold = (1usize << 24).max(bytes.len() * 4096);
    crate::alloctrack::begin(threshold);
    let o = decode_with(kind, bytes);
    let (max_req, site) = crate::alloctrack::end();
    out.executions += 1;
    match &o {
        Out::Panic(sig) => out.violation(
            format!("c13|{}|panic|{}", kind_name(kind), sig),
            format!("{} panicked on {} input ({} bytes): {}", kind_name(kind), family, bytes.len(), sig),
            replay,
        ),
        Out::Ok(_) if must_err => out.violation(
            format!("c13|{}|{}|accepted", kind_name(kind), family),
            format!("{} returned Ok for a {} input ({} bytes)", kind_name(kind), family, bytes.len()),
            replay,
        ),
        _ => {}
    }
    if max_req > threshold {
        out.violation(
            format!("c13|{}|alloc|{}", kind_name(kind), site.clone().unwrap_or_else(|| "?".into())),
            format!("{} requested {} bytes in one allocation for a {}-byte {} input (site {})", kind_name(kind), max_req, bytes.len(), family, site.unwrap_or_else(|| "?".into())),
            replay,
        );
    }
    out.outcome(match &o {
        Out::Ok(_) => "decode-ok",
        Out::Err => "decode-err",
        Out::Panic(_) => "decode-panic",
    });
    o
}

// ---------------------------------------------------------------------------
// Fault-injecting I/O

#[derive(Clone, Copy, Debug, PartialEq, Eq, Serialize, Deserialize)]
pub enum Dev {
    Short1,
    ShortHalf,
    Interrupted,
}

pub struct ScriptedReader<'a> {
    data: &'a [u8],
    pos: usize,
    call: usize,
    script: Vec<(usize, Dev)>,
    one_byte: bool,
    pub calls: usize,
}

impl<'a> ScriptedReader<'a> {
    pub fn new(data: &'a [u8], script: Vec<(usize, Dev)>, one_byte: bool) -> Self {
        ScriptedReader { data, pos: 0, call: 0, script, one_byte, calls: 0 }
    }
}

impl<'a> Read for ScriptedReader<'a> {
    fn read(&mut self, buf: &mut [u8]) -> io::Result<usize> {
        let c = self.call;
        self.call += 1;
        self.calls += 1;
        let remaining = self.data.len() - self.pos;
        let mut n = buf.len().min(remaining);
        if self.one_byte {
            n = n.min(1);
        }
        if let Some((_, d)) = self.script.iter().find(|(i, _)| *i == c) {
            match d {
                Dev::Interrupted => return Err(io::Error::new(io::ErrorKind::Interrupted, "injected")),
                Dev::Short1 => n = n.min(1),
                Dev::ShortHalf => n = if n > 1 { n / 2 } else { n },
            }
        }
        buf[..n].copy_from_slice(&self.data[self.pos..self.pos + n]);
        self.pos += n;
        Ok(n)
    }
}

#[derive(Clone, Copy, Debug, PartialEq, Eq, Serialize, Deserialize)]
pub enum WMode {
    Err,
    Zero,
}

pub struct FailingWriter {
    limit: usize,
    mode: WMode,
    pub written: usize,
    pub failed: bool,
}

impl Write for FailingWriter {
    fn write(&mut self, buf: &[u8]) -> io::Result<usize> {
        if buf.is_empty() {
            return Ok(0);
        }
        if self.written >= self.limit {
            self.failed = true;
            return match self.mode {
                WMode::Err => Err(io::Error::new(io::ErrorKind::Other, "injected sink failure")),
                WMode::Zero => Ok(0),
            };
        }
        let n = buf.len().min(self.limit - self.written);
        self.written += n;
        Ok(n)
    }
    fn flush(&mut self) -> io::Result<()> {
        Ok(())
    }
}

/// A sink that misbehaves once in a way `Write` allows, at the write call that reaches byte
/// `at`: an `Interrupted` error (to be retried), a one-byte short write, or - for `flush` - an
/// error from `flush` after everything was accepted. Everything else is stored.
pub struct BenignWriter {
    at: usize,
    /// 0 Interrupted once, 1 short write of one byte, 2 WouldBlock (a real error)
    mode: u8,
    fired: bool,
    pub data: Vec<u8>,
}

impl Write for BenignWriter {
    fn write(&mut self, buf: &[u8]) -> io::Result<usize> {
        if buf.is_empty() {
            return Ok(0);
        }
        if !self.fired && self.data.len() + buf.len() > self.at {
            self.fired = true;
            match self.mode {
                0 => return Err(io::Error::new(io::ErrorKind::Interrupted, "injected EINTR")),
                1 => {
                    self.data.push(buf[0]);
                    return Ok(1);
                }
                _ => return Err(io::Error::new(io::ErrorKind::WouldBlock, "injected EWOULDBLOCK")),
            }
        }
        self.data.extend_from_slice(buf);
        Ok(buf.len())
    }
    fn flush(&mut self) -> io::Result<()> {
        Ok(())
    }
}

pub struct OneByteWriter {
    pub data: Vec<u8>,
}

impl Write for OneByteWriter {
    fn write(&mut self, buf: &[u8]) -> io::Result<usize> {
        if buf.is_empty() {
            return Ok(0);
        }
        self.data.push(buf[0]);
        Ok(1)
    }
    fn flush(&mut self) -> io::Result<()> {
        Ok(())
    }
}

// ---------------------------------------------------------------------------
// Families

pub const FAMILIES: [&str; 23] = [
    "truncation", "byte-substitution", "u32-field", "chunk-ops", "xml-mutation", "read-script-1", "read-script-2", "write-fault",
    "attr-all-bytes", "xml-all-strings", "header-variants", "deep-xml", "chunk-splice", "one-byte-io", "chunk-payload-cut", "chunk-payload-delete-byte", "decode-after-failure", "xml-long-text", "bin-long-names", "zstd-size-fields", "write-benign", "count-fields", "deep-binary",
];

const SUBST: [u8; 5] = [0x00, 0x01, 0x7f, 0x80, 0xff];
const U32S: [i64; 7] = [0, 1, -1, -2, 0x7fff_ffff, 0x8000_0000, 0xffff_ffff]; // -1 / -2 mean n-1 / n+1
const XML_SYMS: &[u8] = b"<>/=\"'&;![]-a ";

#[derive(Clone, Debug, Serialize, Deserialize)]
pub struct Replay13 {
    pub family: usize,
    pub index: u64,
}

fn chunk_table(bytes: &[u8]) -> Vec<(usize, usize)> {
    let mut chunks = Vec::new();
    let mut p = 32;
    while p + 16 <= bytes.len() {
        let clen = u32::from_le_bytes(bytes[p + 4..p + 8].try_into().unwrap()) as usize;
        let len = u32::from_le_bytes(bytes[p + 8..p + 12].try_into().unwrap()) as usize;
        let body = if clen == 0 { len } else { clen };
        let end = p + 16 + body;
        if end > bytes.len() {
            break;
        }
        chunks.push((p, end));
        p = end;
    }
    chunks
}

fn xml_tags(text: &[u8]) -> Vec<(usize, usize)> {
    let mut v = Vec::new();
    let mut i = 0;
    while i < text.len() {
        if text[i] == b'<' {
            if let Some(j) = text[i..].iter().position(|&c| c == b'>') {
                v.push((i, i + j + 1));
                i += j + 1;
                continue;
            }
        }
        i += 1;
    }
    v
}

fn xml_mutations(text: &[u8]) -> Vec<Vec<u8>> {
    let tags = xml_tags(text);
    let mut out = Vec::new();
    let splice = |a: usize, b: usize, with: &[u8]| -> Vec<u8> {
        let mut v = text[..a].to_vec();
        v.extend_from_slice(with);
        v.extend_from_slice(&text[b..]);
        v
    };
    for (k, &(s, e)) in tags.iter().enumerate() {
        out.push(splice(s, e, b"")); // delete the tag
        out.push(splice(e - 1, e, b"")); // unclosed
        // rename
        let inner = &text[s + 1..e - 1];
        let closing = inner.first() == Some(&b'/');
        let name_start = s + 1 + closing as usize;
        let name_len = text[name_start..e - 1].iter().position(|&c| c == b' ' || c == b'/').unwrap_or(e - 1 - name_start);
        out.push(splice(name_start, name_start + name_len, b"Zz"));
        // remove each attribute ( name="value")
        let mut p = name_start + name_len;
        while p < e - 1 {
            if text[p] == b' ' {
                if let Some(q1) = text[p..e].iter().position(|&c| c == b'"') {
                    if let Some(q2) = text[p + q1 + 1..e].iter().position(|&c| c == b'"') {
                        let end = p + q1 + 1 + q2 + 1;
                        out.push(splice(p, end, b""));
                        p = end;
                        continue;
                    }
                }
            }
            p += 1;
        }
        // text node up to the next tag
        if let Some(&(ns, _)) = tags.get(k + 1) {
            if ns > e && text[e..ns].iter().any(|c| !c.is_ascii_whitespace()) {
                for repl in [&b""[..], b"x", b"1e999", b"-1", b"NAN", b"99999999999999999999", "\u{20ac}\u{20ac}\u{20ac}\u{20ac}\u{20ac}\u{20ac}\u{20ac}\u{20ac}\u{20ac}\u{20ac}aa".as_bytes(), b"zzzzzzzzzzzzzzzzzzzzzzzzzzzzzzzz", b"+000000000000001+0000002+0000003", "\u{e9}".as_bytes(), b" ", b"true"] {
                    out.push(splice(e, ns, repl));
                }
            }
        }
    }
    out
}

pub struct Engine {
    pub corpus: Corpus,
    pub tier: Tier,
    bin: Vec<usize>,
    xml: Vec<usize>,
    attr: Vec<usize>,
    xml_muts: Vec<(usize, Vec<u8>)>,
    chunk_ops: Vec<(usize, u8, usize, usize)>,
    splices: Vec<(usize, usize, usize, usize)>,
    read_calls: Vec<usize>,
    write_targets: Vec<(usize, u8, usize)>,
    /// corpus files whose undisturbed decode did not finish (or killed the process)
    pub hung_files: Vec<String>,
    /// (file, chunk, position): every position inside every chunk payload of the uncompressed corpus files
    payload_pos: Vec<(usize, usize, usize)>,
    /// (plan, codec) -> bytes written before any failure was injected
    write_reference: std::collections::HashMap<(usize, u8), Vec<u8>>,
    /// (file, tag index) of every tag of every XML corpus file
    xml_tag_pos: Vec<(usize, usize)>,
}

/// Long runs of text (1..65537 bytes; one- to four-byte characters, so that every fixed byte
/// limit falls inside a character for some variant) as stray text / CDATA after a tag, as a tag
/// name and as an attribute value.
const LONG_SIZES: [usize; 9] = [1, 255, 1023, 1024, 1025, 1026, 4097, 8193, 65537];
const LONG_FILLS: [&str; 6] = ["x", "\u{e9}", "\u{20ac}", "\u{1F600}", "x\u{20ac}", "xx\u{1F600}"];
const LONG_PLACES: usize = 4;

fn long_text(size: usize, fill: &str) -> String {
    let mut t = String::with_capacity(size + 4);
    while t.len() < size {
        t.push_str(fill);
    }
    t
}

fn xml_long_variant(text: &[u8], tag: (usize, usize), place: usize, size: usize, fill: &str) -> Option<Vec<u8>> {
    let (s, e) = tag;
    let t = long_text(size, fill);
    let splice = |a: usize, b: usize, with: &[u8]| -> Vec<u8> {
        let mut v = text[..a].to_vec();
        v.extend_from_slice(with);
        v.extend_from_slice(&text[b..]);
        v
    };
    match place {
        0 => Some(splice(e, e, t.as_bytes())),
        1 => Some(splice(e, e, format!("<![CDATA[{}]]>", t).as_bytes())),
        2 => {
            let closing = text.get(s + 1) == Some(&b'/');
            if text.get(s + 1) == Some(&b'?') || text.get(s + 1) == Some(&b'!') {
                return None;
            }
            let name_start = s + 1 + closing as usize;
            let name_len = text[name_start..e - 1].iter().position(|&c| c == b' ' || c == b'/').unwrap_or(e - 1 - name_start);
            Some(splice(name_start, name_start + name_len, t.as_bytes()))
        }
        _ => {
            let q1 = text[s..e].iter().position(|&c| c == b'"')?;
            let q2 = text[s + q1 + 1..e].iter().position(|&c| c == b'"')?;
            Some(splice(s + q1 + 1, s + q1 + 1 + q2, t.as_bytes()))
        }
    }
}

/// A one-instance binary file, assembled by hand from docs/binary.md, whose class name, property
/// name and string value are long runs of one- to four-byte characters (optionally cut at exactly
/// `size` bytes, which may split a character). `variant`: 0 a String property, 1 a property of
/// an unknown type id, 2 a Bool property whose payload is missing, 3 a String property on a
/// database class (Part) with an ordinary class name.
fn bin_long_names(variant: usize, cut: bool, size: usize, fill: &str) -> Vec<u8> {
    use crate::specbin::enc::{frame_chunk, put_referents, Comp};
    let mut t = long_text(size, fill).into_bytes();
    if cut {
        t.truncate(size);
    }
    let put_str = |o: &mut Vec<u8>, b: &[u8]| {
        o.extend_from_slice(&(b.len() as u32).to_le_bytes());
        o.extend_from_slice(b);
    };
    let class: &[u8] = if variant == 3 { b"Part" } else { &t };
    let mut f = b"<roblox!\x89\xff\x0d\x0a\x1a\x0a".to_vec();
    f.extend_from_slice(&0u16.to_le_bytes());
    f.extend_from_slice(&1u32.to_le_bytes());
    f.extend_from_slice(&1u32.to_le_bytes());
    f.extend_from_slice(&[0u8; 8]);
    let mut inst = 0u32.to_le_bytes().to_vec();
    put_str(&mut inst, class);
    inst.push(0);
    inst.extend_from_slice(&1u32.to_le_bytes());
    put_referents(&mut inst, &[0]);
    f.extend(frame_chunk(b"INST", &inst, Comp::None));
    let mut prop = 0u32.to_le_bytes().to_vec();
    put_str(&mut prop, &t);
    match variant {
        0 | 3 => {
            prop.push(0x01);
            put_str(&mut prop, &t);
        }
        1 => {
            prop.push(0x7f);
            prop.extend_from_slice(&[1, 2, 3, 4]);
        }
        _ => prop.push(0x02),
    }
    f.extend(frame_chunk(b"PROP", &prop, Comp::None));
    let mut prnt = vec![0u8];
    prnt.extend_from_slice(&1u32.to_le_bytes());
    put_referents(&mut prnt, &[0]);
    put_referents(&mut prnt, &[-1]);
    f.extend(frame_chunk(b"PRNT", &prnt, Comp::None));
    f.extend(frame_chunk(b"END\0", b"</roblox>", Comp::None));
    f
}

/// Two length fields that lie consistently: a chunk stored as a hand-made Zstandard frame (raw
/// block holding the true payload) whose Frame_Content_Size says `declared`, under a chunk header
/// whose uncompressed length says `header_len`. `form` selects the width of the frame's size
/// field (0: none, 1: 2 bytes, 2: 4 bytes, 3: 8 bytes); `which` the chunk that is stored this way
/// (0 INST, 1 PROP, 2 an unknown chunk, 3 PRNT).
const ZSTD_SIZES: [u64; 10] = [0, 1, 0xffff, 0x1_0000, 0x100_0001, 0x1000_0000, 0x4000_0000, 0x7fff_ffff, 0xffff_ffff, u64::MAX];

fn zstd_lying_frame(payload: &[u8], declared: u64, form: usize) -> Vec<u8> {
    let mut f = vec![0x28, 0xb5, 0x2f, 0xfd];
    match form {
        0 => {
            // no content size: a window descriptor instead (1 KiB window)
            f.push(0x00);
            f.push(0x00);
        }
        1 => {
            f.push(0x60);
            f.extend_from_slice(&((declared.saturating_sub(256)) as u16).to_le_bytes());
        }
        2 => {
            f.push(0xa0);
            f.extend_from_slice(&(declared as u32).to_le_bytes());
        }
        _ => {
            f.push(0xe0);
            f.extend_from_slice(&declared.to_le_bytes());
        }
    }
    let k = payload.len() as u32;
    let hdr = (k << 3) | 1;
    f.extend_from_slice(&hdr.to_le_bytes()[..3]);
    f.extend_from_slice(payload);
    f
}

fn zstd_size_fields_file(which: usize, form: usize, declared: u64, header_true: bool) -> Vec<u8> {
    use crate::specbin::enc::{frame_chunk, put_referents, Comp};
    let put_str = |o: &mut Vec<u8>, b: &[u8]| {
        o.extend_from_slice(&(b.len() as u32).to_le_bytes());
        o.extend_from_slice(b);
    };
    let mut inst = 0u32.to_le_bytes().to_vec();
    put_str(&mut inst, b"Folder");
    inst.push(0);
    inst.extend_from_slice(&1u32.to_le_bytes());
    put_referents(&mut inst, &[0]);
    let mut prop = 0u32.to_le_bytes().to_vec();
    put_str(&mut prop, b"Name");
    prop.push(0x01);
    put_str(&mut prop, b"a folder");
    let mut prnt = vec![0u8];
    prnt.extend_from_slice(&1u32.to_le_bytes());
    put_referents(&mut prnt, &[0]);
    put_referents(&mut prnt, &[-1]);
    let unknown = b"sixteen bytes!!!".to_vec();
    let lying = |name: &[u8; 4], payload: &[u8]| -> Vec<u8> {
        let frame = zstd_lying_frame(payload, declared, form);
        let mut c = name.to_vec();
        c.extend_from_slice(&(frame.len() as u32).to_le_bytes());
        let hl = if header_true { payload.len() as u32 } else { declared as u32 };
        c.extend_from_slice(&hl.to_le_bytes());
        c.extend_from_slice(&0u32.to_le_bytes());
        c.extend_from_slice(&frame);
        c
    };
    let mut f = b"<roblox!\x89\xff\x0d\x0a\x1a\x0a".to_vec();
    f.extend_from_slice(&0u16.to_le_bytes());
    f.extend_from_slice(&1u32.to_le_bytes());
    f.extend_from_slice(&1u32.to_le_bytes());
    f.extend_from_slice(&[0u8; 8]);
    f.extend(if which == 0 { lying(b"INST", &inst) } else { frame_chunk(b"INST", &inst, Comp::None) });
    if which == 2 {
        f.extend(lying(b"ZZZZ", &unknown));
    }
    f.extend(if which == 1 { lying(b"PROP", &prop) } else { frame_chunk(b"PROP", &prop, Comp::None) });
    f.extend(if which == 3 { lying(b"PRNT", &prnt) } else { frame_chunk(b"PRNT", &prnt, Comp::None) });
    f.extend(frame_chunk(b"END\0", b"</roblox>", Comp::None));
    f
}

/// File offsets of every count field of an uncompressed binary file: the header's class and
/// instance counts, each INST chunk's instance count, the SSTR and PRNT counts.
fn count_field_offsets(bytes: &[u8]) -> Vec<usize> {
    let mut out = vec![16, 20];
    for (start, end) in chunk_table(bytes) {
        let p = start + 16;
        match &bytes[start..start + 4] {
            b"INST" => {
                if p + 8 <= end {
                    let nl = u32::from_le_bytes(bytes[p + 4..p + 8].try_into().unwrap()) as usize;
                    let off = p + 8 + nl + 1;
                    if off + 4 <= end {
                        out.push(off);
                    }
                }
            }
            b"PRNT" => {
                if p + 5 <= end {
                    out.push(p + 1);
                }
            }
            b"SSTR" => {
                if p + 8 <= end {
                    out.push(p + 4);
                }
            }
            _ => {}
        }
    }
    out
}

const COUNT_LIES: [u32; 3] = [0x0100_0000, 0x7fff_ffff, 0xffff_ffff];

/// every subset of 1..=3 count fields
fn count_subsets(n: usize) -> Vec<Vec<usize>> {
    let mut out = Vec::new();
    for a in 0..n {
        out.push(vec![a]);
        for b in (a + 1)..n {
            out.push(vec![a, b]);
            for c in (b + 1)..n {
                out.push(vec![a, b, c]);
            }
        }
    }
    out
}

fn xml_len(tier: Tier) -> u32 {
    if tier == Tier::Quick {
        5
    } else {
        6
    }
}

impl Engine {
    pub fn new(tier: Tier) -> Engine {
        let corpus = build_corpus();
        let idx = |k: Kind| -> Vec<usize> { corpus.files.iter().enumerate().filter(|(_, f)| f.kind == k).map(|(i, _)| i).collect() };
        let (bin, xml, attr) = (idx(Kind::Bin), idx(Kind::Xml), idx(Kind::Attr));
        let mut xml_muts = Vec::new();
        for &f in &xml {
            for m in xml_mutations(&corpus.files[f].bytes) {
                xml_muts.push((f, m));
            }
        }
        let mut chunk_ops = Vec::new();
        for &f in &bin {
            let n = chunk_table(&corpus.files[f].bytes).len();
            for i in 0..n {
                chunk_ops.push((f, 0u8, i, 0)); // delete
                chunk_ops.push((f, 1u8, i, 0)); // duplicate
                for j in (i + 1)..n {
                    chunk_ops.push((f, 2u8, i, j)); // swap
                }
            }
        }
        // splice chunk i of file a over chunk j of file b (same compression mode)
        let mut splices = Vec::new();
        for &a in &bin {
            for &b in &bin {
                if a == b || corpus.files[a].desc.split('/').nth(1) != corpus.files[b].desc.split('/').nth(1) {
                    continue;
                }
                let na = chunk_table(&corpus.files[a].bytes).len();
                let nb = chunk_table(&corpus.files[b].bytes).len();
                for i in 0..na {
                    for j in 0..nb {
                        splices.push((a, i, b, j));
                    }
                }
            }
        }
        // number of read() calls of the undisturbed decode, per file
        // (in a child with a time limit: a decoder that loops on an intact corpus file must not take
        // the engine with it; such a file is reported and replaced by an empty one)
        let mut read_calls = Vec::new();
        let mut corpus = corpus;
        let mut hung_files: Vec<String> = Vec::new();
        for f in corpus.files.iter_mut() {
            let (kind, bytes) = (f.kind, f.bytes.clone());
            let calls = crate::forkpool::fork_timeout(20, move || {
                let mut r = ScriptedReader::new(&bytes, vec![], false);
                let _ = decode_with(kind, &mut r);
                r.calls
            });
            match calls {
                Some(c) => read_calls.push(c),
                None => {
                    hung_files.push(f.desc.clone());
                    f.bytes = Vec::new();
                    read_calls.push(0);
                }
            }
        }
        // write targets: (plan, codec 0..3 = binary compressions, 3 = xml, output length)
        let mut write_targets = Vec::new();
        let mut write_reference = std::collections::HashMap::new();
        for (p, plan) in corpus.plans.iter().enumerate() {
            let r = plan.realise(How::Nested, None);
            let roots = plan.root_refs(&r);
            for (ci, c) in Compression::all().iter().enumerate() {
                if let Ok(Ok(b)) = crate::codec::binary_encode(&r, &roots, *c) {
                    write_targets.push((p, ci as u8, b.len()));
                    write_reference.insert((p, ci as u8), b);
                }
            }
            if let Ok(Ok(b)) = crate::codec::xml_encode(&r, &roots, XmlMode::Unknown) {
                write_targets.push((p, 3, b.len()));
                write_reference.insert((p, 3u8), b);
            }
        }
        let mut payload_pos = Vec::new();
        for &f in &bin {
            if !corpus.files[f].desc.ends_with("/None") {
                continue;
            }
            for (ci, (start, end)) in chunk_table(&corpus.files[f].bytes).into_iter().enumerate() {
                for pos in 0..(end - start - 16) {
                    payload_pos.push((f, ci, pos));
                }
            }
        }
        let mut xml_tag_pos = Vec::new();
        for &f in &xml {
            for k in 0..xml_tags(&corpus.files[f].bytes).len() {
                xml_tag_pos.push((f, k));
            }
        }
        Engine { corpus, tier, bin, xml, attr, xml_muts, chunk_ops, splices, read_calls, write_targets, payload_pos, write_reference, xml_tag_pos, hung_files }
    }

    fn files_of(&self, family: usize) -> Vec<usize> {
        match family {
            2 | 3 | 10 => self.bin.clone(),
            _ => (0..self.corpus.files.len()).collect(),
        }
    }

    /// prefix sums over files: (file, local index)
    fn locate(&self, files: &[usize], per_file: &dyn Fn(usize) -> u64, mut idx: u64) -> (usize, u64) {
        for &f in files {
            let n = per_file(f);
            if idx < n {
                return (f, idx);
            }
            idx -= n;
        }
        panic!("index out of range");
    }

    pub fn count(&self, family: usize) -> u64 {
        let flen = |f: usize| self.corpus.files[f].bytes.len() as u64;
        match family {
            0 => self.files_of(0).iter().map(|&f| flen(f)).sum(),
            1 => self.files_of(1).iter().map(|&f| flen(f) * 13).sum(),
            2 => self.bin.iter().map(|&f| flen(f).saturating_sub(3) * 7).sum(),
            3 => self.chunk_ops.len() as u64,
            4 => self.xml_muts.len() as u64,
            5 => (0..self.corpus.files.len()).map(|f| self.read_calls[f] as u64 * 3).sum(),
            6 => {
                if self.tier == Tier::Quick {
                    0
                } else {
                    (0..self.corpus.files.len()).map(|f| { let k = self.read_calls[f].min(60) as u64 * 3; k * k }).sum()
                }
            }
            7 => self.write_targets.iter().map(|t| t.2 as u64 * 2).sum(),
            8 => 1 + 256 + 65536 + 16777216,
            9 => (0..=xml_len(self.tier)).map(|l| (XML_SYMS.len() as u64).pow(l)).sum(),
            10 => 32 * 5 + (32 * 31 / 2) * 25,
            11 => 4,
            12 => self.splices.len() as u64,
            13 => (self.corpus.files.len() + self.write_targets.len()) as u64,
            14 | 15 => self.payload_pos.len() as u64 * 3,
            16 => self.corpus.files.len() as u64 * 32,
            17 => (self.xml_tag_pos.len() * LONG_PLACES * LONG_SIZES.len() * LONG_FILLS.len()) as u64,
            18 => (4 * 2 * LONG_SIZES.len() * LONG_FILLS.len()) as u64,
            19 => (4 * 4 * 2 * ZSTD_SIZES.len()) as u64,
            20 => self.write_targets.iter().map(|t| t.2.min(400) as u64 * 3).sum(),
            22 => 4,
            21 => self.bin.iter().filter(|&&f| self.corpus.files[f].desc.ends_with("/None")).map(|&f| (count_subsets(count_field_offsets(&self.corpus.files[f].bytes).len()).len() * COUNT_LIES.len()) as u64).sum(),
            _ => 0,
        }
    }

    fn baseline(&self, f: usize) -> Out {
        decode_with(self.corpus.files[f].kind, self.corpus.files[f].bytes.as_slice())
    }

    /// Executes one case.
    pub fn run_case(&self, family: usize, index: u64, out: &mut SweepOut) {
        let replay = || serde_json::to_value(Replay13 { family, index }).unwrap();
        let fam = FAMILIES[family];
        match family {
            0 => {
                let files = self.files_of(0);
                let (f, l) = self.locate(&files, &|f| self.corpus.files[f].bytes.len() as u64, index);
                let file = &self.corpus.files[f];
                let must_err = file.kind != Kind::Attr;
                judge_decode(file.kind, &file.bytes[..l as usize], "truncated", must_err, out, &replay);
            }
            1 => {
                let files = self.files_of(1);
                let (f, i) = self.locate(&files, &|f| self.corpus.files[f].bytes.len() as u64 * 13, index);
                let file = &self.corpus.files[f];
                let (off, k) = ((i / 13) as usize, (i % 13) as usize);
                let mut b = file.bytes.clone();
                let orig = b[off];
                b[off] = match k {
                    // every single-bit flip
                    5..=12 => orig ^ (1u8 << (k - 5)),
                    0..=4 => {
                        if file.kind == Kind::Xml {
                            [b'<', b'>', b'&', b'"', 0x00][k]
                        } else {
                            SUBST[k]
                        }
                    }
                    _ => unreachable!(),
                };
                judge_decode(file.kind, &b, fam, false, out, &replay);
            }
            2 => {
                let (f, i) = self.locate(&self.bin, &|f| (self.corpus.files[f].bytes.len() as u64).saturating_sub(3) * 7, index);
                let file = &self.corpus.files[f];
                let (off, k) = ((i / 7) as usize, (i % 7) as usize);
                let mut b = file.bytes.clone();
                let cur = u32::from_le_bytes(b[off..off + 4].try_into().unwrap());
                let nv: u32 = match U32S[k] {
                    -1 => cur.wrapping_sub(1),
                    -2 => cur.wrapping_add(1),
                    x => x as u32,
                };
                b[off..off + 4].copy_from_slice(&nv.to_le_bytes());
                judge_decode(file.kind, &b, fam, false, out, &replay);
            }
            3 => {
                let (f, op, i, j) = self.chunk_ops[index as usize];
                let file = &self.corpus.files[f];
                let t = chunk_table(&file.bytes);
                let mut order: Vec<usize> = (0..t.len()).collect();
                match op {
                    0 => {
                        order.remove(i);
                    }
                    1 => order.insert(i, i),
                    _ => order.swap(i, j),
                }
                let mut b = file.bytes[..32].to_vec();
                for k in order {
                    b.extend_from_slice(&file.bytes[t[k].0..t[k].1]);
                }
                judge_decode(Kind::Bin, &b, fam, false, out, &replay);
            }
            4 => {
                let (_, m) = &self.xml_muts[index as usize];
                judge_decode(Kind::Xml, m, fam, false, out, &replay);
            }
            5 | 6 => {
                let all: Vec<usize> = (0..self.corpus.files.len()).collect();
                let per = |f: usize| -> u64 {
                    if family == 5 {
                        self.read_calls[f] as u64 * 3
                    } else {
                        let k = self.read_calls[f].min(60) as u64 * 3;
                        k * k
                    }
                };
                let (f, i) = self.locate(&all, &per, index);
                let file = &self.corpus.files[f];
                let devs = [Dev::Short1, Dev::ShortHalf, Dev::Interrupted];
                let script: Vec<(usize, Dev)> = if family == 5 {
                    vec![((i / 3) as usize, devs[(i % 3) as usize])]
                } else {
                    let k = self.read_calls[f].min(60) as u64 * 3;
                    let (a, b) = (i / k, i % k);
                    vec![((a / 3) as usize, devs[(a % 3) as usize]), ((b / 3) as usize, devs[(b % 3) as usize])]
                };
                let base = self.baseline(f);
                let mut r = ScriptedReader::new(&file.bytes, script.clone(), false);
                let got = decode_with(file.kind, &mut r);
                out.executions += 1;
                if got != base {
                    let dev_kinds: BTreeSet<String> = script.iter().map(|s| format!("{:?}", s.1)).collect();
                    out.violation(
                        format!("c13|{}|read-partition|{}", kind_name(file.kind), dev_kinds.into_iter().collect::<Vec<_>>().join("+")),
                        format!("{}: result depends on how read() delivers the bytes: script {:?} on {} gives {:?}, a single full read gives {:?}", kind_name(file.kind), script, file.desc, short_out(&got), short_out(&base)),
                        &replay,
                    );
                }
                out.outcome("read-script");
            }
            7 => {
                let mut idx = index;
                let mut target = None;
                for t in &self.write_targets {
                    let n = t.2 as u64 * 2;
                    if idx < n {
                        target = Some((*t, idx));
                        break;
                    }
                    idx -= n;
                }
                let ((p, codec, _len), i) = target.expect("write target");
                let (limit, mode) = ((i / 2) as usize, if i % 2 == 0 { WMode::Err } else { WMode::Zero });
                let plan = &self.corpus.plans[p];
                let r = plan.realise(How::Nested, None);
                let roots = plan.root_refs(&r);
                let mut w = FailingWriter { limit, mode, written: 0, failed: false };
                let res = crate::evidence::guarded(|| -> Result<(), ()> {
                    if codec < 3 {
                        rbx_binary::Serializer::new().compression_type(Compression::all()[codec as usize].real()).serialize(&mut w, &r.dom, &roots).map_err(|_| ())
                    } else {
                        rbx_xml::to_writer(&mut w, &r.dom, &roots, xml_options(XmlMode::Unknown).0).map_err(|_| ())
                    }
                });
                out.executions += 1;
                let name = if codec < 3 { "rbx_binary::to_writer" } else { "rbx_xml::to_writer" };
                match res {
                    Err((site, msg)) => out.violation(
                        format!("c13|{}|panic|{}", name, crate::evidence::panic_signature(&site, &msg)),
                        format!("{} panicked when the sink failed after {} bytes ({:?}): {} {}", name, limit, mode, site, msg),
                        &replay,
                    ),
                    Ok(Ok(())) => out.violation(
                        format!("c13|{}|reports-success-after-sink-failure|{:?}", name, mode),
                        format!("{} returned Ok although the sink failed after {} bytes ({:?}, sink saw a failing write: {})", name, limit, mode, w.failed),
                        &replay,
                    ),
                    Ok(Err(())) => {}
                }
                // a failed write must not leave anything behind: the next write of the same tree
                // (same thread) is byte-identical to one made before any failure
                let clean = |dom: &rbx_dom_weak::WeakDom| -> Option<Vec<u8>> {
                    crate::evidence::guarded(|| {
                        let mut v = Vec::new();
                        let ok = if codec < 3 {
                            rbx_binary::Serializer::new().compression_type(Compression::all()[codec as usize].real()).serialize(&mut v, dom, &roots).is_ok()
                        } else {
                            rbx_xml::to_writer(&mut v, dom, &roots, xml_options(XmlMode::Unknown).0).is_ok()
                        };
                        if ok { Some(v) } else { None }
                    })
                    .ok()
                    .flatten()
                };
                if let Some(after) = clean(&r.dom) {
                    let reference = self.write_reference.get(&(p, codec));
                    if let Some(reference) = reference {
                        if &after != reference {
                            out.violation(
                                format!("c13|{}|state-left-by-failed-write", name),
                                format!("{}: after a write that failed at byte {} ({:?}) the next write of the same tree differs from the reference output", name, limit, mode),
                                &replay,
                            );
                        }
                    }
                }
                out.outcome("write-fault");
            }
            8 => {
                // all byte strings of length <= 3
                let bytes: Vec<u8> = if index == 0 {
                    vec![]
                } else if index < 1 + 256 {
                    vec![(index - 1) as u8]
                } else if index < 1 + 256 + 65536 {
                    let x = index - 257;
                    vec![(x >> 8) as u8, x as u8]
                } else {
                    let x = index - 257 - 65536;
                    vec![(x >> 16) as u8, (x >> 8) as u8, x as u8]
                };
                // cheap path: no replay closure allocation unless needed
                let o = decode_with(Kind::Attr, bytes.as_slice());
                out.executions += 1;
                if let Out::Panic(sig) = o {
                    out.violation(format!("c13|Attributes::from_reader|panic|{}", sig), format!("Attributes::from_reader panicked on bytes {:02x?}: {}", bytes, sig), &replay);
                }
            }
            9 => {
                let n = XML_SYMS.len() as u64;
                let mut idx = index;
                let mut len = 0u32;
                loop {
                    let c = n.pow(len);
                    if idx < c {
                        break;
                    }
                    idx -= c;
                    len += 1;
                }
                let mut s = Vec::with_capacity(len as usize);
                for _ in 0..len {
                    s.push(XML_SYMS[(idx % n) as usize]);
                    idx /= n;
                }
                let text = String::from_utf8(s).unwrap();
                let res = crate::evidence::guarded(|| rbx_xml::from_str_default(&text).is_ok());
                out.executions += 1;
                if let Err((site, msg)) = res {
                    let sig = crate::evidence::panic_signature(&site, &msg);
                    out.violation(format!("c13|rbx_xml::from_str|panic|{}", sig), format!("rbx_xml::from_str panicked on {:?}: {}", text, sig), &replay);
                }
            }
            10 => {
                let file = &self.corpus.files[self.bin[1]]; // plan1 / None
                let mut b = file.bytes.clone();
                if index < 160 {
                    b[(index / 5) as usize] = SUBST[(index % 5) as usize];
                } else {
                    let x = index - 160;
                    let pair = x / 25;
                    let vals = x % 25;
                    // pair index -> (i, j), i < j
                    let (mut i, mut rem) = (0u64, pair);
                    while rem >= 31 - i {
                        rem -= 31 - i;
                        i += 1;
                    }
                    let j = i + 1 + rem;
                    b[i as usize] = SUBST[(vals / 5) as usize];
                    b[j as usize] = SUBST[(vals % 5) as usize];
                }
                judge_decode(Kind::Bin, &b, fam, false, out, &replay);
            }
            22 => {
                // a legal, deeply nested *binary* file (written by the real writer, which must cope
                // as well): Ok or Err, not a dead process
                let depth = [1000usize, 10_000, 100_000, 300_000][index as usize];
                let mut dom = rbx_dom_weak::WeakDom::new(rbx_dom_weak::InstanceBuilder::new("DataModel"));
                let mut parent = dom.root_ref();
                for _ in 0..depth {
                    parent = dom.insert(parent, rbx_dom_weak::InstanceBuilder::new("Folder").with_name("d"));
                }
                let roots = dom.root().children().to_vec();
                let written = crate::evidence::guarded(|| {
                    let mut v = Vec::new();
                    rbx_binary::to_writer(&mut v, &dom, &roots).map(|_| v).map_err(|e| e.to_string())
                });
                out.executions += 2;
                match written {
                    Err((site, msg)) => out.violation(format!("c13|rbx_binary::to_writer|panic|{}", crate::evidence::panic_signature(&site, &msg)), format!("nesting depth {}: {} {}", depth, site, msg), &replay),
                    Ok(Err(_)) => {}
                    // (counted through the iterator: the harness's own forest digest recurses)
                    Ok(Ok(bytes)) => match crate::evidence::guarded(|| rbx_binary::from_reader(bytes.as_slice()).map(|d| d.descendants().count()).map_err(|e| e.to_string())) {
                        Err((site, msg)) => out.violation(format!("c13|rbx_binary::from_reader|panic|{}", crate::evidence::panic_signature(&site, &msg)), format!("nesting depth {}: {} {}", depth, site, msg), &replay),
                        Ok(Err(e)) => out.violation("c13|rbx_binary::from_reader|deep-binary|rejected".to_owned(), format!("a legal file nested {} deep, written by rbx_binary itself, is rejected: {}", depth, e), &replay),
                        Ok(Ok(n)) => {
                            if n != depth + 1 {
                                out.violation("c13|rbx_binary::from_reader|deep-binary|count".to_owned(), format!("a file nested {} deep decodes to {} instances", depth, n), &replay);
                            }
                        }
                    },
                }
                out.outcome("deep-binary");
            }
            11 => {
                let depth = [1000usize, 5000, 20000, 100000][index as usize];
                let mut s = String::from("<roblox version=\"4\">");
                for i in 0..depth {
                    s.push_str(&format!("<Item class=\"Folder\" referent=\"{}\"><Properties><string name=\"Name\">d</string></Properties>", i));
                }
                for _ in 0..depth {
                    s.push_str("</Item>");
                }
                s.push_str("</roblox>");
                // a legal, deeply nested document: must come back as Ok or Err, not abort the process
                let o = decode_with(Kind::Xml, s.as_bytes());
                out.executions += 1;
                if let Out::Panic(sig) = o {
                    out.violation(format!("c13|rbx_xml::from_reader|panic|{}", sig), format!("nesting depth {}: {}", depth, sig), &replay);
                }
                out.outcome("deep-xml");
            }
            12 => {
                let (a, i, bf, j) = self.splices[index as usize];
                let fa = &self.corpus.files[a];
                let fb = &self.corpus.files[bf];
                let ta = chunk_table(&fa.bytes);
                let tb = chunk_table(&fb.bytes);
                let mut b = fb.bytes[..tb[j].0].to_vec();
                b.extend_from_slice(&fa.bytes[ta[i].0..ta[i].1]);
                b.extend_from_slice(&fb.bytes[tb[j].1..]);
                judge_decode(Kind::Bin, &b, fam, false, out, &replay);
            }
            21 => {
                // several count fields of one file state the same wrong (huge) number
                let files: Vec<usize> = self.bin.iter().copied().filter(|&f| self.corpus.files[f].desc.ends_with("/None")).collect();
                let per = |f: usize| (count_subsets(count_field_offsets(&self.corpus.files[f].bytes).len()).len() * COUNT_LIES.len()) as u64;
                let (f, i) = self.locate(&files, &per, index);
                let file = &self.corpus.files[f];
                let offs = count_field_offsets(&file.bytes);
                let subsets = count_subsets(offs.len());
                let (subset, lie) = (&subsets[(i as usize) / COUNT_LIES.len()], COUNT_LIES[(i as usize) % COUNT_LIES.len()]);
                let mut b = file.bytes.clone();
                for k in subset {
                    b[offs[*k]..offs[*k] + 4].copy_from_slice(&lie.to_le_bytes());
                }
                judge_decode(Kind::Bin, &b, fam, false, out, &replay);
            }
            20 => {
                let mut idx = index;
                let mut target = None;
                for t in &self.write_targets {
                    let n = t.2.min(400) as u64 * 3;
                    if idx < n {
                        target = Some((*t, idx));
                        break;
                    }
                    idx -= n;
                }
                let ((p, codec, len), i) = target.expect("write target");
                let (slot, mode) = ((i / 3) as usize, (i % 3) as u8);
                // every offset of short outputs, 400 evenly spread offsets of longer ones
                let at = if len <= 400 { slot } else { slot * len / 400 };
                let plan = &self.corpus.plans[p];
                let r = plan.realise(How::Nested, None);
                let roots = plan.root_refs(&r);
                let mut w = BenignWriter { at, mode, fired: false, data: Vec::new() };
                let res = crate::evidence::guarded(|| -> Result<(), String> {
                    if codec < 3 {
                        rbx_binary::Serializer::new().compression_type(Compression::all()[codec as usize].real()).serialize(&mut w, &r.dom, &roots).map_err(|e| e.to_string())
                    } else {
                        rbx_xml::to_writer(&mut w, &r.dom, &roots, xml_options(XmlMode::Unknown).0).map_err(|e| e.to_string())
                    }
                });
                out.executions += 1;
                let name = if codec < 3 { "rbx_binary::to_writer" } else { "rbx_xml::to_writer" };
                let what = ["an Interrupted error (to be retried)", "a one-byte short write", "a WouldBlock error"][mode as usize];
                match (res, mode) {
                    (Err((site, msg)), _) => out.violation(format!("c13|{}|panic|{}", name, crate::evidence::panic_signature(&site, &msg)), format!("{} panicked when the sink answered a write at byte {} with {}: {} {}", name, at, what, site, msg), &replay),
                    (Ok(Ok(())), 2) => {
                        if w.fired {
                            out.violation(format!("c13|{}|reports-success-after-sink-failure|WouldBlock", name), format!("{} returned Ok although the sink refused a write at byte {} with WouldBlock", name, at), &replay);
                        }
                    }
                    (Ok(Err(_)), 2) => {}
                    (Ok(Err(e)), _) => out.violation(format!("c13|{}|fails-on-benign-sink|{}", name, mode), format!("{} failed ({}) although the sink only answered one write at byte {} with {}", name, e, at, what), &replay),
                    (Ok(Ok(())), _) => {
                        if let Some(reference) = self.write_reference.get(&(p, codec)) {
                            if &w.data != reference {
                                out.violation(format!("c13|{}|output-differs-on-benign-sink|{}", name, mode), format!("{}: after {} at byte {} the sink holds {} bytes that differ from the reference output ({} bytes)", name, what, at, w.data.len(), reference.len()), &replay);
                            }
                        }
                    }
                }
                out.outcome("write-benign");
            }
            19 => {
                let i = index as usize;
                let declared = ZSTD_SIZES[i % ZSTD_SIZES.len()];
                let rest = i / ZSTD_SIZES.len();
                let (header_true, form, which) = (rest % 2 == 1, (rest / 2) % 4, rest / 8);
                let b = zstd_size_fields_file(which, form, declared, header_true);
                judge_decode(Kind::Bin, &b, fam, false, out, &replay);
            }
            18 => {
                let nv = (LONG_SIZES.len() * LONG_FILLS.len()) as u64;
                let (var, rest) = ((index % nv) as usize, index / nv);
                let (cut, variant) = (rest % 2 == 1, (rest / 2) as usize);
                let size = LONG_SIZES[var % LONG_SIZES.len()];
                let fill = LONG_FILLS[var / LONG_SIZES.len()];
                let b = bin_long_names(variant, cut, size, fill);
                let o = judge_decode(Kind::Bin, &b, fam, false, out, &replay);
                // the well-formed variants are legal files (names are byte strings with a length)
                if (variant == 0 || variant == 3) && !cut {
                    if let Out::Err = &o {
                        out.violation(
                            format!("c13|{}|{}|rejected", kind_name(Kind::Bin), fam),
                            format!("a well-formed file with {}-byte names ({:?} repeated) is rejected", size, fill),
                            &replay,
                        );
                    }
                }
            }
            17 => {
                let nv = (LONG_SIZES.len() * LONG_FILLS.len()) as u64;
                let (var, rest) = (index % nv, index / nv);
                let (place, pos) = ((rest % LONG_PLACES as u64) as usize, (rest / LONG_PLACES as u64) as usize);
                let (f, k) = self.xml_tag_pos[pos];
                let text = &self.corpus.files[f].bytes;
                let tag = xml_tags(text)[k];
                let size = LONG_SIZES[(var as usize) % LONG_SIZES.len()];
                let fill = LONG_FILLS[(var as usize) / LONG_SIZES.len()];
                match xml_long_variant(text, tag, place, size, fill) {
                    Some(m) => {
                        judge_decode(Kind::Xml, &m, fam, false, out, &replay);
                    }
                    None => out.outcome("not-applicable"),
                }
            }
            16 => {
                // state that survives a failed decode: a valid file decoded right after a rejected
                // one (same thread) gives what it gives on its own
                let f = (index / 32) as usize;
                let k = (index % 32) as usize;
                let file = &self.corpus.files[f];
                let cut = file.bytes.len() * k / 32;
                let mut bad = file.bytes[..cut].to_vec();
                if k % 2 == 1 {
                    bad.extend_from_slice(&[0xff, 0x00, 0x7f]);
                }
                let _ = decode_with(file.kind, bad.as_slice());
                let got = decode_with(file.kind, file.bytes.as_slice());
                out.executions += 2;
                if got != self.baseline(f) {
                    out.violation(
                        format!("c13|{}|state-left-by-failed-decode", kind_name(file.kind)),
                        format!("{}: decoding {} right after a rejected input (its first {} bytes) gives {:?} instead of {:?}", kind_name(file.kind), file.desc, cut, short_out(&got), short_out(&self.baseline(f))),
                        &replay,
                    );
                }
                out.outcome("decode-after-failure");
            }
            14 | 15 => {
                // a chunk whose payload is shorter than its content needs, in a correctly framed file:
                // the payload is cut at `pos` (14) or loses the byte at `pos` (15), the header length is
                // fixed up, and the chunk is stored uncompressed / as LZ4 literals / as a raw zstd frame
                let (f, ci, pos) = self.payload_pos[(index / 3) as usize];
                let comp = [crate::specbin::enc::Comp::None, crate::specbin::enc::Comp::Lz4Literal, crate::specbin::enc::Comp::ZstdRaw][(index % 3) as usize];
                let file = &self.corpus.files[f];
                let t = chunk_table(&file.bytes);
                let (start, end) = t[ci];
                let payload = &file.bytes[start + 16..end];
                let mut np = payload[..pos].to_vec();
                if family == 15 {
                    np.extend_from_slice(&payload[pos + 1..]);
                }
                let mut name = [0u8; 4];
                name.copy_from_slice(&file.bytes[start..start + 4]);
                let mut b = file.bytes[..start].to_vec();
                b.extend(crate::specbin::enc::frame_chunk(&name, &np, comp));
                b.extend_from_slice(&file.bytes[end..]);
                judge_decode(Kind::Bin, &b, fam, false, out, &replay);
            }
            13 => {
                let nf = self.corpus.files.len() as u64;
                if index < nf {
                    let f = index as usize;
                    let file = &self.corpus.files[f];
                    let base = self.baseline(f);
                    let mut r = ScriptedReader::new(&file.bytes, vec![], true);
                    let got = decode_with(file.kind, &mut r);
                    out.executions += 1;
                    if got != base {
                        out.violation(
                            format!("c13|{}|read-partition|one-byte-reader", kind_name(file.kind)),
                            format!("{}: a reader that delivers one byte per read() gives {:?}, a full read gives {:?} ({})", kind_name(file.kind), short_out(&got), short_out(&base), file.desc),
                            &replay,
                        );
                    }
                } else {
                    let (p, codec, _) = self.write_targets[(index - nf) as usize];
                    let plan = &self.corpus.plans[p];
                    let r = plan.realise(How::Nested, None);
                    let roots = plan.root_refs(&r);
                    let mut w = OneByteWriter { data: Vec::new() };
                    let mut full = Vec::new();
                    let res = crate::evidence::guarded(|| -> Result<(), String> {
                        if codec < 3 {
                            let s = rbx_binary::Serializer::new().compression_type(Compression::all()[codec as usize].real());
                            s.serialize(&mut w, &r.dom, &roots).map_err(|e| e.to_string())?;
                            s.serialize(&mut full, &r.dom, &roots).map_err(|e| e.to_string())
                        } else {
                            rbx_xml::to_writer(&mut w, &r.dom, &roots, xml_options(XmlMode::Unknown).0).map_err(|e| e.to_string())?;
                            rbx_xml::to_writer(&mut full, &r.dom, &roots, xml_options(XmlMode::Unknown).0).map_err(|e| e.to_string())
                        }
                    });
                    out.executions += 1;
                    let name = if codec < 3 { "rbx_binary::to_writer" } else { "rbx_xml::to_writer" };
                    match res {
                        Ok(Ok(())) => {
                            if w.data != full {
                                out.violation(format!("c13|{}|partial-writes-lose-data", name), format!("{} into a sink that accepts one byte per write() produced {} bytes instead of {}", name, w.data.len(), full.len()), &replay);
                            }
                        }
                        Ok(Err(e)) => out.violation(format!("c13|{}|partial-writes-error", name), format!("{} fails on a sink that accepts one byte per write(): {}", name, e), &replay),
                        Err((site, msg)) => out.violation(format!("c13|{}|panic|{}", name, crate::evidence::panic_signature(&site, &msg)), format!("{} panicked: {} {}", name, site, msg), &replay),
                    }
                }
                out.outcome("one-byte-io");
            }
            _ => {}
        }
    }
}

fn short_out(o: &Out) -> String {
    match o {
        Out::Ok(d) => format!("Ok({})", &d[..d.len().min(12)]),
        Out::Err => "Err".into(),
        Out::Panic(s) => format!("panic {}", s),
    }
}

pub fn check(run: &Run) -> Value {
    let tier = run.tier;
    let engine = Engine::new(tier);
    for desc in &engine.hung_files {
        run.violation(
            "c13|decoder|hang-or-abort|intact-corpus-file",
            &format!("decoding the intact corpus file {} does not finish within 20 s (or kills the process): a decoder must return Ok or Err", desc),
            || json!({"corpus_file": desc}),
        );
    }
    let mut batches = Vec::new();
    let mut family_counts = BTreeMap::new();
    for fam in 0..FAMILIES.len() {
        let n = engine.count(fam);
        family_counts.insert(FAMILIES[fam].to_owned(), n);
        let size: u64 = match fam {
            8 => 400_000,
            9 => 40_000,
            11 => 1,
            5 | 6 | 7 | 13 => 500,
            _ => 2_000,
        };
        let mut s = 0;
        while s < n {
            let e = (s + size).min(n);
            batches.push(Batch { id: batches.len(), family: fam, start: s, end: e });
            s = e;
        }
    }
    let procs = crate::forkpool::default_procs();
    let eng = &engine;
    let res = crate::crashpool::run_batches(&batches, procs, Duration::from_secs(20), 3u64 << 30, |b, skip, progress| {
        let mut out = SweepOut::default();
        for i in b.start..b.end {
            if skip.contains(&i) {
                continue;
            }
            progress(i);
            out.cases += 1;
            eng.run_case(b.family, i, &mut out);
        }
        out
    });
    let mut total = SweepOut::default();
    for (_, o) in res.done {
        total.merge(o);
    }
    let mut abnormal_summary: BTreeMap<String, u64> = BTreeMap::new();
    for (b, idx, ab) in &res.abnormal {
        let (class, detail) = match ab {
            Abnormal::TimedOut { seconds } => ("timeout".to_owned(), format!("no progress for {} s", seconds)),
            Abnormal::Crashed { status, stderr_tail } => {
                let site = stderr_tail.split("| site ").nth(1).unwrap_or("").trim().to_owned();
                let class = if stderr_tail.contains("memory allocation of") {
                    format!("abort:alloc|{}", site)
                } else if stderr_tail.contains("overflowed its stack") {
                    "abort:stack".to_owned()
                } else {
                    format!("abort:other|{}", site)
                };
                (class, format!("wait status {:#x}; stderr: {}", status, stderr_tail.chars().take(300).collect::<String>()))
            }
        };
        *abnormal_summary.entry(format!("{}|{}", FAMILIES[b.family], class)).or_insert(0) += 1;
        total.cases += 1;
        total.executions += 1;
        total.violation(
            format!("c13|{}|{}", FAMILIES[b.family], class),
            format!("the process died or hung while handling case {} of family {}: {}", idx, FAMILIES[b.family], detail),
            || serde_json::to_value(Replay13 { family: b.family, index: *idx }).unwrap(),
        );
    }
    if !res.abandoned.is_empty() {
        println!("C13: {} batches abandoned (more than 200 abnormal cases in one batch, or more than 12 hangs overall)", res.abandoned.len());
    }
    total.report(run);
    println!(
        "C13: families {:?}; cases={} executions={} outcomes={:?} abnormal={:?}",
        family_counts, total.cases, total.executions, total.outcomes, abnormal_summary
    );
    json!({
        "evaluations": total.executions,
        "distinct_nontrivial": total.cases,
        "states": total.cases,
        "transitions": total.executions,
        "traces_validated_against_impl": total.executions,
        "cases_per_family": family_counts,
        "corpus": engine.corpus.files.iter().map(|f| json!({"file": f.desc, "bytes": f.bytes.len()})).collect::<Vec<_>>(),
        "outcomes": total.outcomes,
        "abnormal_terminations": abnormal_summary,
        "abandoned_batches": res.abandoned.len(),
        "samples": [
            {"family": "truncation", "case": "every strict prefix (every byte offset) of every corpus file"},
            {"family": "read-script-1", "case": "plan1/None with Short(1) at read() call #3"},
            {"family": "write-fault", "case": "plan2 / rbx_xml / sink fails after 17 bytes with Err"},
            {"family": "xml-all-strings", "case": "<a/>"},
        ],
        "exhaustive": res.abandoned.is_empty(),
        "rule": "fault enumeration around the real decoders/encoders: every strict prefix of every corpus file; every single-byte substitution from a 5-value set and every single-bit flip at every offset; every chunk payload cut at every length and with every single byte deleted, re-framed consistently (uncompressed / LZ4 literals / raw zstd); every u32 window of every binary file set to 7 boundary values; every chunk deleted / duplicated / swapped / spliced from another file; every tag / attribute / text-node mutation of every XML file; every read() script with <=1 (thorough: <=2) deviations {Short(1), Short(half), Interrupted} and the one-byte reader; a failing sink at every output offset (Err and Ok(0)), a one-byte sink, and a sink that once answers with Interrupted / a one-byte short write (output must be complete and identical) or WouldBlock (must fail); all byte strings of length <=3 into Attributes::from_reader; all strings of length <=5 (thorough 6) over a 14-symbol XML alphabet into rbx_xml::from_str; all binary headers differing from a valid one in <=2 bytes over a 5-value alphabet; legal XML nested 1000..100000 deep; legal binary files nested 1000..300000 deep (written and read); runs of 1..65537 bytes of one- to four-byte characters as stray text, CDATA, tag name and attribute value at every tag of every XML file, and as class name / property name / string value of hand-assembled binary files (well-formed, unknown type id, missing payload); hand-made Zstandard frames whose content-size field (absent / 2 / 4 / 8 bytes wide) and chunk header length state the same wrong size (10 sizes up to 2^64-1) for each of four chunk kinds; every subset of 1..3 count fields (header class / instance counts, INST, SSTR, PRNT counts) of every uncompressed corpus file set to the same huge value. A case is one (family, index) pair.",
    })
}

pub fn replay(case: &Value) -> Vec<(String, String)> {
    if let Some(desc) = case.get("corpus_file").and_then(|v| v.as_str()) {
        // Engine::new decodes every intact corpus file in a child with a time limit
        let engine = Engine::new(Tier::Quick);
        return engine
            .hung_files
            .iter()
            .filter(|d| d.as_str() == desc)
            .map(|d| ("c13|decoder|hang-or-abort|intact-corpus-file".to_owned(), format!("decoding the intact corpus file {} does not finish within 20 s (or kills the process)", d)))
            .collect();
    }
    let r: Replay13 = serde_json::from_value(case.clone()).unwrap_or_else(|e| crate::evidence::machinery_failure(&format!("bad replay: {}", e)));
    let engine = Engine::new(Tier::Thorough);
    let mut a = SweepOut::default();
    engine.run_case(r.family, r.index, &mut a);
    let mut b = SweepOut::default();
    engine.run_case(r.family, r.index, &mut b);
    let ka: Vec<&String> = a.violations.keys().collect();
    let kb: Vec<&String> = b.violations.keys().collect();
    if ka != kb {
        crate::evidence::machinery_failure("replay gave two different observations");
    }
    a.violations.into_iter().map(|(k, (_, w, _))| (k, w)).collect()
}
