//! C08: same-class instances with different property subsets (canonical, alias
//! and migrating legacy spellings) — binary serialization succeeds whenever each
//! instance serializes alone, independent of sibling order, and every instance
//! reads back with its own values or the class default, never a sibling's.

use std::collections::BTreeMap;

use rbx_dom_weak::{InstanceBuilder, WeakDom};
use rbx_types::{BrickColor, Color3, Color3uint8, Enum, Font, FontStyle, FontWeight, Variant, Vector3};
use serde::{Deserialize, Serialize};
use serde_json::{json, Value};

use crate::codec::{expect_binary_value, neutral};
use crate::evidence::{Run, Tier};
use crate::specdb::{self, Lookup, Ser};
use crate::sweeps::{run_cases, SweepOut};
use crate::vals::{render, FloatMode};

fn r(v: &Variant) -> String {
    render(v, FloatMode::Exact, &|x| x.to_string())
}

/// One logical property of a class menu: the spellings it can be given under.
struct Logical {
    /// (spelling, value for instance i)
    spellings: Vec<(&'static str, fn(usize) -> Variant)>,
    /// one more configuration: the instance carries these two plain spellings at once, with
    /// the *same* value (so that "the value it had" stays unambiguous)
    both: Option<(&'static str, &'static str, fn(usize) -> Variant)>,
}

fn menus(class: &str) -> Vec<Logical> {
    fn size(i: usize) -> Variant {
        Variant::Vector3(Vector3::new(1.0 + i as f32, 2.0 + i as f32, 3.5 + i as f32))
    }
    fn color3(i: usize) -> Variant {
        Variant::Color3(Color3::new(0.1 + 0.2 * i as f32, 0.25, 1.0))
    }
    fn color8(i: usize) -> Variant {
        Variant::Color3uint8(Color3uint8::new(10 + 40 * i as u8, 20, 30))
    }
    fn brick(i: usize) -> Variant {
        Variant::BrickColor(BrickColor::from_number([21u16, 23, 1004][i % 3]).unwrap())
    }
    fn anchored(i: usize) -> Variant {
        Variant::Bool(i % 2 == 0)
    }
    fn foo(i: usize) -> Variant {
        Variant::Int32(100 + i as i32)
    }
    fn bar(i: usize) -> Variant {
        Variant::String(format!("bar{}", i))
    }
    fn font_enum(i: usize) -> Variant {
        Variant::Enum(Enum::from_u32([1u32, 19, 45][i % 3]))
    }
    fn font_face(i: usize) -> Variant {
        Variant::Font(Font::new("rbxasset://fonts/families/Custom.json", [FontWeight::Thin, FontWeight::Bold, FontWeight::Heavy][i % 3], FontStyle::Italic))
    }
    fn text(i: usize) -> Variant {
        Variant::String(format!("text{}", i))
    }
    fn ignore_inset(i: usize) -> Variant {
        Variant::Bool(i % 2 == 1)
    }
    fn insets(_i: usize) -> Variant {
        Variant::Enum(Enum::from_u32(0))
    }
    fn enabled(i: usize) -> Variant {
        Variant::Bool(i % 2 == 1)
    }
    fn mesh_id(i: usize) -> Variant {
        Variant::ContentId(rbx_types::ContentId::from(format!("rbxassetid://{}", 100 + i)))
    }
    fn mesh_content(i: usize) -> Variant {
        Variant::Content(rbx_types::Content::from_uri(format!("rbxassetid://{}", 200 + i)))
    }
    fn dist_a(i: usize) -> Variant {
        Variant::Float32(10.0 + i as f32)
    }
    fn dist_b(i: usize) -> Variant {
        Variant::Float32(200.0 + i as f32)
    }
    fn uid(i: usize) -> Variant {
        Variant::UniqueId(rbx_types::UniqueId::new(i as u32 + 1, 7, 9))
    }
    match class {
        // a property whose values must be unique within a DOM: the default (nil) can be shown by
        // one instance only
        "Folder" => vec![
            Logical { spellings: vec![("UniqueId", uid)], both: None },
            Logical { spellings: vec![("ZzFoo", foo)], both: None },
        ],
        "Part" => vec![
            Logical { spellings: vec![("Size", size), ("size", size)], both: Some(("Size", "size", size)) },
            Logical { spellings: vec![("Color", color3), ("Color3uint8", color8), ("BrickColor", brick), ("brickColor", brick)], both: Some(("Color", "Color3uint8", color8)) },
            Logical { spellings: vec![("Anchored", anchored)], both: None },
            Logical { spellings: vec![("ZzFoo", foo)], both: None },
        ],
        "TextLabel" => vec![
            Logical { spellings: vec![("Font", font_enum), ("FontFace", font_face)], both: None },
            Logical { spellings: vec![("Text", text)], both: None },
            Logical { spellings: vec![("ZzFoo", foo)], both: None },
        ],
        "ScreenGui" => vec![
            Logical { spellings: vec![("IgnoreGuiInset", ignore_inset), ("ScreenInsets", insets)], both: None },
            Logical { spellings: vec![("Enabled", enabled)], both: None },
            Logical { spellings: vec![("ZzFoo", foo)], both: None },
        ],
        // a class with several migrating properties of different targets
        "MeshPart" => vec![
            Logical { spellings: vec![("MeshId", mesh_id), ("MeshContent", mesh_content)], both: None },
            Logical { spellings: vec![("TextureID", mesh_id), ("TextureContent", mesh_content)], both: None },
            Logical { spellings: vec![("BrickColor", brick), ("Color3uint8", color8)], both: None },
        ],
        // two canonical properties of the bundled database that are stored under one serialized name
        "Sound" => vec![
            Logical { spellings: vec![("MaxDistance", dist_a), ("RollOffMaxDistance", dist_b)], both: None },
            Logical { spellings: vec![("Volume", dist_a)], both: None },
            Logical { spellings: vec![("ZzFoo", foo)], both: None },
        ],
        _ => vec![
            Logical { spellings: vec![("ZzFoo", foo)], both: None },
            Logical { spellings: vec![("ZzBar", bar)], both: None },
            Logical { spellings: vec![("ZzBaz", anchored)], both: None },
        ],
    }
}

pub const CLASSES: [&str; 7] = ["Part", "TextLabel", "ScreenGui", "ZzUnknown", "Sound", "MeshPart", "Folder"];

/// An instance configuration: per logical property 0 = absent, k = spelling k-1.
fn config_count(class: &str) -> usize {
    menus(class).iter().map(|l| l.spellings.len() + 1 + l.both.is_some() as usize).product()
}

fn decode_config(class: &str, mut code: usize) -> Vec<usize> {
    menus(class)
        .iter()
        .map(|l| {
            let n = l.spellings.len() + 1 + l.both.is_some() as usize;
            let c = code % n;
            code /= n;
            c
        })
        .collect()
}

#[derive(Clone, Debug, Serialize, Deserialize)]
pub struct Case08 {
    pub class: String,
    /// configuration code of each instance, in sibling order
    pub configs: Vec<usize>,
}

fn props_for(class: &str, code: usize, i: usize) -> Vec<(String, Variant)> {
    let m = menus(class);
    let cfg = decode_config(class, code);
    let mut out = Vec::new();
    for (l, c) in m.iter().zip(cfg) {
        if c > l.spellings.len() {
            let (a, b, f) = l.both.expect("both configuration");
            out.push((a.to_owned(), f(i)));
            out.push((b.to_owned(), f(i)));
        } else if c > 0 {
            let (name, f) = l.spellings[c - 1];
            out.push((name.to_owned(), f(i)));
        }
    }
    out
}

fn build(class: &str, configs: &[(usize, usize)]) -> WeakDom {
    // configs: (config code, value index)
    let mut root = InstanceBuilder::new("DataModel");
    for (k, (code, i)) in configs.iter().enumerate() {
        let mut b = InstanceBuilder::new(class).with_name(format!("inst{}", k));
        for (n, v) in props_for(class, *code, *i) {
            b = b.with_property(n.as_str(), v);
        }
        root = root.with_child(b);
    }
    WeakDom::new(root)
}

fn serialize(dom: &WeakDom) -> Result<Result<Vec<u8>, String>, (String, String)> {
    let roots = dom.root().children().to_vec();
    crate::evidence::guarded(|| {
        let mut buf = Vec::new();
        rbx_binary::to_writer(&mut buf, dom, &roots).map(|_| buf).map_err(|e| e.to_string())
    })
}

/// canonical name + expected rendered value of a given property after the round trip
fn expected_own(class: &str, name: &str, v: &Variant) -> Option<(String, String)> {
    match specdb::lookup(class, name) {
        Lookup::Known(k) => {
            if let Ser::Migrate { to, migration } = &k.ser {
                let nv = migration.perform(v).ok()?;
                let (n, ev) = expect_binary_value(class, to, &nv)?;
                return Some((n, r(&ev)));
            }
            let (n, ev) = expect_binary_value(class, name, v)?;
            Some((n, r(&ev)))
        }
        _ => {
            let (n, ev) = expect_binary_value(class, name, v)?;
            Some((n, r(&ev)))
        }
    }
}

fn expected_default(class: &str, canonical: &str, wire_sample: &Variant) -> Option<String> {
    let d = specdb::default_value(class, canonical).cloned().or_else(|| {
        let ty = match specdb::expect(class, canonical) {
            Some(e) => e.wire_ty,
            None => Some(wire_sample.ty()),
        };
        ty.and_then(neutral)
    })?;
    let (_, ev) = expect_binary_value(class, canonical, &d)?;
    Some(r(&ev))
}

pub fn judge(c: &Case08) -> Vec<(String, String)> {
    let mut out = Vec::new();
    let class = c.class.as_str();
    let n = c.configs.len();
    // (1) does each instance serialize alone?
    let mut alone_ok = true;
    for (k, code) in c.configs.iter().enumerate() {
        let dom = build(class, &[(*code, k)]);
        match serialize(&dom) {
            Ok(Ok(_)) => {}
            Ok(Err(_)) => alone_ok = false,
            Err((s, m)) => {
                out.push((format!("c08|panic|{}", crate::evidence::panic_signature(&s, &m)), format!("rbx_binary panicked at {}: {}", s, m)));
                return out;
            }
        }
    }
    let cfgs: Vec<(usize, usize)> = c.configs.iter().enumerate().map(|(k, code)| (*code, k)).collect();
    let dom = build(class, &cfgs);
    let spell = |code: usize| -> String {
        props_for(class, code, 0).iter().map(|(n, _)| n.clone()).collect::<Vec<_>>().join("+")
    };
    let desc: Vec<String> = c.configs.iter().map(|c| format!("{{{}}}", spell(*c))).collect();
    let bytes = match serialize(&dom) {
        Err((s, m)) => {
            out.push((format!("c08|panic|{}", crate::evidence::panic_signature(&s, &m)), format!("rbx_binary panicked at {}: {}", s, m)));
            return out;
        }
        Ok(Err(e)) => {
            if alone_ok {
                // key: the set of spellings involved for the failing logical property
                let mut names: Vec<String> = c.configs.iter().flat_map(|c| props_for(class, *c, 0).into_iter().map(|p| p.0)).collect();
                names.sort();
                names.dedup();
                let involved: Vec<String> = names.into_iter().filter(|n| e.contains(&canonical_guess(class, n))).collect();
                out.push((
                    format!("c08|whole-fails|{}|{}", class, involved.join("+")),
                    format!("each instance serializes alone but [{}] of class {} in this order fails: {}", desc.join(", "), class, e.chars().take(200).collect::<String>()),
                ));
            }
            return out;
        }
        Ok(Ok(b)) => b,
    };
    if !alone_ok {
        // not in the property's premise; nothing more to check
        return out;
    }
    let d2 = match crate::evidence::guarded(|| rbx_binary::from_reader(bytes.as_slice()).map_err(|e| e.to_string())) {
        Ok(Ok(d)) => d,
        Ok(Err(e)) => {
            out.push((format!("c08|decode-err|{}", class), format!("rbx_binary rejects its own output for [{}]: {}", desc.join(", "), e)));
            return out;
        }
        Err((s, m)) => {
            out.push((format!("c08|panic|{}", crate::evidence::panic_signature(&s, &m)), format!("rbx_binary panicked at {}: {}", s, m)));
            return out;
        }
    };
    let kids = d2.root().children().to_vec();
    if kids.len() != n {
        out.push((format!("c08|count|{}", class), format!("{} instances came back for {}", kids.len(), n)));
        return out;
    }
    // every canonical property any instance carries, with a sample wire value
    let mut carried: BTreeMap<String, Variant> = BTreeMap::new();
    // spellings under which each read-back name was carried
    let mut carried_as: BTreeMap<String, Vec<String>> = BTreeMap::new();
    let mut own: Vec<BTreeMap<String, String>> = Vec::new();
    for (k, code) in c.configs.iter().enumerate() {
        let mut m = BTreeMap::new();
        for (name, v) in props_for(class, *code, k) {
            if let Some((canon, rendered)) = expected_own(class, &name, &v) {
                carried.entry(canon.clone()).or_insert_with(|| v.clone());
                carried_as.entry(canon.clone()).or_default().push(name.clone());
                m.insert(canon, rendered);
            }
        }
        own.push(m);
    }
    for (k, kid) in kids.iter().enumerate() {
        let inst = match d2.get_by_ref(*kid) {
            Some(i) => i,
            None => continue,
        };
        if inst.name != format!("inst{}", k) {
            out.push((format!("c08|order|{}", class), format!("instance {} came back as {:?}", k, inst.name)));
        }
        let got: BTreeMap<String, String> = inst.properties.iter().map(|(n, v)| (n.to_string(), r(v))).collect();
        for (canon, sample) in &carried {
            match own[k].get(canon) {
                Some(want) => match got.get(canon) {
                    Some(g) if g == want => {}
                    other => {
                        // is it a sibling's value?
                        let sibling = own.iter().enumerate().any(|(j, m)| j != k && m.get(canon) == other);
                        out.push((
                            format!("c08|own-value|{}|{}|{}", class, canon, if sibling { "sibling" } else { "other" }),
                            format!("[{}]: instance {} should show its own {}={} but shows {:?}", desc.join(", "), k, canon, want, other),
                        ));
                    }
                },
                None => {
                    let want = expected_default(class, canon, sample);
                    // "the database default for that class, or the type's neutral value when the database
                    // has none": when the column was carried under a property that has no default of its
                    // own (Sound.MaxDistance is stored as RollOffMaxDistance) the neutral value is as good
                    let neutral_ok = carried_as.get(canon).map(|names| names.iter().any(|n| specdb::default_value(class, &canonical_guess(class, n)).is_none())).unwrap_or(false);
                    let neutral_rendered = neutral(sample.ty()).map(|v| r(&v));
                    match (got.get(canon), &want) {
                        (Some(g), Some(w)) if g == w => {}
                        (Some(g), _) if neutral_ok && Some(g) == neutral_rendered.as_ref() => {}
                        (None, _) => out.push((
                            format!("c08|default-missing|{}|{}", class, canon),
                            format!("[{}]: instance {} lacks {} and should show the default {:?} but the property is absent", desc.join(", "), k, canon, want),
                        )),
                        (Some(g), w) => {
                            let sibling = own.iter().enumerate().any(|(j, m)| j != k && m.get(canon) == Some(g));
                            out.push((
                                format!("c08|default-value|{}|{}|{}", class, canon, if sibling { "sibling" } else { "other" }),
                                format!("[{}]: instance {} lacks {} and should show the class default {:?} but shows {}", desc.join(", "), k, canon, w, g),
                            ));
                        }
                    }
                }
            }
        }
        for (name, _) in &got {
            if !carried.contains_key(name) {
                out.push((format!("c08|extra|{}|{}", class, name), format!("[{}]: instance {} gained {} which no instance carried", desc.join(", "), k, name)));
            }
        }
    }
    out
}

fn canonical_guess(class: &str, name: &str) -> String {
    match specdb::lookup(class, name) {
        Lookup::Known(k) => match k.ser {
            Ser::Migrate { to, .. } => to,
            _ => k.canonical,
        },
        _ => name.to_owned(),
    }
}

pub fn cases(tier: Tier) -> Vec<Case08> {
    let mut out = Vec::new();
    for class in CLASSES {
        let n = config_count(class);
        for a in 0..n {
            out.push(Case08 { class: class.into(), configs: vec![a] });
            for b in 0..n {
                out.push(Case08 { class: class.into(), configs: vec![a, b] });
                for c in 0..n {
                    out.push(Case08 { class: class.into(), configs: vec![a, b, c] });
                    if tier == Tier::Thorough && n <= 12 {
                        for d in 0..n {
                            out.push(Case08 { class: class.into(), configs: vec![a, b, c, d] });
                        }
                    }
                }
            }
        }
    }
    out
}

/// Database-wide default fill: for every class and every plainly serializing canonical property
/// that has a (possibly inherited) default, the pair [X{p = some other value}, X{}] must read
/// back with X#2.p = that default.
#[derive(Clone, Debug, Serialize, Deserialize)]
pub struct CaseDb {
    pub class: String,
    pub prop: String,
    /// an instance of this *other* class, whose default for the same inherited property is a
    /// different one, carries the property in the same file
    #[serde(default)]
    pub neighbour: Option<String>,
}

pub fn db_cases() -> Vec<CaseDb> {
    let d = specdb::db();
    let mut classes: Vec<String> = d.classes.keys().map(|k| k.to_string()).collect();
    classes.sort();
    let mut out = Vec::new();
    for c in &classes {
        let mut names: std::collections::BTreeSet<String> = std::collections::BTreeSet::new();
        if let Some(chain) = specdb::class_chain(c) {
            for cc in chain {
                for (p, _) in cc.default_properties.iter() {
                    names.insert(p.to_string());
                }
            }
        }
        for p in names {
            if p == "Name" || p == "UniqueId" {
                continue;
            }
            if let Lookup::Known(k) = specdb::lookup(c, &p) {
                if matches!(k.ser, Ser::Serializes | Ser::As { .. }) && k.canonical == p {
                    out.push(CaseDb { class: c.clone(), prop: p.clone(), neighbour: None });
                    // classes that share the property (same declaring ancestor) but not its default
                    if let Some(mine) = specdb::default_value(c, &p) {
                        let others: Vec<&String> = classes
                            .iter()
                            .filter(|y| *y != c)
                            .filter(|y| matches!(specdb::lookup(y, &p), Lookup::Known(k2) if k2.canonical == p))
                            .filter(|y| specdb::default_value(y, &p).map(|d| r(d) != r(mine)).unwrap_or(false))
                            .collect();
                        if let Some(first) = others.first() {
                            out.push(CaseDb { class: c.clone(), prop: p.clone(), neighbour: Some((*first).clone()) });
                        }
                        if others.len() > 1 {
                            out.push(CaseDb { class: c.clone(), prop: p.clone(), neighbour: Some((*others.last().unwrap()).clone()) });
                        }
                    }
                }
            }
        }
    }
    out
}

pub fn judge_db(c: &CaseDb) -> Vec<(String, String)> {
    let mut out = Vec::new();
    let class = c.class.as_str();
    let dflt = match specdb::default_value(class, &c.prop) {
        Some(v) => v.clone(),
        None => return out,
    };
    // a value of the same type that differs from the default
    let other = crate::vals::alphabet(dflt.ty(), crate::vals::Codec::Binary, false).into_iter().map(|l| l.v).find(|v| r(v) != r(&dflt));
    let other = match other {
        Some(v) => v,
        None => return out,
    };
    let want = match expect_binary_value(class, &c.prop, &dflt) {
        Some(x) => x,
        None => return out,
    };
    for order in 0..(if c.neighbour.is_some() { 3 } else { 2 }) {
        let a = InstanceBuilder::new(class).with_name("has").with_property(c.prop.as_str(), other.clone());
        let b = InstanceBuilder::new(class).with_name("lacks");
        let root = match (&c.neighbour, order) {
            (None, 0) => InstanceBuilder::new("DataModel").with_child(a).with_child(b),
            (None, _) => InstanceBuilder::new("DataModel").with_child(b).with_child(a),
            (Some(y), k) => {
                let n = InstanceBuilder::new(y.as_str()).with_name("neighbour").with_property(c.prop.as_str(), other.clone());
                match k {
                    0 => InstanceBuilder::new("DataModel").with_child(n).with_child(a).with_child(b),
                    1 => InstanceBuilder::new("DataModel").with_child(b).with_child(a).with_child(n),
                    _ => InstanceBuilder::new("DataModel").with_child(n).with_child(b).with_child(a),
                }
            }
        };
        let dom = WeakDom::new(root);
        let bytes = match serialize(&dom) {
            Ok(Ok(b)) => b,
            // a value the writer refuses is outside the premise
            Ok(Err(_)) => return out,
            Err((s, m)) => {
                out.push((format!("c08|panic|{}", crate::evidence::panic_signature(&s, &m)), format!("rbx_binary panicked at {}: {}", s, m)));
                return out;
            }
        };
        let d2 = match crate::evidence::guarded(|| rbx_binary::from_reader(bytes.as_slice()).map_err(|e| e.to_string())) {
            Ok(Ok(d)) => d,
            _ => {
                out.push((format!("c08|db-default|unreadable|{}", r(&dflt).split(':').next().unwrap_or("")), format!("[{}{{{}}}, {}{{}}] cannot be read back", class, c.prop, class)));
                return out;
            }
        };
        let lacks = d2.root().children().iter().filter_map(|r| d2.get_by_ref(*r)).find(|i| i.name == "lacks");
        match lacks.and_then(|i| i.properties.get(&want.0.as_str().into())) {
            Some(g) if r(g) == r(&want.1) => {}
            other_got => out.push((
                format!("c08|db-default|{}{}", if other_got.is_none() { "missing" } else { "value" }, if c.neighbour.is_some() { "|with-neighbour-class" } else { "" }),
                format!("[{}{{{}={}}}, {}{{}}] (order {}): the instance that lacks {} should read back with the class default {} but shows {:?}", class, c.prop, r(&other).chars().take(60).collect::<String>(), class, order, c.prop, r(&want.1).chars().take(80).collect::<String>(), other_got.map(|g| r(g).chars().take(80).collect::<String>())),
            )),
        }
    }
    out
}

pub fn check(run: &Run) -> Value {
    let cs = cases(run.tier);
    let seed = run.seed;
    let total: SweepOut = run_cases(&cs, &|i, c, out| {
        out.nontrivial += (c.configs.len() >= 2) as u64;
        out.executions += 1 + c.configs.len() as u64;
        let vs = judge(c);
        out.outcome(if vs.is_empty() { "ok" } else { "violation" });
        for (k, w) in vs {
            out.violation(k, w, || serde_json::to_value(c).unwrap());
        }
        if out.samples.len() < 2 && (i as u64 + seed) % 2003 == 9 {
            out.samples.push(serde_json::to_string(c).unwrap());
        }
    });
    let mut total = total;
    let dbc = db_cases();
    let o = run_cases(&dbc, &|_, c, out| {
        out.nontrivial += 1;
        out.executions += 2;
        let vs = judge_db(c);
        out.outcome(if vs.is_empty() { "db-default-ok" } else { "db-default-violation" });
        for (k, w) in vs {
            out.violation(k, w, || serde_json::to_value(c).unwrap());
        }
    });
    let db_pairs = o.cases;
    total.merge(o);
    let scs = spell_cases();
    let o = run_cases(&scs, &|_, c, out| {
        out.nontrivial += 1;
        out.executions += 1 + c.spellings.len() as u64;
        let vs = judge_spell(c);
        out.outcome(if vs.is_empty() { "db-spellings-ok" } else { "db-spellings-violation" });
        for (k, w) in vs {
            out.violation(k, w, || serde_json::to_value(c).unwrap());
        }
    });
    let spell_n = o.cases;
    total.merge(o);
    let ocs = overlap_cases();
    let o = run_cases(&ocs, &|_, c, out| {
        out.nontrivial += 1;
        out.executions += 1;
        let vs = judge_overlap(&c.0, c.1, c.2);
        out.outcome(if vs.is_empty() { "overlapping-selection-ok" } else { "overlapping-selection-violation" });
        for (k, w) in vs {
            out.violation(k, w, || json!({"overlap": {"class": c.0, "selection": c.1, "depth": c.2}}));
        }
    });
    total.merge(o);
    total.report(run);
    println!("C08 sweep: doms={} serializations={} outcomes={:?} db-wide default pairs={}", total.cases, total.executions, total.outcomes, db_pairs);
    json!({
        "database_wide_default_fill_pairs": db_pairs,
        "database_wide_spelling_tuples": spell_n,
        "states": total.cases,
        "transitions": total.executions,
        "traces_validated_against_impl": total.executions,
        "evaluations": total.executions,
        "distinct_nontrivial": total.nontrivial,
        "outcomes": total.outcomes,
        "instance_configurations_per_class": CLASSES.iter().map(|c| (c.to_string(), config_count(c))).collect::<BTreeMap<_, _>>(),
        "samples": total.samples.iter().map(|s| serde_json::from_str::<Value>(s).unwrap()).collect::<Vec<_>>(),
        "exhaustive": true,
        "rule": "every ordered tuple of 1..N same-class instances (N=3; thorough adds N=4 for the classes with <=12 instance configurations; classes Part, TextLabel, ScreenGui, ZzUnknown), each instance carrying every combination of {absent, each spelling} per logical property of the class menu (Size|size; Color|Color3uint8|BrickColor|brickColor; Font|FontFace; IgnoreGuiInset|ScreenInsets; plain and unknown properties); all sibling orders are distinct tuples; database-wide: for every class and every logical property reachable under >= 2 plain names, every ordered pair (declaring class: triple) of instances carrying it under those names - each must show what it shows when written alone",
    })
}

pub fn replay(case: &Value) -> Vec<(String, String)> {
    if let Some(o) = case.get("overlap") {
        return judge_overlap(o["class"].as_str().unwrap_or("Part"), o["selection"].as_u64().unwrap_or(0) as u8, o["depth"].as_u64().unwrap_or(1) as usize);
    }
    if case.get("spellings").is_some() {
        let c: CaseSpell = serde_json::from_value(case.clone()).unwrap_or_else(|e| crate::evidence::machinery_failure(&format!("bad replay: {}", e)));
        return judge_spell(&c);
    }
    if case.get("prop").is_some() {
        let c: CaseDb = serde_json::from_value(case.clone()).unwrap_or_else(|e| crate::evidence::machinery_failure(&format!("bad replay: {}", e)));
        return judge_db(&c);
    }
    let c: Case08 = serde_json::from_value(case.clone()).unwrap_or_else(|e| crate::evidence::machinery_failure(&format!("bad replay: {}", e)));
    let a = judge(&c);
    let b = judge(&c);
    if a != b {
        crate::evidence::machinery_failure("replay gave two different observations");
    }
    a
}


// ---------------------------------------------------------------------------
// Selections that reach an instance twice (a root listed twice, an instance listed together with
// its ancestor) are outside the round-trip properties: what the file then holds is the writer's
// choice, and it may as well refuse. But "never another instance's value" still binds: if the
// write and the read succeed, every instance that comes back under a name of the DOM shows that
// instance's values.

pub fn overlap_cases() -> Vec<(String, u8, usize)> {
    let mut out = Vec::new();
    for class in ["Part", "ZzUnknown", "Folder"] {
        for selection in 0..5u8 {
            for depth in 1..=3usize {
                out.push((class.to_owned(), selection, depth));
            }
        }
    }
    out
}

pub fn judge_overlap(class: &str, selection: u8, depth: usize) -> Vec<(String, String)> {
    use rbx_dom_weak::types::{Color3uint8, Vector3};
    let mut out = Vec::new();
    let mut dom = WeakDom::new(InstanceBuilder::new("DataModel"));
    let mk = |i: usize| {
        InstanceBuilder::new(class)
            .with_name(format!("i{}", i))
            .with_property(if class == "Part" { "Size" } else { "SomeVector" }, Variant::Vector3(Vector3::new(i as f32 + 1.5, 2.0 * i as f32 + 0.25, -(i as f32) - 3.0)))
            .with_property(if class == "Part" { "Color" } else { "SomeColor" }, Variant::Color3uint8(Color3uint8::new(10 * i as u8 + 1, 20 * i as u8 + 2, 30 * i as u8 + 3)))
            .with_property("Count", Variant::Int32(1000 * i as i32 + 7))
            .with_property("Label", Variant::String(format!("label of i{}", i)))
    };
    let outer = dom.insert(dom.root_ref(), mk(0));
    let mut chain = vec![outer];
    for d in 1..=depth {
        let parent = *chain.last().unwrap();
        // a filler sibling of another class before the nested instance
        dom.insert(parent, InstanceBuilder::new("Model").with_name(format!("filler{}", d)));
        let c = dom.insert(parent, mk(d));
        chain.push(c);
    }
    let other = dom.insert(dom.root_ref(), mk(depth + 1));
    let inner = *chain.last().unwrap();
    let roots: Vec<rbx_dom_weak::types::Ref> = match selection {
        0 => vec![outer, inner],
        1 => vec![inner, outer],
        2 => vec![outer, outer],
        3 => vec![outer, other, inner],
        _ => vec![inner, other, inner],
    };
    let names = ["[outer, inner]", "[inner, outer]", "[outer, outer]", "[outer, other, inner]", "[inner, other, inner]"];
    let read = crate::evidence::guarded(|| -> Result<WeakDom, String> {
        let mut buf = Vec::new();
        rbx_binary::to_writer(&mut buf, &dom, &roots).map_err(|e| format!("encode: {}", e))?;
        rbx_binary::from_reader(buf.as_slice()).map_err(|e| format!("decode: {}", e))
    });
    let back = match read {
        Ok(Ok(d)) => d,
        Ok(Err(_)) => return out, // refusing is a legitimate answer
        Err((site, msg)) => {
            out.push((format!("c08|overlap|panic|{}", crate::evidence::panic_signature(&site, &msg)), format!("selection {} of nested {}: panic at {}: {}", names[selection as usize], class, site, msg)));
            return out;
        }
    };
    let show = |i: &rbx_dom_weak::Instance| -> BTreeMap<String, String> { i.properties.iter().filter(|(k, _)| matches!(k.as_str(), "Size" | "Color" | "SomeVector" | "SomeColor" | "Count" | "Label")).map(|(k, v)| (k.to_string(), format!("{:?}", v))).collect() };
    // the reference: the same DOM written with the non-overlapping selection [outer, other]
    // (whatever normalisations the format applies, it applies there too)
    let reference = crate::evidence::guarded(|| -> Result<WeakDom, String> {
        let mut buf = Vec::new();
        rbx_binary::to_writer(&mut buf, &dom, &[outer, other]).map_err(|e| format!("encode: {}", e))?;
        rbx_binary::from_reader(buf.as_slice()).map_err(|e| format!("decode: {}", e))
    });
    let reference = match reference {
        Ok(Ok(d)) => d,
        _ => return out, // C01's business
    };
    let mut want: BTreeMap<String, BTreeMap<String, String>> = BTreeMap::new();
    for i in reference.descendants() {
        if i.class == class {
            want.insert(i.name.clone(), show(i));
        }
    }
    for i in back.descendants() {
        if let Some(w) = want.get(&i.name) {
            if i.class != class {
                continue;
            }
            let got = show(i);
            if &got != w {
                let k = w.keys().find(|k| got.get(*k) != w.get(*k)).cloned().unwrap_or_default();
                out.push((
                    format!("c08|overlap|foreign-value|{}", class),
                    format!("selection {} (nesting depth {}) of {} instances: {} reads back with {} = {}, it had {}", names[selection as usize], depth, class, i.name, k, got.get(&k).cloned().unwrap_or("nothing".into()), w.get(&k).cloned().unwrap_or_default()),
                ));
                break;
            }
        }
    }
    out
}

// ---------------------------------------------------------------------------
// Database-driven spellings: for every class and every logical property the database lets an
// instance carry under more than one plain (non-migrating) name, two or three same-class
// instances each carrying it under one of those names with a different value. Oracle: every
// instance shows what it shows when it is written alone (no table of expected conversions).

#[derive(Clone, Debug, Serialize, Deserialize)]
pub struct CaseSpell {
    pub class: String,
    pub canonical: String,
    /// spelling carried by each instance, in sibling order
    pub spellings: Vec<String>,
}

pub fn spell_cases() -> Vec<CaseSpell> {
    let d = rbx_reflection_database::get();
    let mut classes: Vec<String> = d.classes.keys().map(|k| k.to_string()).collect();
    classes.sort();
    let mut out = Vec::new();
    for class in &classes {
        let mut by_canonical: BTreeMap<String, Vec<String>> = BTreeMap::new();
        if let Some(chain) = specdb::class_chain(class) {
            for cc in chain {
                for p in cc.properties.keys() {
                    if p.as_ref() == "Name" || p.as_ref() == "UniqueId" {
                        continue;
                    }
                    if crate::c06::declared_type(class, p).is_some() && crate::c06::declared_type(class, p) != Some(rbx_types::VariantType::Ref) {
                        by_canonical.entry(crate::c06::canonical_of(class, p)).or_default().push(p.to_string());
                    }
                }
            }
        }
        let declared_here: std::collections::BTreeSet<String> = d.classes[class.as_str()].properties.keys().map(|k| k.to_string()).collect();
        for (canonical, mut sp) in by_canonical {
            sp.sort();
            sp.dedup();
            if sp.len() < 2 {
                continue;
            }
            for a in &sp {
                for b in &sp {
                    out.push(CaseSpell { class: class.clone(), canonical: canonical.clone(), spellings: vec![a.clone(), b.clone()] });
                    // triples on the class that declares one of the spellings
                    if sp.len() >= 3 && sp.iter().any(|x| declared_here.contains(x)) {
                        for c in &sp {
                            out.push(CaseSpell { class: class.clone(), canonical: canonical.clone(), spellings: vec![a.clone(), b.clone(), c.clone()] });
                        }
                    }
                }
            }
        }
    }
    out
}

pub fn judge_spell(c: &CaseSpell) -> Vec<(String, String)> {
    let mut out = Vec::new();
    let ty = match crate::c06::declared_type(&c.class, &c.canonical) {
        Some(t) => t,
        None => return out,
    };
    let alpha = crate::c06::value_alphabet(ty);
    let mut distinct: Vec<Variant> = Vec::new();
    for v in alpha {
        if !distinct.iter().any(|d| r(d) == r(&v)) {
            distinct.push(v);
        }
        if distinct.len() == c.spellings.len() {
            break;
        }
    }
    if distinct.len() < c.spellings.len() {
        return out;
    }
    let inst = |k: usize| InstanceBuilder::new(c.class.as_str()).with_name(format!("inst{}", k)).with_property(c.spellings[k].as_str(), distinct[k].clone());
    let shown = |dom: &WeakDom, k: usize| -> Option<Option<String>> {
        let bytes = serialize(dom).ok()?.ok()?;
        let d = rbx_binary::from_reader(bytes.as_slice()).ok()?;
        let kid = *d.root().children().get(k)?;
        Some(d.get_by_ref(kid)?.properties.get(&c.canonical.as_str().into()).map(r))
    };
    let mut alone = Vec::new();
    for k in 0..c.spellings.len() {
        let dom = WeakDom::new(InstanceBuilder::new("DataModel").with_child(inst(k)));
        match crate::evidence::guarded(|| shown(&dom, 0)) {
            Ok(Some(v)) => alone.push(v),
            // does not serialize alone: outside the premise
            _ => return out,
        }
    }
    let mut root = InstanceBuilder::new("DataModel");
    for k in 0..c.spellings.len() {
        root = root.with_child(inst(k));
    }
    let dom = WeakDom::new(root);
    for k in 0..c.spellings.len() {
        match crate::evidence::guarded(|| shown(&dom, k)) {
            Err((s, m)) => {
                out.push((format!("c08|panic|{}", crate::evidence::panic_signature(&s, &m)), format!("rbx_binary panicked at {}: {}", s, m)));
                return out;
            }
            Ok(None) => {
                out.push((format!("c08|spellings|whole-fails|{}", c.canonical), format!("{} instances carrying {} as {:?} serialize alone but not together", c.class, c.canonical, c.spellings)));
                return out;
            }
            Ok(Some(v)) => {
                if v != alone[k] {
                    let sibling = (0..c.spellings.len()).any(|j| j != k && alone[j] == v);
                    out.push((
                        format!("c08|spellings|own-value|{}|{}", c.canonical, if sibling { "sibling" } else { "other" }),
                        format!("{} instances carrying {} as {:?}: instance {} shows {:?} together, {:?} when written alone", c.class, c.canonical, c.spellings, k, v, alone[k]),
                    ));
                }
            }
        }
    }
    out
}
