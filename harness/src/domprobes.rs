//! Exhaustive probes of DOM shapes the breadth-first explorer's node cap (10-12 live instances)
//! cannot reach but that are small enough to enumerate completely in-process:
//!
//! * wide parents: for every width 1..=70 (and 255..257, 1000) and every child position, destroy /
//!   transfer_within / transfer of that child, checked against a list model (C09: well-formed,
//!   C10: exactly the named child leaves, order of the others kept, the moved child is appended);
//! * destinations of a clone that have no root (`WeakDom::default()`), holding 0..3 parentless
//!   instances: a Ref to each of them, to nothing, and to a source instance, through
//!   clone_into_external and clone_multiple_into_external (C11: kept iff the destination
//!   contains the target).

use rbx_dom_weak::types::{Ref, Variant};
use rbx_dom_weak::{InstanceBuilder, WeakDom};

pub type Problem = (String, String, serde_json::Value, &'static str);

fn well_formed(dom: &WeakDom) -> Result<(), String> {
    let root = dom.root_ref();
    let mut seen = std::collections::HashSet::new();
    let mut stack = vec![root];
    while let Some(r) = stack.pop() {
        if !seen.insert(r) {
            return Err(format!("{} is reachable twice", r));
        }
        let i = dom.get_by_ref(r).ok_or_else(|| format!("{} is listed but does not exist", r))?;
        for &c in i.children() {
            let ci = dom.get_by_ref(c).ok_or_else(|| format!("{} lists child {} which does not exist", i.name, c))?;
            if ci.parent() != r {
                return Err(format!("{} lists {} whose parent is {}", i.name, ci.name, ci.parent()));
            }
            stack.push(c);
        }
    }
    let n = dom.descendants().count();
    if n != seen.len() {
        return Err(format!("descendants() yields {} instances, {} are reachable from the root", n, seen.len()));
    }
    Ok(())
}

/// one wide-parent case; returns what went wrong
pub fn wide_case(width: usize, pos: usize, op: u8) -> Vec<(String, &'static str)> {
    let mut problems: Vec<(String, &'static str)> = Vec::new();
    let mut dom = WeakDom::new(InstanceBuilder::new("DataModel"));
    let hub = dom.insert(dom.root_ref(), InstanceBuilder::new("Folder").with_name("hub"));
    let other = dom.insert(dom.root_ref(), InstanceBuilder::new("Folder").with_name("other"));
    let first_other = dom.insert(other, InstanceBuilder::new("Folder").with_name("resident"));
    let kids: Vec<Ref> = (0..width)
        .map(|i| {
            let k = dom.insert(hub, InstanceBuilder::new("Folder").with_name(format!("k{}", i)));
            // every child has a child of its own: a subtree leaves, not a leaf
            dom.insert(k, InstanceBuilder::new("Folder").with_name(format!("g{}", i)));
            k
        })
        .collect();
    let mut dest = WeakDom::new(InstanceBuilder::new("DataModel"));
    let dest_parent = dest.insert(dest.root_ref(), InstanceBuilder::new("Folder").with_name("there"));
    let x = kids[pos];
    let grandchild = dom.get_by_ref(x).map(|i| i.children().to_vec()).unwrap_or_default();
    let res = crate::evidence::guarded(|| match op {
        0 => dom.destroy(x),
        1 => dom.transfer_within(x, other),
        _ => dom.transfer(x, &mut dest, dest_parent),
    });
    if let Err((site, msg)) = res {
        return vec![(format!("panicked at {}: {}", site, msg), "C09")];
    }
    let expect: Vec<Ref> = kids.iter().copied().filter(|k| *k != x).collect();
    let got = dom.get_by_ref(hub).map(|i| i.children().to_vec()).unwrap_or_default();
    if got != expect {
        let what = if got.len() != expect.len() {
            format!("the parent lists {} children afterwards, {} expected", got.len(), expect.len())
        } else {
            let k = got.iter().zip(&expect).position(|(a, b)| a != b).unwrap_or(0);
            format!("the parent's child list differs from position {} on (another child was unlinked, or the order changed)", k)
        };
        problems.push((what, "C10"));
    }
    if let Err(e) = well_formed(&dom) {
        problems.push((format!("source DOM: {}", e), "C09"));
    }
    if let Err(e) = well_formed(&dest) {
        problems.push((format!("destination DOM: {}", e), "C09"));
    }
    match op {
        0 => {
            if dom.get_by_ref(x).is_some() || grandchild.iter().any(|g| dom.get_by_ref(*g).is_some()) {
                problems.push(("the destroyed child or its descendant can still be looked up".into(), "C09"));
            }
        }
        1 => {
            let list = dom.get_by_ref(other).map(|i| i.children().to_vec()).unwrap_or_default();
            if list != vec![first_other, x] || dom.get_by_ref(x).map(|i| i.parent()) != Some(other) {
                problems.push(("the moved child is not the last child of its new parent".into(), "C10"));
            }
        }
        _ => {
            let list = dest.get_by_ref(dest_parent).map(|i| i.children().to_vec()).unwrap_or_default();
            if list != vec![x] || dom.get_by_ref(x).is_some() || dest.get_by_ref(x).map(|i| i.children().to_vec()) != Some(grandchild) {
                problems.push(("the transferred subtree did not arrive intact under its new parent, or is still in the source".into(), "C10"));
            }
        }
    }
    problems
}

pub fn wide_cases() -> Vec<(usize, usize, u8)> {
    let mut out = Vec::new();
    for w in (1..=70usize).chain([255, 256, 257, 1000, 1023, 1024, 1025, 1026, 2047, 2048, 2049, 4097]) {
        let positions: Vec<usize> = if w <= 70 { (0..w).collect() } else { (0..3).chain(w / 2..w / 2 + 2).chain(w - 70..w).collect() };
        for p in positions {
            for op in 0..3u8 {
                out.push((w, p, op));
            }
        }
    }
    out
}

/// one rootless-destination case
pub fn rootless_case(residents: usize, target: usize, multiple: bool) -> Result<(), String> {
    // target: 0..residents = that resident of the destination; residents = null;
    // residents + 1 = an instance of the source outside the cloned subtree; residents + 2 = inside it
    let mut src = WeakDom::new(InstanceBuilder::new("DataModel"));
    let outside = src.insert(src.root_ref(), InstanceBuilder::new("Folder").with_name("outside"));
    let mut dest = WeakDom::default();
    let res: Vec<Ref> = (0..residents).map(|i| dest.insert(Ref::none(), InstanceBuilder::new("Folder").with_name(format!("resident{}", i)))).collect();
    let child_b = InstanceBuilder::new("Folder").with_name("inner");
    let inner_ref = child_b.referent();
    let tgt = if target < residents {
        res[target]
    } else if target == residents {
        Ref::none()
    } else if target == residents + 1 {
        outside
    } else {
        inner_ref
    };
    let subject = src.insert(src.root_ref(), InstanceBuilder::new("Folder").with_name("subject").with_property("R", Variant::Ref(tgt)).with_child(child_b));
    let second = src.insert(src.root_ref(), InstanceBuilder::new("Folder").with_name("second"));
    let r = crate::evidence::guarded(|| if multiple { src.clone_multiple_into_external(&[subject, second], &mut dest)[0] } else { src.clone_into_external(subject, &mut dest) });
    let copy = match r {
        Ok(c) => c,
        Err((site, msg)) => return Err(format!("panicked at {}: {}", site, msg)),
    };
    let ci = dest.get_by_ref(copy).ok_or("the returned referent does not resolve in the destination")?;
    let got = match ci.properties.get(&"R".into()) {
        Some(Variant::Ref(r)) => *r,
        other => return Err(format!("the copy's R is {:?}", other)),
    };
    let want = if target < residents {
        res[target]
    } else if target <= residents + 1 {
        Ref::none()
    } else {
        // the copy of the inner instance
        match ci.children().first() {
            Some(c) => *c,
            None => return Err("the copy has no child".into()),
        }
    };
    if got != want {
        let describe = |r: Ref| {
            if r.is_none() {
                "null".to_owned()
            } else if res.contains(&r) {
                "the destination's resident".to_owned()
            } else if r == outside {
                "the source instance outside the subtree".to_owned()
            } else if r == inner_ref {
                "the original inner instance".to_owned()
            } else {
                "the copy of the inner instance / something else".to_owned()
            }
        };
        return Err(format!("the copy's Ref is {}, expected {}", describe(got), describe(want)));
    }
    for (k, r) in res.iter().enumerate() {
        match dest.get_by_ref(*r) {
            Some(i) if i.name == format!("resident{}", k) && i.children().is_empty() && i.parent().is_none() => {}
            _ => return Err(format!("resident {} of the destination was changed by the clone", k)),
        }
    }
    if src.get_by_ref(subject).and_then(|i| i.properties.get(&"R".into()).cloned()) != Some(Variant::Ref(tgt)) {
        return Err("the source instance's Ref changed".into());
    }
    Ok(())
}

pub fn run_all() -> (Vec<Problem>, u64) {
    let mut out: Vec<Problem> = Vec::new();
    let mut n = 0u64;
    for (w, p, op) in wide_cases() {
        n += 1;
        for (what, prop) in wide_case(w, p, op) {
            let opn = ["destroy", "transfer_within", "transfer"][op as usize];
            let class = if w <= 16 { "w<=16" } else if w <= 32 { "w<=32" } else if w <= 64 { "w<=64" } else { "w>64" };
            out.push((
                format!("domprobe|wide|{}|{}|{}", opn, class, prop),
                format!("{} of child {} of a parent with {} children: {}", opn, p, w, what),
                serde_json::json!({"domprobe": {"kind": "wide", "width": w, "pos": p, "op": op}}),
                prop,
            ));
        }
    }
    for residents in 0..=3usize {
        for target in 0..(residents + 3) {
            for multiple in [false, true] {
                n += 1;
                if let Err(what) = rootless_case(residents, target, multiple) {
                    out.push((
                        format!("domprobe|rootless-destination|{}|residents={}", if multiple { "clone_multiple_into_external" } else { "clone_into_external" }, residents),
                        format!("clone into a destination without a root holding {} parentless instance(s), Ref target #{}: {}", residents, target, what),
                        serde_json::json!({"domprobe": {"kind": "rootless", "residents": residents, "target": target, "multiple": multiple}}),
                        "C11",
                    ));
                }
            }
        }
    }
    for (k, op, refless) in manyrefs_cases() {
        n += 1;
        if let Err(what) = manyrefs_case(k, op, refless) {
            let opn = ["clone_within(A)", "clone_into_external(A)", "clone_multiple_into_external(A,F)", "clone_multiple_into_external(F,A)", "clone_within(B)", "clone_into_external(B)"][op as usize];
            let class = if k <= 8 { "k<=8" } else if k <= 16 { "k<=16" } else if k <= 40 { "k<=40" } else { "k>40" };
            out.push((
                format!("domprobe|many-refs|{}|{}", opn, class),
                format!("{} with {} properties on every instance (strings only on the carriers of mask {:#07b} over A,B,C,E,F): {}", opn, k, refless, what),
                serde_json::json!({"domprobe": {"kind": "many-refs", "k": k, "op": op, "refless": refless}}),
                "C11",
            ));
        }
    }
    let (odd, odd_n) = odd_uniqueid_all();
    out.extend(odd);
    n += odd_n;
    let (fr, fr_n) = from_raw_all();
    out.extend(fr);
    n += fr_n;
    let (bk, bk_n) = bulk_all();
    out.extend(bk);
    n += bk_n;
    // keep one problem per key
    out.sort_by(|a, b| a.0.cmp(&b.0));
    out.dedup_by(|a, b| a.0 == b.0);
    (out, n)
}

pub fn replay(case: &serde_json::Value) -> String {
    let c = &case["domprobe"];
    match c["kind"].as_str() {
        Some("wide") => {
            let v = wide_case(c["width"].as_u64().unwrap_or(1) as usize, c["pos"].as_u64().unwrap_or(0) as usize, c["op"].as_u64().unwrap_or(0) as u8);
            if v.is_empty() {
                "ok".into()
            } else {
                v.into_iter().map(|x| x.0).collect::<Vec<_>>().join("; ")
            }
        }
        Some("many-refs") => match manyrefs_case(c["k"].as_u64().unwrap_or(0) as usize, c["op"].as_u64().unwrap_or(0) as u8, c["refless"].as_u64().unwrap_or(0) as u8) {
            Ok(()) => "ok".into(),
            Err(w) => w,
        },
        Some("bulk") => {
            let v = bulk_case(c["n"].as_u64().unwrap_or(15) as usize, c["k"].as_u64().unwrap_or(0) as usize, c["op"].as_u64().unwrap_or(0) as u8);
            if v.is_empty() {
                "ok".into()
            } else {
                v.into_iter().map(|x| x.0).collect::<Vec<_>>().join("; ")
            }
        }
        Some("from-raw") => {
            let parents: Vec<Option<usize>> = c["parents"].as_array().map(|a| a.iter().map(|v| v.as_u64().map(|x| x as usize)).collect()).unwrap_or_default();
            let v = from_raw_case(&parents, c["new_root"].as_u64().unwrap_or(0) as usize, c["follow"].as_u64().unwrap_or(0) as u8);
            if v.is_empty() {
                "ok".into()
            } else {
                v.into_iter().map(|x| x.0).collect::<Vec<_>>().join("; ")
            }
        }
        Some("odd-uid") => {
            let parents: Vec<Option<usize>> = c["parents"].as_array().map(|a| a.iter().map(|v| v.as_u64().map(|x| x as usize)).collect()).unwrap_or_default();
            let v = odd_uniqueid_case(&parents, c["carrier"].as_u64().unwrap_or(0) as usize, c["value"].as_u64().unwrap_or(0) as usize, c["x"].as_u64().unwrap_or(0) as usize, c["op"].as_u64().unwrap_or(0) as u8);
            if v.is_empty() {
                "ok".into()
            } else {
                v.into_iter().map(|x| x.0).collect::<Vec<_>>().join("; ")
            }
        }
        _ => match rootless_case(c["residents"].as_u64().unwrap_or(0) as usize, c["target"].as_u64().unwrap_or(0) as usize, c["multiple"].as_bool().unwrap_or(false)) {
            Ok(()) => "ok".into(),
            Err(w) => w,
        },
    }
}

// ---------------------------------------------------------------------------
// Instances carrying many Ref properties at once (0..=40, 64, 65, 100, 257 per instance): every
// rewrite case of C11 sits in one property map, in every position of it, for every clone entry
// point.  The expectation is computed per property from the statement of C11.

/// one many-Refs case; `k` properties on each of five instances
pub fn manyrefs_case(k: usize, op: u8, refless: u8) -> Result<(), String> {
    let mut src = WeakDom::new(InstanceBuilder::new("DataModel"));
    let mut dest = WeakDom::new(InstanceBuilder::new("DataModel"));
    let x = dest.insert(dest.root_ref(), InstanceBuilder::new("Folder").with_name("X"));
    let root = src.root_ref();
    let a = src.insert(root, InstanceBuilder::new("Model").with_name("A"));
    let b = src.insert(a, InstanceBuilder::new("Part").with_name("B"));
    let c = src.insert(a, InstanceBuilder::new("Part").with_name("C"));
    let e = src.insert(b, InstanceBuilder::new("Folder").with_name("E"));
    let d = src.insert(root, InstanceBuilder::new("Folder").with_name("D"));
    let f = src.insert(root, InstanceBuilder::new("Folder").with_name("F"));
    let dangling = Ref::new();
    let carriers = [a, b, c, e, f];
    let names = ["PrimaryPart", "Part0", "Part1", "Adornee", "Value", "Attachment0", "Attachment1", "SoundGroup"];
    let pname = |i: usize| if i < names.len() { names[i].to_owned() } else { format!("P{:03}", i) };
    // target kinds: 0 A, 1 B, 2 E, 3 D, 4 null, 5 dangling, 6 F, 7 X (exists only in dest), 8 not a Ref
    // carriers named by `refless` hold strings only (same property names, same count)
    let kind_of = |ci: usize, i: usize| if refless >> ci & 1 == 1 { 8 } else { (i + 2 * ci) % 9 };
    let target = |kind: usize| match kind {
        0 => a,
        1 => b,
        2 => e,
        3 => d,
        4 => Ref::none(),
        5 => dangling,
        6 => f,
        _ => x,
    };
    for (ci, r) in carriers.iter().enumerate() {
        let inst = src.get_by_ref_mut(*r).ok_or("a carrier vanished")?;
        for i in 0..k {
            let kind = kind_of(ci, i);
            let v = if kind == 8 { Variant::String(format!("s{}", i)) } else { Variant::Ref(target(kind)) };
            inst.properties.insert(pname(i).as_str().into(), v);
        }
    }
    let before: Vec<Vec<(String, Variant)>> = carriers
        .iter()
        .map(|r| {
            let mut v: Vec<(String, Variant)> = src.get_by_ref(*r).map(|i| i.properties.iter().map(|(k, v)| (k.to_string(), v.clone())).collect()).unwrap_or_default();
            v.sort_by(|a, b| a.0.cmp(&b.0));
            v
        })
        .collect();
    let src_count = src.descendants().count();
    // (operands, same-dom?)
    let (operands, within): (Vec<Ref>, bool) = match op {
        0 => (vec![a], true),
        1 => (vec![a], false),
        2 => (vec![a, f], false),
        3 => (vec![f, a], false),
        4 => (vec![b], true),
        _ => (vec![b], false),
    };
    let res = crate::evidence::guarded(|| match op {
        0 | 4 => vec![src.clone_within(operands[0])],
        1 | 5 => vec![src.clone_into_external(operands[0], &mut dest)],
        _ => src.clone_multiple_into_external(&operands, &mut dest),
    });
    let copies = match res {
        Ok(c) => c,
        Err((site, msg)) => return Err(format!("panicked at {}: {}", site, msg)),
    };
    if copies.len() != operands.len() {
        return Err(format!("{} referents returned for {} operands", copies.len(), operands.len()));
    }
    // original -> copy, by walking both in step
    let mut map: std::collections::HashMap<Ref, Ref> = std::collections::HashMap::new();
    {
        let ddom: &WeakDom = if within { &src } else { &dest };
        let mut work: Vec<(Ref, Ref)> = operands.iter().copied().zip(copies.iter().copied()).collect();
        while let Some((o, n)) = work.pop() {
            let oi = src.get_by_ref(o).ok_or("an original vanished")?;
            let ni = ddom.get_by_ref(n).ok_or_else(|| format!("the copy of {} cannot be looked up", oi.name))?;
            if oi.name != ni.name || oi.class != ni.class {
                return Err(format!("the copy of {} is named {} of class {}", oi.name, ni.name, ni.class));
            }
            if oi.children().len() != ni.children().len() {
                return Err(format!("the copy of {} has {} children, the original {}", oi.name, ni.children().len(), oi.children().len()));
            }
            if n == o || (within && carriers.contains(&n)) {
                return Err(format!("the copy of {} shares a referent with an original", oi.name));
            }
            map.insert(o, n);
            work.extend(oi.children().iter().copied().zip(ni.children().iter().copied()));
        }
        for (o, n) in operands.iter().zip(&copies) {
            let _ = o;
            if ddom.get_by_ref(*n).map(|i| i.parent().is_some()).unwrap_or(true) {
                return Err("a copied root has a parent".into());
            }
        }
        for (ci, r) in carriers.iter().enumerate() {
            let Some(n) = map.get(r) else { continue };
            let ni = ddom.get_by_ref(*n).ok_or("copy vanished")?;
            if ni.properties.len() != k {
                return Err(format!("the copy of {} has {} properties, the original {}", ni.name, ni.properties.len(), k));
            }
            for i in 0..k {
                let kind = kind_of(ci, i);
                let got = ni.properties.get(&pname(i).as_str().into()).cloned();
                let want = if kind == 8 {
                    Variant::String(format!("s{}", i))
                } else {
                    let t = target(kind);
                    let w = if let Some(m) = map.get(&t) {
                        *m
                    } else if t.is_some() && ddom.get_by_ref(t).is_some() {
                        t
                    } else {
                        Ref::none()
                    };
                    Variant::Ref(w)
                };
                if got.as_ref() != Some(&want) {
                    let kinds = ["the cloned root A", "the cloned B", "the cloned E", "D outside the cloned set", "null", "an instance that exists nowhere", "F", "X of the destination", "a string"];
                    return Err(format!(
                        "property #{} ({}) of the copy of {}, which pointed at {}: {} expected, got {}",
                        i,
                        pname(i),
                        ni.name,
                        kinds[kind],
                        match &want {
                            Variant::Ref(r) if r.is_none() => "null".to_owned(),
                            Variant::Ref(r) if map.values().any(|m| m == r) => "the corresponding copy".to_owned(),
                            Variant::Ref(_) => "the same instance (it exists in the destination)".to_owned(),
                            _ => "the same string".to_owned(),
                        },
                        match &got {
                            None => "nothing".to_owned(),
                            Some(Variant::Ref(r)) if r.is_none() => "null".to_owned(),
                            Some(Variant::Ref(r)) if map.values().any(|m| m == r) => "a copy".to_owned(),
                            Some(Variant::Ref(r)) if *r == target(kind) => "the original target".to_owned(),
                            Some(o) => format!("{:?}", o),
                        }
                    ));
                }
            }
        }
    }
    // the source is untouched
    for (ci, r) in carriers.iter().enumerate() {
        let mut v: Vec<(String, Variant)> = src.get_by_ref(*r).map(|i| i.properties.iter().map(|(k, v)| (k.to_string(), v.clone())).collect()).unwrap_or_default();
        v.sort_by(|a, b| a.0.cmp(&b.0));
        if v != before[ci] {
            return Err(format!("the properties of the original {} changed", ["A", "B", "C", "E", "F"][ci]));
        }
    }
    // a parentless copy is not reachable from the root, so the count holds for clone_within too
    if src.descendants().count() != src_count {
        return Err("the source's tree gained or lost instances".into());
    }
    if !within {
        match dest.get_by_ref(x) {
            Some(i) if i.name == "X" && i.properties.is_empty() && i.parent() == dest.root_ref() => {}
            _ => return Err("the destination's resident changed".into()),
        }
    }
    well_formed(&src).map_err(|e| format!("source: {}", e))?;
    well_formed(&dest).map_err(|e| format!("destination: {}", e))?;
    Ok(())
}

pub fn manyrefs_cases() -> Vec<(usize, u8, u8)> {
    let mut out = Vec::new();
    for k in (0..=40usize).chain([64, 65, 100, 257]) {
        for op in 0..6u8 {
            for refless in 0..32u8 {
                if k == 0 && refless != 0 {
                    continue;
                }
                out.push((k, op, refless));
            }
        }
    }
    out
}

// ---------------------------------------------------------------------------
// `from_raw` with a root other than the one `into_raw` returned (the crate's own from_raw test
// does this): the constructor takes the map as it is.  Every forest shape of <= 4 nodes x every
// choice of the new root x {nothing, insert under it, clone_within of it}: every instance keeps
// its parent, child list and properties, so the two directions of the tree relation still agree
// over the whole map (C09), and nothing but the named instance changes afterwards (C10).

pub fn from_raw_case(parents: &[Option<usize>], new_root: usize, follow: u8) -> Vec<(String, &'static str)> {
    let mut problems: Vec<(String, &'static str)> = Vec::new();
    let mut dom = WeakDom::new(InstanceBuilder::new("DataModel").with_name("root"));
    let mut known: Vec<(String, Ref)> = vec![("root".to_owned(), dom.root_ref())];
    for (i, p) in parents.iter().enumerate() {
        let parent = match p {
            Some(k) => known[k + 1].1,
            None => dom.root_ref(),
        };
        let mut b = InstanceBuilder::new("Folder").with_name(format!("n{}", i)).with_property("P", Variant::Int32(i as i32));
        if i == 0 {
            b = b.with_property("UniqueId", Variant::UniqueId(rbx_dom_weak::types::UniqueId::new(3, 9, 27)));
        }
        let r = dom.insert(parent, b);
        known.push((format!("n{}", i), r));
    }
    let before = snapshot(&dom, &known);
    let n_before = known.len();
    let chosen = if new_root >= parents.len() { known[0].1 } else { known[new_root + 1].1 };
    let res = crate::evidence::guarded(|| {
        let (_old, map) = dom.into_raw();
        WeakDom::from_raw(chosen, map)
    });
    let mut dom = match res {
        Ok(d) => d,
        Err((site, msg)) => return vec![(format!("panicked at {}: {}", site, msg), "C09")],
    };
    if dom.root_ref() != chosen {
        problems.push(("root_ref() is not the referent from_raw was given".into(), "C10"));
    }
    let after = snapshot(&dom, &known);
    if after.len() != n_before {
        problems.push((format!("{} of {} instances can be looked up after from_raw", after.len(), n_before), "C09"));
    }
    for (name, row) in &before {
        match after.get(name) {
            Some(r2) if r2 == row => {}
            Some(r2) if r2.0 != row.0 || r2.1 != row.1 => problems.push((format!("from_raw changed the parent or child list of {}: parent {} -> {}, children {:?} -> {:?} (whoever listed it, or was listed by it, was not changed with it)", name, row.0, r2.0, row.1, r2.1), "C09")),
            _ => problems.push((format!("from_raw changed the properties of {}", name), "C10")),
        }
    }
    if !problems.is_empty() {
        return problems;
    }
    let res = crate::evidence::guarded(|| match follow {
        1 => Some(dom.insert(chosen, InstanceBuilder::new("Folder").with_name("late"))),
        2 => Some(dom.clone_within(chosen)),
        _ => None,
    });
    let made = match res {
        Ok(m) => m,
        Err((site, msg)) => return vec![(format!("after from_raw, panicked at {}: {}", site, msg), "C09")],
    };
    let mut expect = before.clone();
    if follow == 1 {
        let key = known.iter().find(|(_, r)| *r == chosen).map(|(n, _)| n.clone()).unwrap_or_default();
        if let Some(row) = expect.get_mut(&key) {
            row.1.push("late".to_owned());
        }
        match made.and_then(|m| dom.get_by_ref(m)) {
            Some(i) if i.parent() == chosen && i.children().is_empty() && i.name == "late" => {}
            _ => problems.push(("the instance inserted under the new root is not there as built".into(), "C10")),
        }
    }
    if follow == 2 {
        match made.and_then(|m| dom.get_by_ref(m)) {
            Some(i) if i.parent().is_none() && Some(&i.name) == known.iter().find(|(_, r)| *r == chosen).map(|(n, _)| n) => {}
            _ => problems.push(("the clone of the new root is not a parentless copy of it".into(), "C11")),
        }
    }
    let after2 = snapshot(&dom, &known);
    if after2 != expect {
        let who: Vec<&String> = expect.iter().filter(|(k, v)| after2.get(*k) != Some(v)).map(|(k, _)| k).collect();
        problems.push((format!("after {} on a DOM made by from_raw, {:?} differ(s) from what the operation documents", if follow == 1 { "insert" } else { "clone_within" }, who), "C10"));
    }
    problems
}

pub fn from_raw_all() -> (Vec<Problem>, u64) {
    let mut out: Vec<Problem> = Vec::new();
    let mut count = 0u64;
    for n in 1..=4usize {
        for parents in crate::plan::forests(n) {
            for new_root in 0..=n {
                for follow in 0..3u8 {
                    count += 1;
                    for (what, prop) in from_raw_case(&parents, new_root, follow) {
                        out.push((
                            format!("domprobe|from_raw-other-root|{}|{}", ["construct", "then-insert", "then-clone_within"][follow as usize], prop),
                            format!("from_raw(into_raw()) of shape {:?} with {} as the root: {}", parents, if new_root >= n { "the old root".to_owned() } else { format!("n{}", new_root) }, what),
                            serde_json::json!({"domprobe": {"kind": "from-raw", "parents": parents, "new_root": new_root, "follow": follow}}),
                            prop,
                        ));
                    }
                }
            }
        }
    }
    out.sort_by(|a, b| a.0.cmp(&b.0));
    out.dedup_by(|a, b| a.0 == b.0);
    (out, count)
}

// ---------------------------------------------------------------------------
// DOMs with many instances overall (15 .. 4097, around powers of two): a ternary tree whose
// instances carry an Int32, a Ref to another instance ((7 i + 3) mod n) and, one in five, a
// UniqueId.  One operation on the subtree of node k (the first, second, a middle and the last
// node; destroy / transfer_within / transfer / there-and-back / clone_within /
// clone_into_external), then *every* instance is compared with the documented outcome.

pub fn bulk_case(n: usize, k: usize, op: u8) -> Vec<(String, &'static str)> {
    use rbx_dom_weak::types::UniqueId;
    let mut dom = WeakDom::new(InstanceBuilder::new("DataModel").with_name("root"));
    let mut dest = WeakDom::new(InstanceBuilder::new("DataModel").with_name("droot"));
    let there = dest.insert(dest.root_ref(), InstanceBuilder::new("Folder").with_name("there"));
    let resident = dest.insert(there, InstanceBuilder::new("Folder").with_name("resident"));
    let parent_of = |i: usize| if i == 0 { None } else { Some((i - 1) / 3) };
    let builders: Vec<InstanceBuilder> = (0..n).map(|i| InstanceBuilder::new(["Folder", "Part", "Model"][i % 3]).with_name(format!("n{}", i))).collect();
    let refs: Vec<Ref> = builders.iter().map(|b| b.referent()).collect();
    for (i, mut b) in builders.into_iter().enumerate() {
        b = b.with_property("P", Variant::Int32(i as i32)).with_property("R", Variant::Ref(refs[(7 * i + 3) % n]));
        if i % 5 == 0 {
            b = b.with_property("UniqueId", Variant::UniqueId(UniqueId::new(i as u32 + 1, 77, -9)));
        }
        let parent = match parent_of(i) {
            Some(p) => refs[p],
            None => dom.root_ref(),
        };
        dom.insert(parent, b);
    }
    let in_sub = |i: usize| {
        let mut c = i;
        loop {
            if c == k {
                return true;
            }
            match parent_of(c) {
                Some(p) => c = p,
                None => return false,
            }
        }
    };
    let sub: Vec<usize> = (0..n).filter(|i| in_sub(*i)).collect();
    // both DOMs also hold a parentless tree (what an unparented clone leaves behind): no
    // operation on the rooted tree may touch it
    let orphan_child = InstanceBuilder::new("Part").with_name("orphan-child").with_property("R", Variant::Ref(refs[n - 1]));
    let orphan_child_ref = orphan_child.referent();
    let orphan = dom.insert(Ref::none(), InstanceBuilder::new("Folder").with_name("orphan").with_child(orphan_child));
    let dorphan = dest.insert(Ref::none(), InstanceBuilder::new("Folder").with_name("dorphan"));
    let mut known: Vec<(String, Ref)> = vec![("root".to_owned(), dom.root_ref()), ("orphan".to_owned(), orphan), ("orphan-child".to_owned(), orphan_child_ref)];
    known.extend((0..n).map(|i| (format!("n{}", i), refs[i])));
    let dknown: Vec<(String, Ref)> = vec![("droot".to_owned(), dest.root_ref()), ("there".to_owned(), there), ("resident".to_owned(), resident), ("dorphan".to_owned(), dorphan)];
    let before = snapshot(&dom, &known);
    let dbefore = snapshot(&dest, &dknown);
    // a destination for transfer_within outside the subtree: the last node not in it, else the root
    let dst = (0..n).rev().find(|i| !in_sub(*i) && Some(*i) != parent_of(k)).map(|i| (format!("n{}", i), refs[i])).unwrap_or(("root".to_owned(), dom.root_ref()));
    let kr = refs[k];
    let kname = format!("n{}", k);
    let old_parent_name = parent_of(k).map(|p| format!("n{}", p)).unwrap_or("root".to_owned());
    let old_parent = parent_of(k).map(|p| refs[p]).unwrap_or(dom.root_ref());
    let res = crate::evidence::guarded(|| match op {
        0 => {
            dom.destroy(kr);
            None
        }
        1 => {
            dom.transfer_within(kr, dst.1);
            None
        }
        2 => {
            dom.transfer(kr, &mut dest, there);
            None
        }
        3 => {
            dom.transfer(kr, &mut dest, there);
            dest.transfer(kr, &mut dom, old_parent);
            None
        }
        4 => Some(dom.clone_within(kr)),
        _ => Some(dom.clone_into_external(kr, &mut dest)),
    });
    let copy = match res {
        Ok(c) => c,
        Err((site, msg)) => return vec![(format!("panicked at {}: {}", site, msg), "C09")],
    };
    let mut problems: Vec<(String, &'static str)> = Vec::new();
    if let Err(e) = well_formed(&dom) {
        problems.push((format!("source DOM: {}", e), "C09"));
    }
    if let Err(e) = well_formed(&dest) {
        problems.push((format!("destination DOM: {}", e), "C09"));
    }
    let mut want = before.clone();
    let mut dwant = dbefore.clone();
    let unlink = |m: &mut Snap| {
        if let Some(v) = m.get_mut(&old_parent_name) {
            v.1.retain(|c| c != &kname);
        }
    };
    match op {
        0 | 2 => {
            unlink(&mut want);
            for i in &sub {
                want.remove(&format!("n{}", i));
            }
        }
        1 => {
            unlink(&mut want);
            if let Some(v) = want.get_mut(&dst.0) {
                v.1.push(kname.clone());
            }
            if let Some(v) = want.get_mut(&kname) {
                v.0 = dst.0.clone();
            }
        }
        3 => {
            unlink(&mut want);
            if let Some(v) = want.get_mut(&old_parent_name) {
                v.1.push(kname.clone());
            }
        }
        _ => {}
    }
    if op == 2 {
        if let Some(v) = dwant.get_mut("there") {
            v.1.push(kname.clone());
        }
    }
    let after = snapshot(&dom, &known);
    // a Ref whose target left the DOM is rendered by snapshot() through the raw value (Debug of
    // the Variant), so rows compare equal exactly when nothing about the instance changed
    let differ = |want: &Snap, after: &Snap, which: &str, problems: &mut Vec<(String, &'static str)>| {
        if want == after {
            return;
        }
        let extra: Vec<&String> = after.keys().filter(|k| !want.contains_key(*k)).take(3).collect();
        let gone: Vec<&String> = want.keys().filter(|k| !after.contains_key(*k)).take(3).collect();
        if !extra.is_empty() {
            problems.push((format!("{}: {:?} can still be looked up", which, extra), "C09"));
        } else if !gone.is_empty() {
            problems.push((format!("{}: {:?} disappeared", which, gone), "C10"));
        } else if let Some((k, v)) = want.iter().find(|(k, v)| after.get(*k) != Some(v)) {
            let a = after.get(k).cloned().unwrap_or_default();
            let what = if a.0 != v.0 {
                format!("parent {} -> {}", v.0, a.0)
            } else if a.1 != v.1 {
                format!("children {:?} -> {:?}", v.1.iter().take(6).collect::<Vec<_>>(), a.1.iter().take(6).collect::<Vec<_>>())
            } else {
                "properties changed".to_owned()
            };
            problems.push((format!("{}: {} differs from the documented outcome ({})", which, k, what), "C10"));
        }
    };
    differ(&want, &after, "source DOM", &mut problems);
    // the descendant iterator started at a parentless instance: that instance, then its child
    {
        let got: Vec<String> = dom.descendants_of(orphan).map(|i| i.name.clone()).collect();
        if got != vec!["orphan".to_owned(), "orphan-child".to_owned()] {
            problems.push((format!("descendants_of(a parentless instance with one child) yields {:?}", got), "C09"));
        }
    }
    let dafter = snapshot(&dest, &dknown);
    differ(&dwant, &dafter, "destination DOM", &mut problems);
    // the subtree where it went: same referents (transfer) or an isomorphic copy (clone)
    if op == 2 {
        let moved: Vec<(String, Ref)> = sub.iter().map(|i| (format!("n{}", i), refs[*i])).collect();
        let got = snapshot(&dest, &moved);
        for i in &sub {
            let name = format!("n{}", i);
            let mut w = before.get(&name).cloned().unwrap_or_default();
            if *i == k {
                w.0 = "there".to_owned();
            }
            match got.get(&name) {
                Some(g) if g.0 == w.0 && g.1 == w.1 => {
                    // properties: equal except that a UniqueId may not change here (the destination holds none)
                    if g.2 != w.2 {
                        problems.push((format!("the transferred {} arrived with other properties", name), "C10"));
                        break;
                    }
                }
                Some(g) => {
                    problems.push((format!("the transferred {} arrived with parent {} and {} children, {} and {} expected", name, g.0, g.1.len(), w.0, w.1.len()), "C10"));
                    break;
                }
                None => {
                    problems.push((format!("the transferred {} cannot be looked up in the destination", name), "C09"));
                    break;
                }
            }
        }
    }
    if let Some(c) = copy {
        let ddom: &WeakDom = if op == 4 { &dom } else { &dest };
        let mut map: std::collections::HashMap<Ref, Ref> = std::collections::HashMap::new();
        let mut work = vec![(kr, c)];
        let mut bad: Option<String> = None;
        while let Some((o, nn)) = work.pop() {
            let (Some(oi), Some(ni)) = (dom.get_by_ref(o), ddom.get_by_ref(nn)) else {
                bad = Some("an original or its copy cannot be looked up".to_owned());
                break;
            };
            if oi.name != ni.name || oi.class != ni.class || oi.children().len() != ni.children().len() {
                bad = Some(format!("the copy of {} is {} ({}) with {} children", oi.name, ni.name, ni.class, ni.children().len()));
                break;
            }
            map.insert(o, nn);
            work.extend(oi.children().iter().copied().zip(ni.children().iter().copied()));
        }
        if bad.is_none() && map.len() != sub.len() {
            bad = Some(format!("{} instances were copied, the subtree has {}", map.len(), sub.len()));
        }
        if bad.is_none() {
            // the iterator over the (parentless) copy: every instance once, parents first
            let mut seen: std::collections::HashSet<Ref> = std::collections::HashSet::new();
            let mut n_seen = 0usize;
            for i in ddom.descendants_of(c) {
                n_seen += 1;
                if i.referent() != c && !seen.contains(&i.parent()) {
                    problems.push((format!("descendants_of(the copy) yields {} before its parent", i.name), "C09"));
                    break;
                }
                if !seen.insert(i.referent()) {
                    problems.push((format!("descendants_of(the copy) yields {} twice", i.name), "C09"));
                    break;
                }
            }
            if n_seen != sub.len() && problems.is_empty() {
                problems.push((format!("descendants_of(the copy) yields {} instances, the copy has {}", n_seen, sub.len()), "C09"));
            }
        }
        if bad.is_none() {
            if ddom.get_by_ref(c).map(|i| i.parent().is_some()).unwrap_or(true) {
                bad = Some("the copied root has a parent".to_owned());
            }
        }
        if bad.is_none() {
            for i in &sub {
                let Some(nn) = map.get(&refs[*i]) else { continue };
                let ni = ddom.get_by_ref(*nn).unwrap();
                let target = refs[(7 * i + 3) % n];
                let want_ref = if let Some(m) = map.get(&target) {
                    *m
                } else if op == 4 {
                    target
                } else {
                    Ref::none()
                };
                if ni.properties.get(&"R".into()) != Some(&Variant::Ref(want_ref)) {
                    bad = Some(format!("the copy of n{} has R = {:?}; its original points {} the cloned subtree", i, ni.properties.get(&"R".into()), if map.contains_key(&target) { "inside" } else { "outside" }));
                    break;
                }
                if ni.properties.get(&"P".into()) != Some(&Variant::Int32(*i as i32)) {
                    bad = Some(format!("the copy of n{} has P = {:?}", i, ni.properties.get(&"P".into())));
                    break;
                }
                let has_uid = ni.properties.get(&"UniqueId".into()).is_some();
                if has_uid != (i % 5 == 0) {
                    bad = Some(format!("the copy of n{} {} a UniqueId", i, if has_uid { "gained" } else { "lost" }));
                    break;
                }
            }
        }
        if let Some(b) = bad {
            problems.push((b, "C11"));
        }
        // unique ids: pairwise distinct in each DOM
        for (which, d) in [("source", &dom), ("destination", &dest)] {
            let mut seen = std::collections::HashSet::new();
            let mut stack = vec![d.root_ref()];
            if which == "source" && op == 4 {
                stack.push(c);
            }
            if which == "destination" && op == 5 {
                stack.push(c);
            }
            while let Some(r) = stack.pop() {
                if let Some(i) = d.get_by_ref(r) {
                    if let Some(Variant::UniqueId(u)) = i.properties.get(&"UniqueId".into()) {
                        if !seen.insert(*u) {
                            problems.push((format!("two instances of the {} DOM hold UniqueId {}", which, u), "C12"));
                            break;
                        }
                    }
                    stack.extend(i.children().iter().copied());
                }
            }
        }
    }
    problems
}

pub fn bulk_all() -> (Vec<Problem>, u64) {
    let mut out: Vec<Problem> = Vec::new();
    let mut count = 0u64;
    for n in [15usize, 16, 17, 31, 32, 33, 63, 64, 65, 127, 128, 129, 255, 256, 257, 1023, 1024, 1025, 4097] {
        let mut ks = vec![0usize, 1, 2, 3, 4, n / 3, n / 2, n - 2, n - 1];
        ks.sort();
        ks.dedup();
        for k in ks {
            for op in 0..6u8 {
                count += 1;
                for (what, prop) in bulk_case(n, k, op) {
                    let opn = ["destroy", "transfer_within", "transfer", "transfer-there-and-back", "clone_within", "clone_into_external"][op as usize];
                    let class = if n <= 17 { "n<=17" } else if n <= 65 { "n<=65" } else if n <= 257 { "n<=257" } else { "n>257" };
                    out.push((
                        format!("domprobe|many-instances|{}|{}|{}", opn, class, prop),
                        format!("a DOM of {} instances (ternary tree), {} of n{}: {}", n, opn, k, what),
                        serde_json::json!({"domprobe": {"kind": "bulk", "n": n, "k": k, "op": op}}),
                        prop,
                    ));
                }
            }
        }
    }
    out.sort_by(|a, b| a.0.cmp(&b.0));
    out.dedup_by(|a, b| a.0 == b.0);
    (out, count)
}

// ---------------------------------------------------------------------------
// A property *named* UniqueId whose value is not a `Variant::UniqueId` (only `from_raw`
// documents a panic for it): for every operation it is a value like any other.
// Every forest shape of <= 4 nodes x every carrier node (and all nodes) x four odd values x
// every operand x destroy / transfer_within / transfer / clone_within / clone_into_external,
// against a snapshot model.

type Snap = std::collections::BTreeMap<String, (String, Vec<String>, Vec<(String, String)>)>;

fn snapshot(dom: &WeakDom, known: &[(String, Ref)]) -> Snap {
    let name_of = |r: Ref| -> String {
        if r.is_none() {
            return "<none>".into();
        }
        dom.get_by_ref(r).map(|i| i.name.clone()).unwrap_or_else(|| "<missing>".into())
    };
    let mut out = Snap::new();
    for (n, r) in known {
        if let Some(i) = dom.get_by_ref(*r) {
            let mut props: Vec<(String, String)> = i.properties.iter().map(|(k, v)| (k.to_string(), format!("{:?}", v))).collect();
            props.sort();
            out.insert(n.clone(), (name_of(i.parent()), i.children().iter().map(|c| name_of(*c)).collect(), props));
        }
    }
    out
}

pub fn odd_uniqueid_case(parents: &[Option<usize>], carrier: usize, kind: usize, x: usize, op: u8) -> Vec<(String, &'static str)> {
    let n = parents.len();
    let odd = |i: usize| -> Option<Variant> {
        if carrier == n || carrier == i {
            Some(match kind {
                0 => Variant::String("not an id".into()),
                1 => Variant::Bool(false),
                2 => Variant::Int64(7),
                _ => Variant::Ref(Ref::none()),
            })
        } else {
            None
        }
    };
    let mut dom = WeakDom::new(InstanceBuilder::new("DataModel").with_name("root"));
    let mut refs: Vec<Ref> = Vec::new();
    for i in 0..n {
        let parent = match parents[i] {
            None => dom.root_ref(),
            Some(p) => refs[p],
        };
        let mut b = InstanceBuilder::new("Folder").with_name(format!("n{}", i)).with_property("P", Variant::Int32(i as i32));
        if let Some(v) = odd(i) {
            b = b.with_property("UniqueId", v);
        }
        refs.push(dom.insert(parent, b));
    }
    // insertion adds what the builder held
    for i in 0..n {
        let got = dom.get_by_ref(refs[i]).and_then(|inst| inst.properties.get(&"UniqueId".into()).cloned());
        if got != odd(i) {
            return vec![(format!("insert: n{} was built with UniqueId = {:?} and holds {:?}", i, odd(i), got), "C10")];
        }
    }
    let mut dest = WeakDom::new(InstanceBuilder::new("DataModel").with_name("droot"));
    let known: Vec<(String, Ref)> = std::iter::once(("root".to_owned(), dom.root_ref())).chain((0..n).map(|i| (format!("n{}", i), refs[i]))).collect();
    let before = snapshot(&dom, &known);
    // the model's subtree of x
    let mut sub = vec![x];
    let mut k = 0;
    while k < sub.len() {
        let p = sub[k];
        for i in 0..n {
            if parents[i] == Some(p) {
                sub.push(i);
            }
        }
        k += 1;
    }
    let in_sub = |name: &str| sub.iter().any(|i| format!("n{}", i) == name);
    let xr = refs[x];
    let res = crate::evidence::guarded(|| match op {
        0 => {
            dom.destroy(xr);
            None
        }
        1 => {
            let root = dom.root_ref();
            dom.transfer_within(xr, root);
            None
        }
        2 => {
            let dr = dest.root_ref();
            dom.transfer(xr, &mut dest, dr);
            None
        }
        3 => Some(dom.clone_within(xr)),
        _ => Some(dom.clone_into_external(xr, &mut dest)),
    });
    let copy = match res {
        Ok(c) => c,
        Err((site, msg)) => return vec![(format!("panicked at {}: {}", site, msg), "C09")],
    };
    let mut problems: Vec<(String, &'static str)> = Vec::new();
    if let Err(e) = well_formed(&dom) {
        problems.push((format!("source DOM: {}", e), "C09"));
    }
    if let Err(e) = well_formed(&dest) {
        problems.push((format!("destination DOM: {}", e), "C09"));
    }
    let after = snapshot(&dom, &known);
    // expected snapshot of the source DOM
    let mut want = before.clone();
    let xname = format!("n{}", x);
    match op {
        0 | 2 => {
            want.retain(|k, _| !in_sub(k));
            for (_, v) in want.iter_mut() {
                v.1.retain(|c| c != &xname);
            }
        }
        1 => {
            for (_, v) in want.iter_mut() {
                v.1.retain(|c| c != &xname);
            }
            if let Some(v) = want.get_mut("root") {
                v.1.push(xname.clone());
            }
            if let Some(v) = want.get_mut(&xname) {
                v.0 = "root".into();
            }
        }
        _ => {}
    }
    if after != want {
        let gone: Vec<&String> = want.keys().filter(|k| !after.contains_key(*k)).collect();
        let extra: Vec<&String> = after.keys().filter(|k| !want.contains_key(*k)).collect();
        let what = if !extra.is_empty() {
            format!("{:?} can still be looked up", extra)
        } else if !gone.is_empty() {
            format!("{:?} disappeared", gone)
        } else {
            let k = want.iter().find(|(k, v)| after.get(*k) != Some(v)).map(|(k, _)| k.clone()).unwrap_or_default();
            format!("{} changed: {:?} -> {:?}", k, want.get(&k), after.get(&k))
        };
        problems.push((format!("source DOM after the operation: {}", what), if !extra.is_empty() { "C09" } else { "C10" }));
    }
    // the moved / copied subtree keeps shape and properties
    let target: Option<(&WeakDom, Ref)> = match (op, copy) {
        (2, _) => Some((&dest, xr)),
        (3, Some(c)) => Some((&dom, c)),
        (4, Some(c)) => Some((&dest, c)),
        _ => None,
    };
    if let Some((d, top)) = target {
        fn shape(d: &WeakDom, r: Ref, out: &mut Vec<(String, usize, Vec<(String, String)>)>) {
            if let Some(i) = d.get_by_ref(r) {
                let mut props: Vec<(String, String)> = i.properties.iter().map(|(k, v)| (k.to_string(), format!("{:?}", v))).collect();
                props.sort();
                out.push((i.name.clone(), i.children().len(), props));
                for &c in i.children() {
                    shape(d, c, out);
                }
            }
        }
        let mut got = Vec::new();
        shape(d, top, &mut got);
        let mut exp = Vec::new();
        fn model(parents: &[Option<usize>], before: &Snap, i: usize, out: &mut Vec<(String, usize, Vec<(String, String)>)>) {
            let name = format!("n{}", i);
            if let Some(v) = before.get(&name) {
                out.push((name, v.1.len(), v.2.clone()));
            }
            for j in 0..parents.len() {
                if parents[j] == Some(i) {
                    model(parents, before, j, out);
                }
            }
        }
        model(parents, &before, x, &mut exp);
        if got != exp {
            problems.push((format!("the {} subtree differs from the original: {:?} vs {:?}", if op == 2 { "transferred" } else { "cloned" }, got.iter().map(|g| (&g.0, g.1)).collect::<Vec<_>>(), exp.iter().map(|g| (&g.0, g.1)).collect::<Vec<_>>()), if op == 2 { "C10" } else { "C11" }));
        }
    }
    problems
}

pub fn odd_uniqueid_all() -> (Vec<Problem>, u64) {
    let mut out: Vec<Problem> = Vec::new();
    let mut count = 0u64;
    for n in 1..=4usize {
        for parents in crate::plan::forests(n) {
            for carrier in 0..=n {
                for kind in 0..4usize {
                    for x in 0..n {
                        for op in 0..5u8 {
                            count += 1;
                            for (what, prop) in odd_uniqueid_case(&parents, carrier, kind, x, op) {
                                let opn = if what.starts_with("insert:") { "insert" } else { ["destroy", "transfer_within", "transfer", "clone_within", "clone_into_external"][op as usize] };
                                out.push((
                                    format!("domprobe|odd-typed-UniqueId|{}|{}", opn, prop),
                                    format!("a property named UniqueId holding a {} (shape {:?}, carrier {}): {} of n{}: {}", ["String", "Bool", "Int64", "Ref"][kind], parents, if carrier == n { "every node".to_owned() } else { format!("n{}", carrier) }, opn, x, what),
                                    serde_json::json!({"domprobe": {"kind": "odd-uid", "parents": parents, "carrier": carrier, "value": kind, "x": x, "op": op}}),
                                    prop,
                                ));
                            }
                        }
                    }
                }
            }
        }
    }
    out.sort_by(|a, b| a.0.cmp(&b.0));
    out.dedup_by(|a, b| a.0 == b.0);
    (out, count)
}
