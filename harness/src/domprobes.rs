//! Exhaustive probes of DOM shapes the breadth-first explorer's node cap (10-12 live instances)
//! cannot reach but that are small enough to enumerate completely in-process:
//!
//! * wide parents: for every width 1..=70 (and 255..257, 1000) and every child position, destroy /
//!   transfer_within / transfer of that child, checked against a list model (C09: well-formed,
//!   C10: exactly the named child leaves, order of the others kept, the moved child is appended);
//! * destinations of a clone that have no root (`WeakDom::default()`), holding 0..3 parentless
//!   instances: a Ref to each of them, to nothing, and to a source instance, through
//!   clone_into_external and clone_multiple_into_external (C11: kept iff the destination
//!   contains the target).

use rbx_dom_weak::types::{Ref, Variant};
use rbx_dom_weak::{InstanceBuilder, WeakDom};

pub type Problem = (String, String, serde_json::Value, &'static str);

fn well_formed(dom: &WeakDom) -> Result<(), String> {
    let root = dom.root_ref();
    let mut seen = std::collections::HashSet::new();
    let mut stack = vec![root];
    while let Some(r) = stack.pop() {
        if !seen.insert(r) {
            return Err(format!("{} is reachable twice", r));
        }
        let i = dom.get_by_ref(r).ok_or_else(|| format!("{} is listed but does not exist", r))?;
        for &c in i.children() {
            let ci = dom.get_by_ref(c).ok_or_else(|| format!("{} lists child {} which does not exist", i.name, c))?;
            if ci.parent() != r {
                return Err(format!("{} lists {} whose parent is {}", i.name, ci.name, ci.parent()));
            }
            stack.push(c);
        }
    }
    let n = dom.descendants().count();
    if n != seen.len() {
        return Err(format!("descendants() yields {} instances, {} are reachable from the root", n, seen.len()));
    }
    Ok(())
}

/// one wide-parent case; returns what went wrong
pub fn wide_case(width: usize, pos: usize, op: u8) -> Vec<(String, &'static str)> {
    let mut problems: Vec<(String, &'static str)> = Vec::new();
    let mut dom = WeakDom::new(InstanceBuilder::new("DataModel"));
    let hub = dom.insert(dom.root_ref(), InstanceBuilder::new("Folder").with_name("hub"));
    let other = dom.insert(dom.root_ref(), InstanceBuilder::new("Folder").with_name("other"));
    let first_other = dom.insert(other, InstanceBuilder::new("Folder").with_name("resident"));
    let kids: Vec<Ref> = (0..width)
        .map(|i| {
            let k = dom.insert(hub, InstanceBuilder::new("Folder").with_name(format!("k{}", i)));
            // every child has a child of its own: a subtree leaves, not a leaf
            dom.insert(k, InstanceBuilder::new("Folder").with_name(format!("g{}", i)));
            k
        })
        .collect();
    let mut dest = WeakDom::new(InstanceBuilder::new("DataModel"));
    let dest_parent = dest.insert(dest.root_ref(), InstanceBuilder::new("Folder").with_name("there"));
    let x = kids[pos];
    let grandchild = dom.get_by_ref(x).map(|i| i.children().to_vec()).unwrap_or_default();
    let res = crate::evidence::guarded(|| match op {
        0 => dom.destroy(x),
        1 => dom.transfer_within(x, other),
        _ => dom.transfer(x, &mut dest, dest_parent),
    });
    if let Err((site, msg)) = res {
        return vec![(format!("panicked at {}: {}", site, msg), "C09")];
    }
    let expect: Vec<Ref> = kids.iter().copied().filter(|k| *k != x).collect();
    let got = dom.get_by_ref(hub).map(|i| i.children().to_vec()).unwrap_or_default();
    if got != expect {
        let what = if got.len() != expect.len() {
            format!("the parent lists {} children afterwards, {} expected", got.len(), expect.len())
        } else {
            let k = got.iter().zip(&expect).position(|(a, b)| a != b).unwrap_or(0);
            format!("the parent's child list differs from position {} on (another child was unlinked, or the order changed)", k)
        };
        problems.push((what, "C10"));
    }
    if let Err(e) = well_formed(&dom) {
        problems.push((format!("source DOM: {}", e), "C09"));
    }
    if let Err(e) = well_formed(&dest) {
        problems.push((format!("destination DOM: {}", e), "C09"));
    }
    match op {
        0 => {
            if dom.get_by_ref(x).is_some() || grandchild.iter().any(|g| dom.get_by_ref(*g).is_some()) {
                problems.push(("the destroyed child or its descendant can still be looked up".into(), "C09"));
            }
        }
        1 => {
            let list = dom.get_by_ref(other).map(|i| i.children().to_vec()).unwrap_or_default();
            if list != vec![first_other, x] || dom.get_by_ref(x).map(|i| i.parent()) != Some(other) {
                problems.push(("the moved child is not the last child of its new parent".into(), "C10"));
            }
        }
        _ => {
            let list = dest.get_by_ref(dest_parent).map(|i| i.children().to_vec()).unwrap_or_default();
            if list != vec![x] || dom.get_by_ref(x).is_some() || dest.get_by_ref(x).map(|i| i.children().to_vec()) != Some(grandchild) {
                problems.push(("the transferred subtree did not arrive intact under its new parent, or is still in the source".into(), "C10"));
            }
        }
    }
    problems
}

pub fn wide_cases() -> Vec<(usize, usize, u8)> {
    let mut out = Vec::new();
    for w in (1..=70usize).chain([255, 256, 257, 1000]) {
        let positions: Vec<usize> = if w <= 70 { (0..w).collect() } else { (0..3).chain(w / 2..w / 2 + 2).chain(w - 70..w).collect() };
        for p in positions {
            for op in 0..3u8 {
                out.push((w, p, op));
            }
        }
    }
    out
}

/// one rootless-destination case
pub fn rootless_case(residents: usize, target: usize, multiple: bool) -> Result<(), String> {
    // target: 0..residents = that resident of the destination; residents = null;
    // residents + 1 = an instance of the source outside the cloned subtree; residents + 2 = inside it
    let mut src = WeakDom::new(InstanceBuilder::new("DataModel"));
    let outside = src.insert(src.root_ref(), InstanceBuilder::new("Folder").with_name("outside"));
    let mut dest = WeakDom::default();
    let res: Vec<Ref> = (0..residents).map(|i| dest.insert(Ref::none(), InstanceBuilder::new("Folder").with_name(format!("resident{}", i)))).collect();
    let child_b = InstanceBuilder::new("Folder").with_name("inner");
    let inner_ref = child_b.referent();
    let tgt = if target < residents {
        res[target]
    } else if target == residents {
        Ref::none()
    } else if target == residents + 1 {
        outside
    } else {
        inner_ref
    };
    let subject = src.insert(src.root_ref(), InstanceBuilder::new("Folder").with_name("subject").with_property("R", Variant::Ref(tgt)).with_child(child_b));
    let second = src.insert(src.root_ref(), InstanceBuilder::new("Folder").with_name("second"));
    let r = crate::evidence::guarded(|| if multiple { src.clone_multiple_into_external(&[subject, second], &mut dest)[0] } else { src.clone_into_external(subject, &mut dest) });
    let copy = match r {
        Ok(c) => c,
        Err((site, msg)) => return Err(format!("panicked at {}: {}", site, msg)),
    };
    let ci = dest.get_by_ref(copy).ok_or("the returned referent does not resolve in the destination")?;
    let got = match ci.properties.get(&"R".into()) {
        Some(Variant::Ref(r)) => *r,
        other => return Err(format!("the copy's R is {:?}", other)),
    };
    let want = if target < residents {
        res[target]
    } else if target <= residents + 1 {
        Ref::none()
    } else {
        // the copy of the inner instance
        match ci.children().first() {
            Some(c) => *c,
            None => return Err("the copy has no child".into()),
        }
    };
    if got != want {
        let describe = |r: Ref| {
            if r.is_none() {
                "null".to_owned()
            } else if res.contains(&r) {
                "the destination's resident".to_owned()
            } else if r == outside {
                "the source instance outside the subtree".to_owned()
            } else if r == inner_ref {
                "the original inner instance".to_owned()
            } else {
                "the copy of the inner instance / something else".to_owned()
            }
        };
        return Err(format!("the copy's Ref is {}, expected {}", describe(got), describe(want)));
    }
    for (k, r) in res.iter().enumerate() {
        match dest.get_by_ref(*r) {
            Some(i) if i.name == format!("resident{}", k) && i.children().is_empty() && i.parent().is_none() => {}
            _ => return Err(format!("resident {} of the destination was changed by the clone", k)),
        }
    }
    if src.get_by_ref(subject).and_then(|i| i.properties.get(&"R".into()).cloned()) != Some(Variant::Ref(tgt)) {
        return Err("the source instance's Ref changed".into());
    }
    Ok(())
}

pub fn run_all() -> (Vec<Problem>, u64) {
    let mut out: Vec<Problem> = Vec::new();
    let mut n = 0u64;
    for (w, p, op) in wide_cases() {
        n += 1;
        for (what, prop) in wide_case(w, p, op) {
            let opn = ["destroy", "transfer_within", "transfer"][op as usize];
            let class = if w <= 16 { "w<=16" } else if w <= 32 { "w<=32" } else if w <= 64 { "w<=64" } else { "w>64" };
            out.push((
                format!("domprobe|wide|{}|{}|{}", opn, class, prop),
                format!("{} of child {} of a parent with {} children: {}", opn, p, w, what),
                serde_json::json!({"domprobe": {"kind": "wide", "width": w, "pos": p, "op": op}}),
                prop,
            ));
        }
    }
    for residents in 0..=3usize {
        for target in 0..(residents + 3) {
            for multiple in [false, true] {
                n += 1;
                if let Err(what) = rootless_case(residents, target, multiple) {
                    out.push((
                        format!("domprobe|rootless-destination|{}|residents={}", if multiple { "clone_multiple_into_external" } else { "clone_into_external" }, residents),
                        format!("clone into a destination without a root holding {} parentless instance(s), Ref target #{}: {}", residents, target, what),
                        serde_json::json!({"domprobe": {"kind": "rootless", "residents": residents, "target": target, "multiple": multiple}}),
                        "C11",
                    ));
                }
            }
        }
    }
    // keep one problem per key
    out.sort_by(|a, b| a.0.cmp(&b.0));
    out.dedup_by(|a, b| a.0 == b.0);
    (out, n)
}

pub fn replay(case: &serde_json::Value) -> String {
    let c = &case["domprobe"];
    match c["kind"].as_str() {
        Some("wide") => {
            let v = wide_case(c["width"].as_u64().unwrap_or(1) as usize, c["pos"].as_u64().unwrap_or(0) as usize, c["op"].as_u64().unwrap_or(0) as u8);
            if v.is_empty() {
                "ok".into()
            } else {
                v.into_iter().map(|x| x.0).collect::<Vec<_>>().join("; ")
            }
        }
        _ => match rootless_case(c["residents"].as_u64().unwrap_or(0) as usize, c["target"].as_u64().unwrap_or(0) as usize, c["multiple"].as_bool().unwrap_or(false)) {
            Ok(()) => "ok".into(),
            Err(w) => w,
        },
    }
}
