//! C16: the bundled reflection database is coherent and closed under both
//! codecs — a complete walk of every class, descriptor, enum and default.

use std::collections::{BTreeMap, BTreeSet};

use rbx_dom_weak::{InstanceBuilder, WeakDom};
use rbx_reflection::{DataType, PropertyKind, PropertySerialization};
use rbx_types::{Variant, VariantType};
use serde::{Deserialize, Serialize};
use serde_json::{json, Value};

use crate::codec::{expect_binary_value, expect_xml_value, neutral, XmlMode};
use crate::evidence::Run;
use crate::specdb::{self, db, Lookup, Ser};
use crate::sweeps::{run_cases, SweepOut};
use crate::vals::{render, FloatMode};

fn r(v: &Variant) -> String {
    render(v, FloatMode::NanClass, &|x| if x.is_none() { "null".into() } else { "dangling".into() })
}

#[derive(Clone, Debug, Serialize, Deserialize)]
pub enum Case16 {
    /// static coherence of one class
    Class { class: String },
    /// instance with all inherited defaults through both codecs
    Defaults { class: String },
    /// one reachable property name (own, inherited, alias) through both codecs' lookups
    Lookup { class: String, prop: String },
}

fn serializable(class: &str, prop: &str) -> Result<(), String> {
    match specdb::lookup(class, prop) {
        Lookup::Known(k) => match k.ser {
            Ser::Serializes | Ser::As { .. } => Ok(()),
            Ser::Migrate { .. } => Err(format!("{}.{} itself migrates", class, prop)),
            Ser::DoesNotSerialize => Err(format!("{}.{} does not serialize", class, prop)),
            Ser::Unknown => Err(format!("{}.{} has an unknown serialization", class, prop)),
        },
        Lookup::Broken(m) => Err(m),
        Lookup::UnknownProp => Err(format!("{}.{} does not exist", class, prop)),
        Lookup::UnknownClass => Err(format!("class {} does not exist", class)),
    }
}

/// Types a stored default may have for a property of the given canonical / wire type.
fn default_type_ok(default: &Variant, canonical: Option<VariantType>, wire: Option<VariantType>) -> bool {
    let t = default.ty();
    Some(t) == canonical || Some(t) == wire
}

fn class_coherence(class: &str) -> Vec<(String, String)> {
    let mut out = Vec::new();
    let d = db();
    let c = match d.classes.get(class) {
        Some(c) => c,
        None => return out,
    };
    if c.name.as_ref() != class {
        out.push(("db|class-name-key".into(), format!("class stored under key {} calls itself {}", class, c.name)));
    }
    // superclass chain
    let mut seen = BTreeSet::new();
    let mut cur = c;
    loop {
        if !seen.insert(cur.name.to_string()) {
            out.push(("db|superclass-cycle".into(), format!("superclass chain of {} revisits {}", class, cur.name)));
            break;
        }
        match &cur.superclass {
            None => break,
            Some(s) => match d.classes.get(s.as_ref()) {
                Some(n) => cur = n,
                None => {
                    out.push(("db|superclass-missing".into(), format!("{} names superclass {} which does not exist", cur.name, s)));
                    break;
                }
            },
        }
    }
    // the public helpers of rbx_reflection must see the same chain as our own walk of the data
    {
        let own: Vec<String> = seen.iter().cloned().collect::<Vec<_>>();
        let mut own_order: Vec<String> = Vec::new();
        let mut cur = Some(c);
        let mut guard = 0;
        while let Some(k) = cur {
            own_order.push(k.name.to_string());
            cur = k.superclass.as_ref().and_then(|s| d.classes.get(s.as_ref()));
            guard += 1;
            if guard > 64 {
                break;
            }
        }
        let via_vec: Option<Vec<String>> = crate::evidence::guarded(|| d.superclasses(c).map(|v| v.iter().map(|k| k.name.to_string()).collect())).ok().flatten();
        let via_iter: Vec<String> = crate::evidence::guarded(|| d.superclasses_iter(c).take(65).map(|k| k.name.to_string()).collect()).unwrap_or_default();
        if via_vec.as_ref() != Some(&own_order) {
            out.push(("db|helper|superclasses".into(), format!("ReflectionDatabase::superclasses({}) = {:?}, the chain in the data is {:?}", class, via_vec, own_order)));
        }
        if via_iter != own_order {
            out.push(("db|helper|superclasses_iter".into(), format!("ReflectionDatabase::superclasses_iter({}) = {:?}, the chain in the data is {:?}", class, via_iter, own_order)));
        }
        for anc in &own_order {
            if let Some(a) = d.classes.get(anc.as_str()) {
                if !d.has_superclass(c, a) {
                    out.push(("db|helper|has_superclass".into(), format!("has_superclass({}, {}) is false although {} is on the chain", class, anc, anc)));
                }
            }
        }
        // a class that is not on the chain is not a superclass
        for probe in ["Instance", "Object", "Part", "Folder", "GuiObject"] {
            if let Some(a) = d.classes.get(probe) {
                if d.has_superclass(c, a) != own_order.iter().any(|n| n == probe) {
                    out.push(("db|helper|has_superclass".into(), format!("has_superclass({}, {}) disagrees with the chain {:?}", class, probe, own_order)));
                }
            }
        }
        // find_default_property against our own walk, for every default reachable for this class
        for (k, v) in all_defaults(class) {
            let got = crate::evidence::guarded(|| d.find_default_property(c, &k).cloned()).ok().flatten();
            if got.as_ref().map(r) != Some(r(&v)) {
                out.push(("db|helper|find_default_property".into(), format!("find_default_property({}, {}) = {:?}, our walk of the data finds {}", class, k, got.as_ref().map(r), r(&v))));
            }
        }
        let _ = own;
    }
    for (pname, desc) in c.properties.iter() {
        if desc.name.as_ref() != pname.as_ref() {
            out.push(("db|prop-name-key".into(), format!("{}.{} calls itself {}", class, pname, desc.name)));
        }
        match &desc.data_type {
            DataType::Enum(e) => {
                if !d.enums.contains_key(e.as_ref()) {
                    out.push(("db|enum-missing".into(), format!("{}.{} refers to enum {} which does not exist", class, pname, e)));
                }
            }
            DataType::Value(_) => {}
            _ => out.push(("db|unknown-datatype".into(), format!("{}.{} has an unknown data type", class, pname))),
        }
        match &desc.kind {
            PropertyKind::Alias { alias_for } => match c.properties.get(alias_for.as_ref()) {
                None => out.push(("db|alias-dangling".into(), format!("{}.{} is an alias for {} which is not a property of the same class", class, pname, alias_for))),
                Some(t) => {
                    if !matches!(t.kind, PropertyKind::Canonical { .. }) {
                        out.push(("db|alias-to-alias".into(), format!("{}.{} is an alias for {} which is not canonical", class, pname, alias_for)));
                    }
                }
            },
            PropertyKind::Canonical { serialization } => match serialization {
                PropertySerialization::SerializesAs(t) => match c.properties.get(t.as_ref()) {
                    None => out.push(("db|serializes-as-dangling".into(), format!("{}.{} serializes as {} which is not a property of the same class", class, pname, t))),
                    Some(td) => {
                        // the target must itself be usable as a wire descriptor
                        match &td.kind {
                            PropertyKind::Canonical { serialization: PropertySerialization::SerializesAs(_) }
                            | PropertyKind::Canonical { serialization: PropertySerialization::Migrate(_) } => out.push((
                                "db|serializes-as-chain".into(),
                                format!("{}.{} serializes as {} which itself redirects", class, pname, t),
                            )),
                            _ => {}
                        }
                    }
                },
                PropertySerialization::Migrate(m) => {
                    if let Err(e) = serializable(class, &m.new_property_name) {
                        out.push(("db|migrate-target".into(), format!("{}.{} migrates to {}: {}", class, pname, m.new_property_name, e)));
                    }
                }
                PropertySerialization::Serializes | PropertySerialization::DoesNotSerialize => {}
                _ => out.push(("db|unknown-serialization".into(), format!("{}.{} has an unknown serialization", class, pname))),
            },
            _ => out.push(("db|unknown-kind".into(), format!("{}.{} has an unknown kind", class, pname))),
        }
        // our own resolver must agree that the name resolves
        if let Lookup::Broken(m) = specdb::lookup(class, pname) {
            out.push(("db|lookup-broken".into(), m));
        }
    }
    for (dname, dv) in c.default_properties.iter() {
        match specdb::lookup(class, dname) {
            Lookup::Known(k) => {
                let canonical = k.canonical_ty.variant_type();
                let wire = match &k.ser {
                    Ser::As { ty, .. } => ty.variant_type(),
                    _ => canonical,
                };
                if k.via_alias {
                    out.push(("db|default-under-alias".into(), format!("default {}.{} is keyed by an alias of {}", class, dname, k.canonical)));
                }
                if !default_type_ok(dv, canonical, wire) {
                    out.push((
                        format!("db|default-type|{:?}-for-{:?}", dv.ty(), canonical),
                        format!("default {}.{} is a {:?} but the property is declared {:?} (serialized {:?})", class, dname, dv.ty(), canonical, wire),
                    ));
                }
            }
            Lookup::UnknownProp => out.push(("db|default-unknown-prop".into(), format!("default {}.{} names no property reachable for the class", class, dname))),
            Lookup::Broken(m) => out.push(("db|lookup-broken".into(), m)),
            Lookup::UnknownClass => {}
        }
    }
    out
}

fn all_defaults(class: &str) -> BTreeMap<String, Variant> {
    let mut m: BTreeMap<String, Variant> = BTreeMap::new();
    if let Some(chain) = specdb::class_chain(class) {
        for c in chain.iter().rev() {
            for (k, v) in c.default_properties.iter() {
                m.insert(k.to_string(), v.clone());
            }
        }
    }
    m
}

fn first_instance(dom: &WeakDom) -> Option<&rbx_dom_weak::Instance> {
    dom.get_by_ref(*dom.root().children().first()?)
}

thread_local! {
    pub static COMPARED: std::cell::Cell<u64> = std::cell::Cell::new(0);
}

fn through_codecs(class: &str, props: &BTreeMap<String, Variant>, tag: &str) -> Vec<(String, String)> {
    let mut out = Vec::new();
    let mut b = InstanceBuilder::new(class).with_name("subject");
    for (k, v) in props {
        b = b.with_property(k.as_str(), v.clone());
    }
    let dom = WeakDom::new(InstanceBuilder::new("DataModel").with_child(b));
    let roots = dom.root().children().to_vec();
    // binary
    let res = crate::evidence::guarded(|| {
        let mut buf = Vec::new();
        match rbx_binary::to_writer(&mut buf, &dom, &roots) {
            Err(e) => Err(format!("encode: {}", e)),
            Ok(()) => rbx_binary::from_reader(buf.as_slice()).map_err(|e| format!("decode: {}", e)),
        }
    });
    match res {
        Err((site, msg)) => out.push((format!("{}|binary-panic|{}", tag, crate::evidence::panic_signature(&site, &msg)), format!("rbx_binary panicked for class {} at {}: {}", class, site, msg))),
        Ok(Err(e)) => out.push((format!("{}|binary-err|{}", tag, class), format!("rbx_binary cannot round-trip class {}: {}", class, e.chars().take(300).collect::<String>()))),
        Ok(Ok(d2)) => match first_instance(&d2) {
            None => out.push((format!("{}|binary-lost", tag), format!("instance of {} disappeared", class))),
            Some(inst) => {
                for (k, v) in props {
                    if let Some((name, ev)) = expect_binary_value(class, k, v) {
                        match inst.properties.get(&name.as_str().into()) {
                            None => out.push((format!("{}|binary-missing|{}.{}", tag, class, k), format!("{}.{} did not come back from rbx_binary (expected under {})", class, k, name))),
                            Some(got) => {
                                COMPARED.with(|c| c.set(c.get() + 1));
                                if r(got) != r(&ev) {
                                    out.push((format!("{}|binary-value|{:?}", tag, v.ty()), format!("{}.{} changed in rbx_binary: {} -> {}", class, k, r(&ev).chars().take(100).collect::<String>(), r(got).chars().take(100).collect::<String>())));
                                }
                            }
                        }
                    }
                }
            }
        },
    }
    // XML
    let res = crate::evidence::guarded(|| {
        let mut buf = Vec::new();
        match rbx_xml::to_writer_default(&mut buf, &dom, &roots) {
            Err(e) => Err(format!("encode: {}", e)),
            Ok(()) => rbx_xml::from_reader_default(buf.as_slice()).map_err(|e| format!("decode: {}", e)),
        }
    });
    match res {
        Err((site, msg)) => out.push((format!("{}|xml-panic|{}", tag, crate::evidence::panic_signature(&site, &msg)), format!("rbx_xml panicked for class {} at {}: {}", class, site, msg))),
        Ok(Err(e)) => out.push((format!("{}|xml-err|{}", tag, class), format!("rbx_xml cannot round-trip class {}: {}", class, e.chars().take(300).collect::<String>()))),
        Ok(Ok(d2)) => match first_instance(&d2) {
            None => out.push((format!("{}|xml-lost", tag), format!("instance of {} disappeared", class))),
            Some(inst) => {
                for (k, v) in props {
                    if let Some((name, ev)) = expect_xml_value(class, k, v, XmlMode::Default) {
                        match inst.properties.get(&name.as_str().into()) {
                            None => out.push((format!("{}|xml-missing|{}.{}", tag, class, k), format!("{}.{} did not come back from rbx_xml (expected under {})", class, k, name))),
                            Some(got) => {
                                COMPARED.with(|c| c.set(c.get() + 1));
                                if r(got) != r(&ev) {
                                    out.push((format!("{}|xml-value|{:?}", tag, v.ty()), format!("{}.{} changed in rbx_xml: {} -> {}", class, k, r(&ev).chars().take(100).collect::<String>(), r(got).chars().take(100).collect::<String>())));
                                }
                            }
                        }
                    }
                }
            }
        },
    }
    out
}

pub fn judge(c: &Case16) -> Vec<(String, String)> {
    match c {
        Case16::Class { class } => class_coherence(class),
        Case16::Defaults { class } => {
            let props = all_defaults(class);
            through_codecs(class, &props, "defaults")
        }
        Case16::Lookup { class, prop } => {
            // a value of the declared type: the recorded default if any, else the neutral value
            let mut props = BTreeMap::new();
            let v = match specdb::lookup(class, prop) {
                Lookup::Known(k) => {
                    let ty = k.canonical_ty.variant_type();
                    specdb::default_value(class, &k.canonical).cloned().or_else(|| ty.and_then(neutral))
                }
                _ => None,
            };
            let v = match v {
                Some(v) => v,
                None => return vec![],
            };
            props.insert(prop.clone(), v);
            // panics, and lookup failures: a property the database says serializes (plainly or under
            // another descriptor) must come back from each codec, under the canonical name of the
            // descriptor it is stored as (Name is routed to Instance.name; migrating legacy
            // properties are C15's business; value fidelity is C06's)
            let mut out: Vec<(String, String)> = through_codecs(class, &props, "lookup").into_iter().filter(|(k, _)| k.contains("panic")).collect();
            let expected_name = match specdb::lookup(class, prop) {
                Lookup::Known(k) if prop != "Name" => match &k.ser {
                    Ser::Serializes => Some(k.canonical.clone()),
                    Ser::As { name, .. } => match specdb::lookup(class, name) {
                        Lookup::Known(t) => Some(t.canonical.clone()),
                        _ => None,
                    },
                    _ => None,
                },
                _ => None,
            };
            if let Some(name) = expected_name {
                let mk = || WeakDom::new(InstanceBuilder::new("DataModel").with_child(InstanceBuilder::new(class.as_str()).with_name("subject").with_property(prop.as_str(), props[prop].clone())));
                let dom = mk();
                let roots = dom.root().children().to_vec();
                let bin = crate::evidence::guarded(|| {
                    let mut buf = Vec::new();
                    rbx_binary::to_writer(&mut buf, &dom, &roots).ok()?;
                    rbx_binary::from_reader(buf.as_slice()).ok()
                });
                if let Ok(Some(d2)) = bin {
                    if first_instance(&d2).map(|i| !i.properties.contains_key(&name.as_str().into())).unwrap_or(true) {
                        out.push((format!("lookup|binary-drops|{}.{}", class, prop), format!("{}.{} serializes according to the database but does not come back from rbx_binary (expected under {})", class, prop, name)));
                    }
                }
                let xml = crate::evidence::guarded(|| {
                    let mut buf = Vec::new();
                    rbx_xml::to_writer_default(&mut buf, &dom, &roots).ok()?;
                    rbx_xml::from_reader_default(buf.as_slice()).ok()
                });
                if let Ok(Some(d2)) = xml {
                    if first_instance(&d2).map(|i| !i.properties.contains_key(&name.as_str().into())).unwrap_or(true) {
                        out.push((format!("lookup|xml-drops|{}.{}", class, prop), format!("{}.{} serializes according to the database but does not come back from rbx_xml (expected under {})", class, prop, name)));
                    }
                }
            }
            out
        }
    }
}

/// Minimal self-describing value for the generic decode (serde_json::Value cannot hold byte strings).
#[derive(Debug, Clone)]
pub enum Any {
    Null,
    Bool(bool),
    I(i64),
    U(u64),
    F(f64),
    S(String),
    B(Vec<u8>),
    Seq(Vec<Any>),
    Map(Vec<(Any, Any)>),
}

impl<'de> serde::Deserialize<'de> for Any {
    fn deserialize<D: serde::Deserializer<'de>>(d: D) -> Result<Any, D::Error> {
        struct V;
        impl<'de> serde::de::Visitor<'de> for V {
            type Value = Any;
            fn expecting(&self, f: &mut std::fmt::Formatter) -> std::fmt::Result {
                f.write_str("any msgpack value")
            }
            fn visit_bool<E>(self, v: bool) -> Result<Any, E> { Ok(Any::Bool(v)) }
            fn visit_i64<E>(self, v: i64) -> Result<Any, E> { Ok(Any::I(v)) }
            fn visit_u64<E>(self, v: u64) -> Result<Any, E> { Ok(Any::U(v)) }
            fn visit_f32<E>(self, v: f32) -> Result<Any, E> { Ok(Any::F(v as f64)) }
            fn visit_f64<E>(self, v: f64) -> Result<Any, E> { Ok(Any::F(v)) }
            fn visit_str<E>(self, v: &str) -> Result<Any, E> { Ok(Any::S(v.to_owned())) }
            fn visit_string<E>(self, v: String) -> Result<Any, E> { Ok(Any::S(v)) }
            fn visit_bytes<E>(self, v: &[u8]) -> Result<Any, E> { Ok(Any::B(v.to_vec())) }
            fn visit_byte_buf<E>(self, v: Vec<u8>) -> Result<Any, E> { Ok(Any::B(v)) }
            fn visit_unit<E>(self) -> Result<Any, E> { Ok(Any::Null) }
            fn visit_none<E>(self) -> Result<Any, E> { Ok(Any::Null) }
            fn visit_some<D2: serde::Deserializer<'de>>(self, d: D2) -> Result<Any, D2::Error> { Any::deserialize(d) }
            fn visit_newtype_struct<D2: serde::Deserializer<'de>>(self, d: D2) -> Result<Any, D2::Error> { Any::deserialize(d) }
            fn visit_seq<A: serde::de::SeqAccess<'de>>(self, mut a: A) -> Result<Any, A::Error> {
                let mut v = Vec::new();
                while let Some(x) = a.next_element::<Any>()? {
                    v.push(x);
                }
                Ok(Any::Seq(v))
            }
            fn visit_map<A: serde::de::MapAccess<'de>>(self, mut a: A) -> Result<Any, A::Error> {
                let mut v = Vec::new();
                while let Some((k, x)) = a.next_entry::<Any, Any>()? {
                    v.push((k, x));
                }
                Ok(Any::Map(v))
            }
        }
        d.deserialize_any(V)
    }
}

impl Any {
    pub fn get(&self, key: &str) -> Option<&Any> {
        match self {
            Any::Map(m) => m.iter().find(|(k, _)| matches!(k, Any::S(s) if s == key)).map(|(_, v)| v),
            _ => None,
        }
    }
    pub fn map(&self) -> Option<Vec<(String, &Any)>> {
        match self {
            Any::Map(m) => Some(m.iter().filter_map(|(k, v)| if let Any::S(s) = k { Some((s.clone(), v)) } else { None }).collect()),
            _ => None,
        }
    }
    pub fn len(&self) -> Option<usize> {
        match self {
            Any::Map(m) => Some(m.len()),
            Any::Seq(v) => Some(v.len()),
            _ => None,
        }
    }
    pub fn as_str(&self) -> Option<&str> {
        if let Any::S(s) = self { Some(s) } else { None }
    }
    pub fn as_u64(&self) -> Option<u64> {
        match self {
            Any::U(u) => Some(*u),
            Any::I(i) if *i >= 0 => Some(*i as u64),
            _ => None,
        }
    }
}

/// The bundled database.msgpack decoded generically (no rbx_reflection types involved) and
/// compared with what `rbx_reflection_database::get()` hands out: a loader that silently drops
/// or renames entries of some shape would otherwise leave every coherence check green.
pub fn raw_vs_loaded() -> (Vec<(String, String)>, Value) {
    let mut out = Vec::new();
    let path = "/repo/rbx_reflection_database/database.msgpack";
    let bytes = match std::fs::read(path) {
        Ok(b) => b,
        Err(e) => crate::evidence::machinery_failure(&format!("cannot read {}: {}", path, e)),
    };
    let raw: Any = match rmp_serde::from_slice(&bytes) {
        Ok(v) => v,
        Err(e) => crate::evidence::machinery_failure(&format!("generic msgpack decode of the database failed: {}", e)),
    };
    let d = db();
    // structs are stored either as maps (field names) or, as rmp-serde's compact form does, as
    // arrays in declaration order: ReflectionDatabase [version, classes, enums], ClassDescriptor
    // [name, tags, superclass, properties, default_properties], EnumDescriptor [name, items]
    let position = |name: &str| -> usize {
        match name {
            "Classes" | "Tags" | "Items" => 1,
            "Enums" | "Superclass" => 2,
            "Properties" => 3,
            "DefaultProperties" => 4,
            _ => usize::MAX,
        }
    };
    let field = |v: &Any, names: &[&str]| -> Option<Any> {
        for n in names {
            if let Some(x) = v.get(n) {
                return Some(x.clone());
            }
        }
        if let Any::Seq(items) = v {
            return items.get(position(names[0])).cloned();
        }
        None
    };
    let classes = field(&raw, &["Classes", "classes"]).unwrap_or(Any::Null);
    let enums = field(&raw, &["Enums", "enums"]).unwrap_or(Any::Null);
    let (mut n_props, mut n_defaults, mut n_items) = (0usize, 0usize, 0usize);
    match classes.map() {
        None => out.push(("db|raw|shape".into(), "the raw database has no Classes map".into())),
        Some(m) => {
            if m.len() != d.classes.len() {
                out.push(("db|raw|class-count".into(), format!("database.msgpack holds {} classes, get() exposes {}", m.len(), d.classes.len())));
            }
            for (cname, c) in m {
                let loaded = match d.classes.get(cname.as_str()) {
                    Some(l) => l,
                    None => {
                        out.push(("db|raw|class-missing".into(), format!("class {} is in database.msgpack but not in get()", cname)));
                        continue;
                    }
                };
                let sup = field(c, &["Superclass", "superclass"]);
                let sup_s = sup.as_ref().and_then(|x| x.as_str()).map(|x| x.to_owned());
                if sup_s != loaded.superclass.as_ref().map(|s| s.to_string()) {
                    out.push(("db|raw|superclass".into(), format!("class {}: superclass {:?} in the file, {:?} loaded", cname, sup_s, loaded.superclass)));
                }
                if let Some(pm) = field(c, &["Properties", "properties"]).and_then(|p| p.map().map(|m| m.into_iter().map(|(k, _)| k).collect::<Vec<_>>())) {
                    n_props += pm.len();
                    for pname in &pm {
                        if !loaded.properties.contains_key(pname.as_str()) {
                            out.push(("db|raw|property-missing".into(), format!("{}.{} is in database.msgpack but not loaded", cname, pname)));
                        }
                    }
                    if pm.len() != loaded.properties.len() {
                        out.push(("db|raw|property-count".into(), format!("class {}: {} properties in the file, {} loaded", cname, pm.len(), loaded.properties.len())));
                    }
                }
                if let Some(dm) = field(c, &["DefaultProperties", "default_properties"]).and_then(|p| p.map().map(|m| m.into_iter().map(|(k, _)| k).collect::<Vec<_>>())) {
                    n_defaults += dm.len();
                    if dm.len() != loaded.default_properties.len() {
                        out.push(("db|raw|default-count".into(), format!("class {}: {} defaults in the file, {} loaded", cname, dm.len(), loaded.default_properties.len())));
                    }
                    for k in &dm {
                        if !loaded.default_properties.contains_key(k.as_str()) {
                            out.push(("db|raw|default-missing".into(), format!("default {}.{} is in database.msgpack but not loaded", cname, k)));
                        }
                    }
                }
                if let Some(t) = field(c, &["Tags", "tags"]).and_then(|t| t.len()) {
                    if t != loaded.tags.len() {
                        out.push(("db|raw|class-tags".into(), format!("class {}: {} tags in the file, {} loaded", cname, t, loaded.tags.len())));
                    }
                }
            }
        }
    }
    match enums.map() {
        None => out.push(("db|raw|shape".into(), "the raw database has no Enums map".into())),
        Some(m) => {
            if m.len() != d.enums.len() {
                out.push(("db|raw|enum-count".into(), format!("database.msgpack holds {} enums, get() exposes {}", m.len(), d.enums.len())));
            }
            for (ename, e) in m {
                if let (Some(items), Some(le)) = (field(e, &["Items", "items"]), d.enums.get(ename.as_str())) {
                    if let Some(im) = items.map() {
                        n_items += im.len();
                        if im.len() != le.items.len() {
                            out.push(("db|raw|enum-items".into(), format!("enum {}: {} items in the file, {} loaded", ename, im.len(), le.items.len())));
                        }
                        for (iname, iv) in im {
                            if le.items.get(iname.as_str()).map(|x| *x as u64) != iv.as_u64() {
                                out.push(("db|raw|enum-item-value".into(), format!("enum {}.{}: {:?} in the file, {:?} loaded", ename, iname, iv, le.items.get(iname.as_str()))));
                            }
                        }
                    }
                }
            }
        }
    }
    out.sort();
    out.dedup_by(|a, b| a.0 == b.0);
    (out, json!({"raw_classes": classes.len(), "raw_property_descriptors": n_props, "raw_default_values": n_defaults, "raw_enums": enums.len(), "raw_enum_items": n_items}))
}

/// "any database regenerated by rbx_reflector": the loaded database is written the three ways
/// `rbx_reflector generate` writes one (compact MessagePack, human-readable struct-map MessagePack,
/// JSON), read back the way rbx_reflection_database reads it, and must describe the same classes,
/// chains, properties, defaults and enums; the compact form must also reproduce the bundled file's
/// size class by class.
pub fn regenerate() -> (Vec<(String, String)>, Value) {
    use rbx_reflection::ReflectionDatabase;
    use serde::Serialize;
    let mut out = Vec::new();
    let mut sizes = serde_json::Map::new();
    // the bundled database, and the synthetic one (descriptor shapes the bundled one lacks: a
    // second hierarchy, enum items that share a value, an enum without items)
    let synthetic = v2_database();
    for (which, d) in [("", db()), ("synthetic|", &synthetic)] {
    let summary = |x: &ReflectionDatabase| -> BTreeMap<String, String> {
        let mut m = BTreeMap::new();
        for (cname, c) in x.classes.iter() {
            let mut props: Vec<String> = c.properties.iter().map(|(k, p)| format!("{}:{:?}:{:?}", k, p.kind, p.data_type)).collect();
            props.sort();
            let mut defs: Vec<String> = c.default_properties.iter().map(|(k, v)| format!("{}={}", k, r(v))).collect();
            defs.sort();
            let mut tags: Vec<String> = c.tags.iter().map(|t| format!("{:?}", t)).collect();
            tags.sort();
            m.insert(format!("class {}", cname), format!("super={:?} tags={:?} props={:?} defaults={:?}", c.superclass, tags, props, defs));
        }
        for (ename, e) in x.enums.iter() {
            let mut items: Vec<String> = e.items.iter().map(|(k, v)| format!("{}={}", k, v)).collect();
            items.sort();
            m.insert(format!("enum {}", ename), format!("{:?}", items));
        }
        m.insert("version".into(), format!("{:?}", x.version));
        m
    };
    let want = summary(d);
    let mut forms: Vec<(&str, Result<Vec<u8>, String>)> = Vec::new();
    forms.push(("msgpack-compact", rmp_serde::to_vec(d).map_err(|e| e.to_string())));
    forms.push(("msgpack-human-readable-struct-map", {
        let mut buf = Vec::new();
        let mut ser = rmp_serde::Serializer::new(&mut buf).with_human_readable().with_struct_map();
        d.serialize(&mut ser).map(|_| buf).map_err(|e| e.to_string())
    }));
    forms.push(("json", serde_json::to_vec(d).map_err(|e| e.to_string())));
    for (name, enc) in forms {
        let bytes = match enc {
            Ok(b) => b,
            Err(e) => {
                out.push((format!("db|regenerate|{}{}|encode", which, name), format!("the loaded database cannot be written as {}: {}", name, e)));
                continue;
            }
        };
        sizes.insert(format!("{}{}", which, name), json!(bytes.len()));
        if name == "json" {
            // the JSON form is consumed by rbx_dom_lua, not read back by Rust (it cannot carry the
            // NaN defaults of the bundled database): writing it must succeed, nothing more
            continue;
        }
        let back: Result<ReflectionDatabase, String> = crate::evidence::guarded(|| {
            if name == "msgpack-human-readable-struct-map" {
                use serde::Deserialize;
                let mut de = rmp_serde::Deserializer::new(bytes.as_slice()).with_human_readable();
                ReflectionDatabase::deserialize(&mut de).map_err(|e| e.to_string())
            } else {
                rmp_serde::decode::from_slice::<ReflectionDatabase>(&bytes).map_err(|e| e.to_string())
            }
        })
        .unwrap_or_else(|(s, m)| Err(format!("panic {} {}", s, m)));
        match back {
            Err(e) => out.push((format!("db|regenerate|{}{}|decode", which, name), format!("a database written as {} cannot be loaded again: {}", name, e.chars().take(200).collect::<String>()))),
            Ok(b) => {
                let got = summary(&b);
                if got != want {
                    let k = want.iter().find(|(k, v)| got.get(*k) != Some(v)).map(|(k, _)| k.clone()).or_else(|| got.keys().find(|k| !want.contains_key(*k)).cloned()).unwrap_or_default();
                    out.push((format!("db|regenerate|{}{}|differs", which, name), format!("a database written as {} and loaded again differs, first at {}: {} vs {}", name, k, want.get(&k).map(|s| s.chars().take(160).collect::<String>()).unwrap_or_default(), got.get(&k).map(|s| s.chars().take(160).collect::<String>()).unwrap_or_default())));
                }
            }
        }
    }
    }
    (out, Value::Object(sizes))
}

pub fn cases() -> (Vec<Case16>, Value) {
    let d = db();
    let mut classes: Vec<String> = d.classes.keys().map(|k| k.to_string()).collect();
    classes.sort();
    let mut out = Vec::new();
    let mut descriptors = 0usize;
    let mut defaults = 0usize;
    let mut lookups = 0usize;
    for c in &classes {
        out.push(Case16::Class { class: c.clone() });
        out.push(Case16::Defaults { class: c.clone() });
        descriptors += d.classes[c.as_str()].properties.len();
        defaults += d.classes[c.as_str()].default_properties.len();
        let mut names: BTreeSet<String> = BTreeSet::new();
        if let Some(chain) = specdb::class_chain(c) {
            for cc in chain {
                for p in cc.properties.keys() {
                    names.insert(p.to_string());
                }
            }
        }
        for p in names {
            lookups += 1;
            out.push(Case16::Lookup { class: c.clone(), prop: p });
        }
    }
    let counts = json!({"classes": classes.len(), "property_descriptors": descriptors, "enums": d.enums.len(), "default_values": defaults, "reachable_class_property_pairs": lookups});
    (out, counts)
}

pub fn check(run: &Run) -> Value {
    let (cs, counts) = cases();
    let seed = run.seed;
    let total: SweepOut = run_cases(&cs, &|i, c, out| {
        out.nontrivial += 1;
        out.executions += 1;
        let before = COMPARED.with(|c| c.get());
        let vs = judge(c);
        let after = COMPARED.with(|c| c.get());
        *out.outcomes.entry("property-values-compared".to_owned()).or_insert(0) += after - before;
        out.outcome(match c {
            Case16::Class { .. } => "class-coherence",
            Case16::Defaults { .. } => "defaults-roundtrip",
            Case16::Lookup { .. } => "lookup",
        });
        for (k, w) in vs {
            out.violation(k, w, || serde_json::to_value(c).unwrap());
        }
        if out.samples.len() < 2 && (i as u64 + seed) % 5003 == 11 {
            out.samples.push(serde_json::to_string(c).unwrap());
        }
    });
    let mut total = total;
    let (raw_problems, raw_counts) = raw_vs_loaded();
    total.cases += 1;
    total.executions += 1;
    for (k, w) in raw_problems {
        total.violation(k, w, || json!({"raw_vs_loaded": true}));
    }
    let (regen_problems, regen_sizes) = regenerate();
    total.cases += 3;
    total.executions += 6;
    for (k, w) in regen_problems {
        total.violation(k, w, || json!({"regenerate": true}));
    }
    let (variant_problems, variant_counts) = variant_databases();
    total.cases += 2;
    total.executions += variant_counts["comparisons"].as_u64().unwrap_or(0);
    for (k, w) in variant_problems {
        total.violation(k, w, || json!({"variant_databases": true}));
    }
    total.report(run);
    println!("C16 walk: {} cases; database {}; raw file {}; regenerated sizes {}; variant databases {}", total.cases, counts, raw_counts, regen_sizes, variant_counts);
    json!({
        "regenerated_and_reloaded_forms_bytes": regen_sizes,
        "database_file_decoded_generically": raw_counts,
        "variant_databases": variant_counts,
        "states": total.cases,
        "transitions": total.executions,
        "traces_validated_against_impl": total.executions,
        "evaluations": total.executions,
        "distinct_nontrivial": total.nontrivial,
        "database": counts,
        "case_kinds": total.outcomes,
        "samples": total.samples.iter().map(|s| serde_json::from_str::<Value>(s).unwrap()).collect::<Vec<_>>(),
        "exhaustive": true,
        "rule": "complete walk of rbx_reflection_database::get(): every class (superclass chain, every descriptor's alias / serializes-as / migration target / enum, every default's key and type), one instance per class carrying all inherited defaults through rbx_binary and rbx_xml, and every reachable (class, property name) pair through both codecs' lookups under catch_unwind; two databases of another shape built through the public types (duplicate migrations re-spelled as aliases: same behaviour as the bundled database for every subclass, value and path; a class with every descriptor shape and an alias of each: both codecs resolve every spelling to what the shapes say)",
    })
}

pub fn replay(case: &Value) -> Vec<(String, String)> {
    if case.get("raw_vs_loaded").is_some() {
        return raw_vs_loaded().0;
    }
    if case.get("regenerate").is_some() {
        return regenerate().0;
    }
    if case.get("variant_databases").is_some() {
        return variant_databases().0;
    }
    let c: Case16 = serde_json::from_value(case.clone()).unwrap_or_else(|e| crate::evidence::machinery_failure(&format!("bad replay: {}", e)));
    let a = judge(&c);
    let b = judge(&c);
    if a != b {
        crate::evidence::machinery_failure("replay gave two different observations");
    }
    a
}

// ---------------------------------------------------------------------------
use rbx_reflection::ReflectionDatabase;

// Regenerated databases of another shape ("any database regenerated by rbx_reflector from a
// newer dump plus patches/"). Two variants are built through rbx_reflection's public types:
//
// V1 re-spells the bundled database without changing what it means: where one class declares
// two migrating properties with the same target and operation (`BasePart.BrickColor` and
// `brickColor`), the second becomes an *alias* of the first. Every DOM and every legacy-named
// file must behave under V1 as it does under the bundled database.
//
// V2 adds a class that has every descriptor shape next to every other: plain, serialized-as
// (+ the alias it is stored under), migrating (+ a serialized-as target), non-serializing, and
// an alias of each. Whatever name a value is carried under, both codecs must resolve it the
// same way, and to what the shapes say.

fn v1_database() -> (ReflectionDatabase<'static>, Vec<(String, String, String)>) {
    use rbx_reflection::{PropertyKind, PropertySerialization};
    let mut database = rbx_reflection_database::get().clone();
    let mut respelled = Vec::new();
    let mut names: Vec<String> = database.classes.keys().map(|k| k.to_string()).collect();
    names.sort();
    for cn in names {
        let class = database.classes.get_mut(cn.as_str()).unwrap();
        let mut groups: BTreeMap<String, Vec<String>> = BTreeMap::new();
        for (pn, p) in class.properties.iter() {
            if let PropertyKind::Canonical { serialization: PropertySerialization::Migrate(m) } = &p.kind {
                groups.entry(format!("{:?}|{:?}", m, p.data_type)).or_default().push(pn.to_string());
            }
        }
        for (_, mut g) in groups {
            g.sort();
            for other in g.iter().skip(1) {
                class.properties.get_mut(other.as_str()).unwrap().kind = PropertyKind::Alias { alias_for: std::borrow::Cow::Owned(g[0].clone()) };
                respelled.push((cn.clone(), other.clone(), g[0].clone()));
            }
        }
    }
    (database, respelled)
}

fn v2_database() -> ReflectionDatabase<'static> {
    use rbx_reflection::{ClassDescriptor, DataType, PropertyDescriptor, PropertyKind, PropertySerialization};
    use std::borrow::Cow;
    let mut database = rbx_reflection_database::get().clone();
    let migrate = match &database.classes["BasePart"].properties["BrickColor"].kind {
        PropertyKind::Canonical { serialization: PropertySerialization::Migrate(m) } => {
            let mut m = m.clone();
            m.new_property_name = "NewColor".to_owned();
            m
        }
        other => crate::evidence::machinery_failure(&format!("BasePart.BrickColor is expected to migrate, found {:?}", other)),
    };
    let mut class = ClassDescriptor::new("ZzVerifShapes");
    class.superclass = Some(Cow::Borrowed("Instance"));
    let mut add = |name: &'static str, ty: VariantType, kind: PropertyKind<'static>| {
        let mut p = PropertyDescriptor::new(name, DataType::Value(ty));
        p.kind = kind;
        class.properties.insert(Cow::Borrowed(name), p);
    };
    let canon = |s: PropertySerialization<'static>| PropertyKind::Canonical { serialization: s };
    let alias = |t: &'static str| PropertyKind::Alias { alias_for: Cow::Borrowed(t) };
    add("Plain", VariantType::Int32, canon(PropertySerialization::Serializes));
    add("Stored", VariantType::Int32, canon(PropertySerialization::SerializesAs(Cow::Borrowed("stored"))));
    add("stored", VariantType::Int32, alias("Stored"));
    add("NewColor", VariantType::Color3, canon(PropertySerialization::SerializesAs(Cow::Borrowed("NewColor8"))));
    add("NewColor8", VariantType::Color3uint8, alias("NewColor"));
    add("OldColor", VariantType::BrickColor, canon(PropertySerialization::Migrate(migrate.clone())));
    // a migration whose target is named by its stored (alias) spelling
    let mut to_alias = migrate;
    to_alias.new_property_name = "NewColor8".to_owned();
    add("OldColorB", VariantType::BrickColor, canon(PropertySerialization::Migrate(to_alias)));
    add("Hidden", VariantType::Int32, canon(PropertySerialization::DoesNotSerialize));
    add("plainAlias", VariantType::Int32, alias("Plain"));
    add("storedAlias", VariantType::Int32, alias("Stored"));
    add("oldAlias", VariantType::BrickColor, alias("OldColor"));
    add("hiddenAlias", VariantType::Int32, alias("Hidden"));
    // defaults on the class that introduces the properties ...
    class.default_properties.insert(Cow::Borrowed("Plain"), Variant::Int32(77));
    class.default_properties.insert(Cow::Borrowed("Stored"), Variant::Int32(88));
    database.classes.insert(Cow::Borrowed("ZzVerifShapes"), class);
    // ... and two generations of subclasses: one that adds nothing, one that redeclares an
    // inherited property (as CommandInstance redeclares Name) without a default of its own, and a
    // grandchild with its own default for it
    let mut child = ClassDescriptor::new("ZzVerifChild");
    child.superclass = Some(Cow::Borrowed("ZzVerifShapes"));
    let mut redeclared = PropertyDescriptor::new("Plain", DataType::Value(VariantType::Int32));
    redeclared.kind = PropertyKind::Canonical { serialization: PropertySerialization::Serializes };
    child.properties.insert(Cow::Borrowed("Plain"), redeclared);
    database.classes.insert(Cow::Borrowed("ZzVerifChild"), child);
    let mut plain_child = ClassDescriptor::new("ZzVerifPlainChild");
    plain_child.superclass = Some(Cow::Borrowed("ZzVerifShapes"));
    database.classes.insert(Cow::Borrowed("ZzVerifPlainChild"), plain_child);
    let mut grandchild = ClassDescriptor::new("ZzVerifGrandchild");
    grandchild.superclass = Some(Cow::Borrowed("ZzVerifChild"));
    grandchild.default_properties.insert(Cow::Borrowed("Plain"), Variant::Int32(99));
    database.classes.insert(Cow::Borrowed("ZzVerifGrandchild"), grandchild);
    // enums of shapes the bundled database lacks: two item names for one value (a superseded
    // name kept next to its replacement), no items at all, a value above i32::MAX
    {
        let mut e = rbx_reflection::EnumDescriptor::new("ZzVerifEnum");
        e.items.insert(Cow::Borrowed("OldName"), 0);
        e.items.insert(Cow::Borrowed("NewName"), 0);
        e.items.insert(Cow::Borrowed("Other"), 1);
        e.items.insert(Cow::Borrowed("Big"), 0x8000_0001);
        database.enums.insert(Cow::Borrowed("ZzVerifEnum"), e);
        database.enums.insert(Cow::Borrowed("ZzVerifEmptyEnum"), rbx_reflection::EnumDescriptor::new("ZzVerifEmptyEnum"));
    }
    // a second hierarchy with a root of its own ("ends at a root class", not "at Object")
    database.classes.insert(Cow::Borrowed("ZzVerifOtherRoot"), ClassDescriptor::new("ZzVerifOtherRoot"));
    let mut other_child = ClassDescriptor::new("ZzVerifOtherChild");
    other_child.superclass = Some(Cow::Borrowed("ZzVerifOtherRoot"));
    database.classes.insert(Cow::Borrowed("ZzVerifOtherChild"), other_child);
    database
}

fn props_sorted(dom: &WeakDom) -> Result<Vec<(String, String)>, String> {
    let i = first_instance(dom).ok_or("instance lost")?;
    let mut v: Vec<(String, String)> = i.properties.iter().map(|(k, v)| (k.to_string(), r(v))).collect();
    v.sort();
    Ok(v)
}

type Props = Result<Vec<(String, String)>, String>;

fn rt_binary(dom: &WeakDom, db: &'static ReflectionDatabase<'static>) -> Props {
    let roots = dom.root().children().to_vec();
    crate::evidence::guarded(|| -> Props {
        let mut buf = Vec::new();
        rbx_binary::Serializer::new().reflection_database(db).serialize(&mut buf, dom, &roots).map_err(|e| format!("encode: {}", e))?;
        let d = rbx_binary::Deserializer::new().reflection_database(db).deserialize(buf.as_slice()).map_err(|e| format!("decode: {}", e))?;
        props_sorted(&d)
    })
    .unwrap_or_else(|(s, m)| Err(format!("panic at {}: {}", s, m)))
}

fn rt_xml(dom: &WeakDom, db: &'static ReflectionDatabase<'static>) -> Props {
    let roots = dom.root().children().to_vec();
    crate::evidence::guarded(|| -> Props {
        let mut buf = Vec::new();
        rbx_xml::to_writer(&mut buf, dom, &roots, rbx_xml::EncodeOptions::new().reflection_database(db)).map_err(|e| format!("encode: {}", e))?;
        let d = rbx_xml::from_reader(buf.as_slice(), rbx_xml::DecodeOptions::new().reflection_database(db)).map_err(|e| format!("decode: {}", e))?;
        props_sorted(&d)
    })
    .unwrap_or_else(|(s, m)| Err(format!("panic at {}: {}", s, m)))
}

/// reads a file that still carries `name` verbatim (written without a database) with `db`
fn read_legacy(dom: &WeakDom, db: &'static ReflectionDatabase<'static>, xml: bool) -> Props {
    static EMPTY: std::sync::OnceLock<ReflectionDatabase<'static>> = std::sync::OnceLock::new();
    let empty = EMPTY.get_or_init(ReflectionDatabase::new);
    let roots = dom.root().children().to_vec();
    crate::evidence::guarded(|| -> Props {
        let mut buf = Vec::new();
        if xml {
            rbx_xml::to_writer(&mut buf, dom, &roots, rbx_xml::EncodeOptions::new().property_behavior(rbx_xml::EncodePropertyBehavior::NoReflection)).map_err(|e| format!("encode: {}", e))?;
            let d = rbx_xml::from_reader(buf.as_slice(), rbx_xml::DecodeOptions::new().reflection_database(db)).map_err(|e| format!("decode: {}", e))?;
            props_sorted(&d)
        } else {
            rbx_binary::Serializer::new().reflection_database(empty).serialize(&mut buf, dom, &roots).map_err(|e| format!("encode: {}", e))?;
            let d = rbx_binary::Deserializer::new().reflection_database(db).deserialize(buf.as_slice()).map_err(|e| format!("decode: {}", e))?;
            props_sorted(&d)
        }
    })
    .unwrap_or_else(|(s, m)| Err(format!("panic at {}: {}", s, m)))
}

pub fn variant_databases() -> (Vec<(String, String)>, Value) {
    use rbx_dom_weak::InstanceBuilder;
    use rbx_types::{BrickColor, Color3, Color3uint8};
    static V1: std::sync::OnceLock<(ReflectionDatabase<'static>, Vec<(String, String, String)>)> = std::sync::OnceLock::new();
    static V2: std::sync::OnceLock<ReflectionDatabase<'static>> = std::sync::OnceLock::new();
    let (v1, respelled) = V1.get_or_init(v1_database);
    let v2 = V2.get_or_init(v2_database);
    let bundled: &'static ReflectionDatabase<'static> = rbx_reflection_database::get();
    let mut out = Vec::new();
    let mut compared = 0u64;
    // V1: same behaviour as the bundled database, for the declaring class and every subclass
    let mut class_names: Vec<String> = bundled.classes.keys().map(|k| k.to_string()).collect();
    class_names.sort();
    for (declaring, aliased, target) in respelled {
        for cn in &class_names {
            let chain = match specdb::class_chain(cn) {
                Some(c) => c,
                None => continue,
            };
            if !chain.iter().any(|c| c.name.as_ref() == declaring.as_str()) {
                continue;
            }
            let ty = bundled.classes[declaring.as_str()].properties[aliased.as_str()].data_type.clone();
            let values: Vec<Variant> = match ty {
                rbx_reflection::DataType::Value(VariantType::BrickColor) => vec![Variant::BrickColor(BrickColor::from_number(21).unwrap()), Variant::BrickColor(BrickColor::from_number(1004).unwrap())],
                rbx_reflection::DataType::Value(VariantType::Bool) => vec![Variant::Bool(true), Variant::Bool(false)],
                rbx_reflection::DataType::Value(VariantType::ContentId) => vec![Variant::ContentId("rbxassetid://5".into())],
                rbx_reflection::DataType::Enum(_) => vec![Variant::Enum(rbx_types::Enum::from_u32(3))],
                _ => continue,
            };
            for v in values {
                for spelled in [aliased.as_str(), target.as_str()] {
                    let dom = WeakDom::new(InstanceBuilder::new("DataModel").with_child(InstanceBuilder::new(cn.as_str()).with_name("x").with_property(spelled, v.clone())));
                    let pairs: [(&str, Props, Props); 4] = [
                        ("binary round trip", rt_binary(&dom, bundled), rt_binary(&dom, v1)),
                        ("XML round trip", rt_xml(&dom, bundled), rt_xml(&dom, v1)),
                        ("binary read of a legacy-named file", read_legacy(&dom, bundled, false), read_legacy(&dom, v1, false)),
                        ("XML read of a legacy-named file", read_legacy(&dom, bundled, true), read_legacy(&dom, v1, true)),
                    ];
                    for (what, a, b) in pairs {
                        compared += 1;
                        if a != b {
                            out.push((
                                format!("c16|variant-db|respelled-alias|{}|{}", what.split(' ').next().unwrap_or(""), aliased),
                                format!("{}.{} = {} ({}): with {}.{} declared as an alias of {} instead of repeating its migration the result is {:?}, with the bundled database {:?}", cn, spelled, r(&v), what, declaring, aliased, target, b, a),
                            ));
                        }
                    }
                }
            }
        }
    }
    // V2: every descriptor shape, every spelling, both codecs, against what the shapes say
    let brick = BrickColor::from_number(21).unwrap();
    let rgb = brick.to_color3uint8();
    let c8 = Variant::Color3uint8(Color3uint8::new(10, 20, 30));
    let cases: Vec<(&str, Variant, Vec<(String, String)>)> = vec![
        ("Plain", Variant::Int32(5), vec![("Plain".into(), r(&Variant::Int32(5)))]),
        ("plainAlias", Variant::Int32(6), vec![("Plain".into(), r(&Variant::Int32(6)))]),
        ("Stored", Variant::Int32(7), vec![("Stored".into(), r(&Variant::Int32(7)))]),
        ("stored", Variant::Int32(8), vec![("Stored".into(), r(&Variant::Int32(8)))]),
        ("storedAlias", Variant::Int32(9), vec![("Stored".into(), r(&Variant::Int32(9)))]),
        ("NewColor", Variant::Color3(Color3::new(1.0, 0.0, 0.2)), vec![("NewColor".into(), r(&Variant::Color3uint8(Color3uint8::new(255, 0, 51))))]),
        ("NewColor8", c8.clone(), vec![("NewColor".into(), r(&c8))]),
        ("OldColor", Variant::BrickColor(brick), vec![("NewColor".into(), r(&Variant::Color3uint8(rgb)))]),
        ("oldAlias", Variant::BrickColor(brick), vec![("NewColor".into(), r(&Variant::Color3uint8(rgb)))]),
        ("OldColorB", Variant::BrickColor(brick), vec![("NewColor".into(), r(&Variant::Color3uint8(rgb)))]),
        ("Hidden", Variant::Int32(1), vec![]),
        ("hiddenAlias", Variant::Int32(2), vec![]),
    ];
    // the same, with the new property carried explicitly next to a legacy one: the explicit value wins
    let explicit = Variant::Color3uint8(Color3uint8::new(7, 8, 9));
    for (legacy, new_spelling) in [("OldColor", "NewColor"), ("OldColor", "NewColor8"), ("OldColorB", "NewColor"), ("OldColorB", "NewColor8"), ("oldAlias", "NewColor8")] {
        for legacy_first in [true, false] {
            let mut b = InstanceBuilder::new("ZzVerifShapes").with_name("x");
            if legacy_first {
                b = b.with_property(legacy, Variant::BrickColor(brick)).with_property(new_spelling, explicit.clone());
            } else {
                b = b.with_property(new_spelling, explicit.clone()).with_property(legacy, Variant::BrickColor(brick));
            }
            let dom = WeakDom::new(InstanceBuilder::new("DataModel").with_child(b));
            let want = vec![("NewColor".to_owned(), r(&explicit))];
            for (codec, got) in [("binary", rt_binary(&dom, v2)), ("xml", rt_xml(&dom, v2))] {
                compared += 1;
                if got.as_ref().ok() != Some(&want) {
                    out.push((
                        format!("c16|variant-db|shapes-explicit-wins|{}|{}+{}", codec, legacy, new_spelling),
                        format!("ZzVerifShapes carrying the legacy {} and an explicit {}: through {} the result is {:?}, expected the explicit value under NewColor", legacy, new_spelling, codec, got),
                    ));
                }
            }
        }
    }
    for (name, v, want) in &cases {
        let dom = WeakDom::new(InstanceBuilder::new("DataModel").with_child(InstanceBuilder::new("ZzVerifShapes").with_name("x").with_property(*name, v.clone())));
        for (codec, got) in [("binary", rt_binary(&dom, v2)), ("xml", rt_xml(&dom, v2)), ("binary-legacy-file", read_legacy(&dom, v2, false)), ("xml-legacy-file", read_legacy(&dom, v2, true))] {
            compared += 1;
            // a file written without a database stores the Color3 as such; nothing quantises it
            let unquantised = vec![("NewColor".to_owned(), r(v))];
            let want = if codec.ends_with("legacy-file") && *name == "NewColor" { &unquantised } else { want };
            match got {
                Ok(g) if &g == want => {}
                other => out.push((
                    format!("c16|variant-db|shapes|{}|{}", codec, name),
                    format!("a database with a class of every descriptor shape: ZzVerifShapes.{} = {} through {} gives {:?}, the descriptors say {:?}", name, r(v), codec, other, want),
                )),
            }
        }
    }
    // `has_superclass` mimics Instance:IsA(ClassName): it is about names. The descriptors handed
    // to it may be copies, or come from another database with the same classes (the bundled one
    // next to a clone), or describe a class the database does not hold.
    {
        let mut wrong = 0u64;
        let mut first: Option<String> = None;
        for cn in &class_names {
            let chain: Vec<String> = specdb::class_chain(cn).map(|c| c.iter().map(|d| d.name.to_string()).collect()).unwrap_or_default();
            let own = &bundled.classes[cn.as_str()];
            for other in ["Instance", "BasePart", "GuiObject", cn.as_str()] {
                let Some(o) = bundled.classes.get(other) else { continue };
                let want = chain.iter().any(|x| x == other);
                let copies = o.clone();
                let answers = [
                    ("same database, referenced descriptors", bundled.has_superclass(own, o)),
                    ("a cloned superclass descriptor", bundled.has_superclass(own, &copies)),
                    ("a cloned class descriptor", bundled.has_superclass(&own.clone(), o)),
                    ("descriptors of the bundled database asked of its re-spelled copy", v1.has_superclass(own, o)),
                    ("descriptors of the copy asked of the bundled database", bundled.has_superclass(&v1.classes[cn.as_str()], &v1.classes[other])),
                ];
                for (how, got) in answers {
                    compared += 1;
                    if got != want {
                        wrong += 1;
                        first.get_or_insert_with(|| format!("has_superclass({}, {}) with {} gives {}, walking the chain by name gives {}", cn, other, how, got, want));
                    }
                }
            }
        }
        let mut custom = rbx_reflection::ClassDescriptor::new("ZzVerifUnregistered");
        custom.superclass = Some(std::borrow::Cow::Borrowed("Part"));
        for (other, want) in [("BasePart", true), ("Part", true), ("Folder", false)] {
            compared += 1;
            if bundled.has_superclass(&custom, &bundled.classes[other]) != want {
                wrong += 1;
                first.get_or_insert_with(|| format!("has_superclass(an unregistered class deriving from Part, {}) is not {}", other, want));
            }
        }
        // a descriptor without a superclass that the database does not hold is nobody's ancestor
        let stranger = rbx_reflection::ClassDescriptor::new("ZzVerifStranger");
        for cn in ["Object", "Instance", "Part", "Folder"] {
            compared += 2;
            if bundled.has_superclass(&bundled.classes[cn], &stranger) {
                wrong += 1;
                first.get_or_insert_with(|| format!("has_superclass({}, a class without superclass that the database does not hold) is true", cn));
            }
            if bundled.has_superclass(&stranger, &bundled.classes[cn]) {
                wrong += 1;
                first.get_or_insert_with(|| format!("has_superclass(a class without superclass that the database does not hold, {}) is true", cn));
            }
        }
        compared += 1;
        if !bundled.has_superclass(&stranger, &stranger) {
            wrong += 1;
            first.get_or_insert_with(|| "has_superclass(x, x) is false for a class the database does not hold (it is true for every class it holds)".to_owned());
        }
        // two hierarchies in one database: every pair, against a walk by name
        let two = ["Object", "Instance", "Part", "ZzVerifShapes", "ZzVerifGrandchild", "ZzVerifOtherRoot", "ZzVerifOtherChild"];
        for a in two {
            for b in two {
                let mut want = false;
                let mut cur = Some(a.to_owned());
                let mut fuel = 64;
                while let Some(c) = cur {
                    if c == b {
                        want = true;
                        break;
                    }
                    fuel -= 1;
                    if fuel == 0 {
                        break;
                    }
                    cur = v2.classes.get(c.as_str()).and_then(|d| d.superclass.as_ref().map(|s| s.to_string()));
                }
                compared += 1;
                if v2.has_superclass(&v2.classes[a], &v2.classes[b]) != want {
                    wrong += 1;
                    first.get_or_insert_with(|| format!("in a database with two hierarchies, has_superclass({}, {}) is not {}", a, b, want));
                }
            }
        }
        if let Some(f) = first {
            out.push(("c16|variant-db|has_superclass".to_owned(), format!("{} ({} wrong answers)", f, wrong)));
        }
    }
    // inherited defaults: through the database's own helper and through the binary default fill
    for (cn, prop, want) in [
        ("ZzVerifShapes", "Plain", 77),
        ("ZzVerifPlainChild", "Plain", 77),
        ("ZzVerifChild", "Plain", 77),
        ("ZzVerifGrandchild", "Plain", 99),
        ("ZzVerifShapes", "Stored", 88),
        ("ZzVerifChild", "Stored", 88),
        ("ZzVerifGrandchild", "Stored", 88),
    ] {
        compared += 2;
        let got = crate::evidence::guarded(|| v2.find_default_property(&v2.classes[cn], prop).cloned());
        if got.as_ref().ok().and_then(|g| g.as_ref()) != Some(&Variant::Int32(want)) {
            out.push((format!("c16|variant-db|inherited-default|lookup|{}", cn), format!("find_default_property({}, {}) gives {:?}, the default {} is declared on an ancestor", cn, prop, got, want)));
        }
        let dom = WeakDom::new(
            InstanceBuilder::new("DataModel")
                .with_child(InstanceBuilder::new(cn).with_name("carrier").with_property(prop, Variant::Int32(5)))
                .with_child(InstanceBuilder::new(cn).with_name("bare")),
        );
        let roots = dom.root().children().to_vec();
        let filled = crate::evidence::guarded(|| -> Result<Option<String>, String> {
            let mut buf = Vec::new();
            rbx_binary::Serializer::new().reflection_database(v2).serialize(&mut buf, &dom, &roots).map_err(|e| format!("encode: {}", e))?;
            let d = rbx_binary::Deserializer::new().reflection_database(v2).deserialize(buf.as_slice()).map_err(|e| format!("decode: {}", e))?;
            let bare = d.root().children().get(1).and_then(|r| d.get_by_ref(*r)).ok_or("instance lost")?;
            Ok(bare.properties.get(&prop.into()).map(r))
        })
        .unwrap_or_else(|(s, m)| Err(format!("panic at {}: {}", s, m)));
        if filled != Ok(Some(r(&Variant::Int32(want)))) {
            out.push((format!("c16|variant-db|inherited-default|fill|{}", cn), format!("[{cn}{{{prop}=5}}, {cn}{{}}] through rbx_binary: the second instance shows {:?}, the inherited default is {}", filled, want, cn = cn, prop = prop)));
        }
    }
    (out, json!({"respelled_duplicate_migrations": respelled.len(), "comparisons": compared, "synthetic_shape_spellings": cases.len(), "inherited_default_lookups": 7}))
}
