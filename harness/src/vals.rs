//! Bit-exact rendering of `Variant` values and the finite, boundary-heavy value
//! alphabets (DESIGN.md 3.2 / 3.3). Alphabets are ordered simplest first.

use rbx_types::{
    Attributes, Axes, BinaryString, BrickColor, CFrame, Color3, Color3uint8, ColorSequence,
    ColorSequenceKeypoint, Content, ContentId, ContentType, CustomPhysicalProperties, Enum, Faces, Font,
    FontStyle, FontWeight, MaterialColors, Matrix3, NumberRange, NumberSequence, NumberSequenceKeypoint,
    PhysicalProperties, Ray, Rect, Ref, SecurityCapabilities, Tags, TerrainMaterials, UDim, UDim2,
    UniqueId, Variant, VariantType, Vector2, Vector2int16, Vector3, Vector3int16,
};

#[derive(Clone, Copy, PartialEq, Eq, Debug)]
pub enum FloatMode {
    /// raw bit patterns
    Exact,
    /// any NaN equals any NaN
    NanClass,
}

fn f32s(v: f32, m: FloatMode) -> String {
    if m == FloatMode::NanClass && v.is_nan() {
        "f:NaN".into()
    } else {
        format!("f:{:08x}", v.to_bits())
    }
}

fn f64s(v: f64, m: FloatMode) -> String {
    if m == FloatMode::NanClass && v.is_nan() {
        "d:NaN".into()
    } else {
        format!("d:{:016x}", v.to_bits())
    }
}

fn hex(b: &[u8]) -> String {
    let mut s = String::with_capacity(b.len() * 2);
    for x in b {
        s.push_str(&format!("{:02x}", x));
    }
    s
}

fn v3(v: &Vector3, m: FloatMode) -> String {
    format!("({},{},{})", f32s(v.x, m), f32s(v.y, m), f32s(v.z, m))
}

fn cf(c: &CFrame, m: FloatMode) -> String {
    format!(
        "CFrame[{} {} {} {}]",
        v3(&c.position, m),
        v3(&c.orientation.x, m),
        v3(&c.orientation.y, m),
        v3(&c.orientation.z, m)
    )
}

/// Renders a value so that two renderings are equal iff the values are equal
/// bit for bit. `resolve` maps a referent to a stable description.
pub fn render(v: &Variant, m: FloatMode, resolve: &dyn Fn(Ref) -> String) -> String {
    match v {
        Variant::Axes(a) => format!("Axes:{}", a.bits()),
        Variant::BinaryString(b) => format!("BinaryString:{}", hex(b.as_ref())),
        Variant::Bool(b) => format!("Bool:{}", b),
        Variant::BrickColor(b) => format!("BrickColor:{}", *b as u16),
        Variant::CFrame(c) => cf(c, m),
        Variant::Color3(c) => format!("Color3({},{},{})", f32s(c.r, m), f32s(c.g, m), f32s(c.b, m)),
        Variant::Color3uint8(c) => format!("Color3uint8({},{},{})", c.r, c.g, c.b),
        Variant::ColorSequence(s) => {
            let k: Vec<String> = s
                .keypoints
                .iter()
                .map(|k| format!("{}@({},{},{})", f32s(k.time, m), f32s(k.color.r, m), f32s(k.color.g, m), f32s(k.color.b, m)))
                .collect();
            format!("ColorSequence[{}]", k.join(";"))
        }
        Variant::ContentId(c) => format!("ContentId:{}", hex(c.as_str().as_bytes())),
        Variant::Enum(e) => format!("Enum:{}", e.to_u32()),
        Variant::Faces(f) => format!("Faces:{}", f.bits()),
        Variant::Float32(f) => format!("Float32:{}", f32s(*f, m)),
        Variant::Float64(f) => format!("Float64:{}", f64s(*f, m)),
        Variant::Int32(i) => format!("Int32:{}", i),
        Variant::Int64(i) => format!("Int64:{}", i),
        Variant::NumberRange(r) => format!("NumberRange({},{})", f32s(r.min, m), f32s(r.max, m)),
        Variant::NumberSequence(s) => {
            let k: Vec<String> = s
                .keypoints
                .iter()
                .map(|k| format!("{}@{}~{}", f32s(k.time, m), f32s(k.value, m), f32s(k.envelope, m)))
                .collect();
            format!("NumberSequence[{}]", k.join(";"))
        }
        Variant::PhysicalProperties(p) => match p {
            PhysicalProperties::Default => "PhysicalProperties:Default".into(),
            PhysicalProperties::Custom(c) => format!(
                "PhysicalProperties({},{},{},{},{})",
                f32s(c.density, m),
                f32s(c.friction, m),
                f32s(c.elasticity, m),
                f32s(c.friction_weight, m),
                f32s(c.elasticity_weight, m)
            ),
        },
        Variant::Ray(r) => format!("Ray[{} {}]", v3(&r.origin, m), v3(&r.direction, m)),
        Variant::Rect(r) => format!(
            "Rect({},{},{},{})",
            f32s(r.min.x, m),
            f32s(r.min.y, m),
            f32s(r.max.x, m),
            f32s(r.max.y, m)
        ),
        Variant::Ref(r) => format!("Ref:{}", resolve(*r)),
        Variant::Region3(r) => format!("Region3[{} {}]", v3(&r.min, m), v3(&r.max, m)),
        Variant::Region3int16(r) => format!(
            "Region3int16({},{},{},{},{},{})",
            r.min.x, r.min.y, r.min.z, r.max.x, r.max.y, r.max.z
        ),
        Variant::SharedString(s) => format!("SharedString:{}", hex(s.data())),
        Variant::String(s) => format!("String:{}", hex(s.as_bytes())),
        Variant::UDim(u) => format!("UDim({},{})", f32s(u.scale, m), u.offset),
        Variant::UDim2(u) => format!(
            "UDim2({},{},{},{})",
            f32s(u.x.scale, m),
            u.x.offset,
            f32s(u.y.scale, m),
            u.y.offset
        ),
        Variant::Vector2(v) => format!("Vector2({},{})", f32s(v.x, m), f32s(v.y, m)),
        Variant::Vector2int16(v) => format!("Vector2int16({},{})", v.x, v.y),
        Variant::Vector3(v) => format!("Vector3{}", v3(v, m)),
        Variant::Vector3int16(v) => format!("Vector3int16({},{},{})", v.x, v.y, v.z),
        Variant::OptionalCFrame(o) => match o {
            None => "OptionalCFrame:None".into(),
            Some(c) => format!("OptionalCFrame:{}", cf(c, m)),
        },
        Variant::Tags(t) => {
            let v: Vec<String> = t.iter().map(|s| hex(s.as_bytes())).collect();
            format!("Tags[{}]", v.join(","))
        }
        Variant::Attributes(a) => {
            let v: Vec<String> = a
                .iter()
                .map(|(k, v)| format!("{}={}", hex(k.as_bytes()), render(v, m, resolve)))
                .collect();
            format!("Attributes{{{}}}", v.join(","))
        }
        Variant::Font(f) => format!(
            "Font({},{},{},{})",
            hex(f.family.as_bytes()),
            f.weight.as_u16(),
            f.style.as_u8(),
            match &f.cached_face_id {
                None => "none".to_owned(),
                Some(s) => format!("some:{}", hex(s.as_bytes())),
            }
        ),
        Variant::UniqueId(u) => format!("UniqueId({},{},{})", u.index(), u.time(), u.random()),
        Variant::MaterialColors(mc) => format!("MaterialColors:{}", hex(&mc.encode())),
        Variant::SecurityCapabilities(s) => format!("SecurityCapabilities:{}", s.bits()),
        Variant::EnumItem(e) => format!("EnumItem({},{})", e.ty, e.value),
        Variant::Content(c) => match c.value() {
            ContentType::None => "Content:None".into(),
            ContentType::Uri(u) => format!("Content:Uri:{}", hex(u.as_bytes())),
            ContentType::Object(r) => format!("Content:Object:{}", resolve(*r)),
            _ => "Content:?".into(),
        },
        other => format!("?{:?}", other.ty()),
    }
}

// ---------------------------------------------------------------------------
// Alphabets

#[derive(Clone, Debug)]
pub struct LV {
    pub label: String,
    pub v: Variant,
}

fn lv(label: &str, v: impl Into<Variant>) -> LV {
    LV {
        label: label.to_owned(),
        v: v.into(),
    }
}

pub fn f32_alphabet() -> Vec<(&'static str, f32)> {
    vec![
        ("0", 0.0),
        ("1", 1.0),
        ("-0", -0.0),
        ("-1", -1.0),
        ("0.1", 0.1),
        ("1+eps", f32::from_bits(0x3f800001)),
        ("1-eps", f32::from_bits(0x3f7fffff)),
        ("16777216", 16777216.0),
        ("min-sub", f32::from_bits(1)),
        ("-min-sub", f32::from_bits(0x80000001)),
        ("max-sub", f32::from_bits(0x007fffff)),
        ("min-pos", f32::MIN_POSITIVE),
        ("max", f32::MAX),
        ("-max", f32::MIN),
        ("inf", f32::INFINITY),
        ("-inf", f32::NEG_INFINITY),
        ("qnan", f32::from_bits(0x7fc00000)),
        ("snan", f32::from_bits(0x7f800001)),
        ("-nan-payload", f32::from_bits(0xffc12345)),
        ("nan-max", f32::from_bits(0x7fffffff)),
        ("bits-55", f32::from_bits(0x55555555)),
        ("bits-aa", f32::from_bits(0xaaaaaaaa)),
    ]
}

/// A short float list for components of composite types.
pub fn f32_short() -> Vec<(&'static str, f32)> {
    vec![
        ("0", 0.0),
        ("1.5", 1.5),
        ("-0", -0.0),
        ("-max", f32::MIN),
        ("min-sub", f32::from_bits(1)),
        ("inf", f32::INFINITY),
        ("-nan-payload", f32::from_bits(0xffc12345)),
    ]
}

pub fn f64_alphabet() -> Vec<(&'static str, f64)> {
    vec![
        ("0", 0.0),
        ("1", 1.0),
        ("-0", -0.0),
        ("-1", -1.0),
        ("0.1", 0.1),
        ("1+eps", f64::from_bits(0x3ff0000000000001)),
        ("f32-0.1-widened", 0.1f32 as f64),
        ("2^53+1-ish", 9007199254740993.0),
        ("min-sub", f64::from_bits(1)),
        ("-min-sub", f64::from_bits(0x8000000000000001)),
        ("max-sub", f64::from_bits(0x000fffffffffffff)),
        ("min-pos", f64::MIN_POSITIVE),
        ("max", f64::MAX),
        ("-max", f64::MIN),
        ("beyond-f32", 1e300),
        ("inf", f64::INFINITY),
        ("-inf", f64::NEG_INFINITY),
        ("qnan", f64::from_bits(0x7ff8000000000000)),
        ("snan", f64::from_bits(0x7ff0000000000001)),
        ("-nan-payload", f64::from_bits(0xfff8123456789abc)),
        ("bits-55", f64::from_bits(0x5555555555555555)),
    ]
}

pub fn i32_alphabet() -> Vec<(String, i32)> {
    let mut v: Vec<(String, i32)> = vec![
        ("0".into(), 0),
        ("1".into(), 1),
        ("-1".into(), -1),
        ("2".into(), 2),
        ("-2".into(), -2),
        ("max".into(), i32::MAX),
        ("min".into(), i32::MIN),
        ("max-1".into(), i32::MAX - 1),
        ("min+1".into(), i32::MIN + 1),
        ("0x55".into(), 0x55555555),
        ("0xaa".into(), 0xaaaaaaaau32 as i32),
    ];
    for b in [7, 8, 15, 16, 23, 24, 30] {
        v.push((format!("bit{}", b), 1i32 << b));
        v.push((format!("-bit{}", b), -(1i32 << b)));
    }
    v
}

pub fn i64_alphabet() -> Vec<(String, i64)> {
    let mut v: Vec<(String, i64)> = vec![
        ("0".into(), 0),
        ("1".into(), 1),
        ("-1".into(), -1),
        ("max".into(), i64::MAX),
        ("min".into(), i64::MIN),
        ("max-1".into(), i64::MAX - 1),
        ("min+1".into(), i64::MIN + 1),
        ("i32max+1".into(), 1 << 31),
        ("-i32max-2".into(), -(1i64 << 31) - 1),
        ("2^32".into(), 1 << 32),
        ("2^53".into(), 1 << 53),
        ("2^53+1".into(), (1 << 53) + 1),
        ("-2^53".into(), -(1i64 << 53)),
        ("0x55".into(), 0x5555555555555555),
        ("0xaa".into(), 0xaaaaaaaaaaaaaaaau64 as i64),
    ];
    for b in [7, 8, 31, 32, 47, 62] {
        v.push((format!("bit{}", b), 1i64 << b));
    }
    v
}

pub fn bytes_alphabet(large: bool) -> Vec<(String, Vec<u8>)> {
    let mut v: Vec<(String, Vec<u8>)> = vec![
        ("empty".into(), vec![]),
        ("a".into(), b"a".to_vec()),
        ("00".into(), vec![0]),
        ("7f".into(), vec![0x7f]),
        ("80".into(), vec![0x80]),
        ("ff".into(), vec![0xff]),
        ("all256".into(), (0..=255u8).collect()),
        ("non-utf8".into(), vec![b'a', 0xc3, 0x28, b'b', 0xff, 0xfe]),
        ("cdata-end".into(), b"x]]>y".to_vec()),
        ("len255".into(), vec![b'q'; 255]),
        ("len256".into(), vec![b'r'; 256]),
    ];
    if large {
        v.push(("len65535".into(), (0..65535u32).map(|i| (i % 251) as u8).collect()));
        v.push(("len65536".into(), (0..65536u32).map(|i| (i % 253) as u8).collect()));
        v.push(("len65k-200001".into(), (0..200_001u32).map(|i| (i % 239) as u8).collect()));
    }
    v
}

/// Strings made of characters legal in XML 1.0.
pub fn text_alphabet(large: bool) -> Vec<(String, String)> {
    let mut v: Vec<(String, String)> = vec![
        ("empty".into(), "".into()),
        ("plain".into(), "Hello".into()),
        ("space".into(), " ".into()),
        ("ws-only".into(), " \t\n ".into()),
        ("lead-trail-ws".into(), "  padded  ".into()),
        ("cdata-end".into(), "a]]>b".into()),
        ("markup".into(), "<&>\"'".into()),
        ("entity-like".into(), "&amp;&#65;".into()),
        ("lf".into(), "a\nb".into()),
        ("tab".into(), "a\tb".into()),
        ("crlf".into(), "a\r\nb".into()),
        ("cr".into(), "a\rb".into()),
        ("nel".into(), "a\u{85}b".into()),
        ("ls".into(), "a\u{2028}b".into()),
        ("astral".into(), "a\u{1F600}b".into()),
        ("bmp-edge".into(), "\u{d7ff}\u{e000}\u{fffd}".into()),
        ("null-word".into(), "null".into()),
        ("cdata-open".into(), "<![CDATA[x".into()),
        ("trailing-bracket".into(), "x]]".into()),
        // two features at once (what selects the CDATA form + what must be escaped inside it)
        ("padded-cdata-end".into(), " a]]>b ".into()),
        ("cdata-end-newline".into(), "if t[i[1]]>0 then\n".into()),
        ("padded-cdata-open".into(), " <![CDATA[x ".into()),
        // characters XML 1.0 discourages but allows (DEL, C1 controls); the ones it cannot carry
        // at all are a family of their own (`xml_forbidden_chars`)
        ("del".into(), "a\u{7f}b".into()),
        ("c1-control".into(), "a\u{80}b".into()),
    ];
    if large {
        v.push(("len64k".into(), "abcdefgh".repeat(8192)));
    }
    v
}

/// Characters that are not `Char`s of XML 1.0 (section 2.2): no document can contain them, not
/// even as character references.
pub fn xml_forbidden_chars() -> Vec<(&'static str, char)> {
    vec![("u0001", '\u{1}'), ("u0008", '\u{8}'), ("u000b", '\u{b}'), ("u000c", '\u{c}'), ("u001f", '\u{1f}'), ("ufffe", '\u{fffe}'), ("uffff", '\u{ffff}')]
}

/// The 24 axis-aligned rotation matrices (signed permutations with det +1),
/// enumerated independently of `Matrix3::from_basic_rotation_id`.
pub fn basic_rotations() -> Vec<Matrix3> {
    let mut out = Vec::new();
    let perms = [[0, 1, 2], [0, 2, 1], [1, 0, 2], [1, 2, 0], [2, 0, 1], [2, 1, 0]];
    for p in perms {
        for signs in 0..8u8 {
            let mut m = [[0.0f32; 3]; 3];
            for r in 0..3 {
                m[r][p[r]] = if signs & (1 << r) != 0 { -1.0 } else { 1.0 };
            }
            if det(&m) > 0.5 {
                out.push(mat(&m));
            }
        }
    }
    assert_eq!(out.len(), 24);
    out
}

fn det(m: &[[f32; 3]; 3]) -> f32 {
    m[0][0] * (m[1][1] * m[2][2] - m[1][2] * m[2][1]) - m[0][1] * (m[1][0] * m[2][2] - m[1][2] * m[2][0])
        + m[0][2] * (m[1][0] * m[2][1] - m[1][1] * m[2][0])
}

fn mat(m: &[[f32; 3]; 3]) -> Matrix3 {
    Matrix3::new(
        Vector3::new(m[0][0], m[0][1], m[0][2]),
        Vector3::new(m[1][0], m[1][1], m[1][2]),
        Vector3::new(m[2][0], m[2][1], m[2][2]),
    )
}

pub fn mat_arr(m: &Matrix3) -> [[f32; 3]; 3] {
    [[m.x.x, m.x.y, m.x.z], [m.y.x, m.y.y, m.y.z], [m.z.x, m.z.y, m.z.z]]
}

/// The documented snap: a matrix every entry of which is within f32::EPSILON of
/// 0 or of +-1, and whose snapped form is one of the 24 rotations, becomes that
/// rotation; everything else is unchanged.
pub fn snap_rotation(m: &Matrix3) -> Matrix3 {
    let a = mat_arr(m);
    let mut s = [[0.0f32; 3]; 3];
    for r in 0..3 {
        for c in 0..3 {
            let e = a[r][c];
            if e.abs() <= f32::EPSILON {
                s[r][c] = 0.0;
            } else if (e.abs() - 1.0).abs() <= f32::EPSILON {
                s[r][c] = 1.0f32.copysign(e);
            } else {
                return *m;
            }
        }
    }
    // signed permutation with det +1?
    for r in 0..3 {
        let nz = (0..3).filter(|&c| s[r][c] != 0.0).count();
        if nz != 1 {
            return *m;
        }
    }
    for c in 0..3 {
        let nz = (0..3).filter(|&r| s[r][c] != 0.0).count();
        if nz != 1 {
            return *m;
        }
    }
    if det(&s) < 0.5 {
        return *m;
    }
    mat(&s)
}

pub fn matrix_alphabet() -> Vec<(String, Matrix3)> {
    let mut v: Vec<(String, Matrix3)> = Vec::new();
    let rots = basic_rotations();
    for (i, r) in rots.iter().enumerate() {
        v.push((format!("rot{}", i), *r));
    }
    let eps = f32::EPSILON;
    // perturbations of two rotations on each entry
    for (ri, r) in [(0usize, rots[0]), (13usize, rots[13])] {
        for row in 0..3 {
            for col in 0..3 {
                for (dl, d) in [("+eps/2", eps / 2.0), ("-eps/2", -eps / 2.0), ("+2eps", 2.0 * eps), ("-2eps", -2.0 * eps)] {
                    let mut a = mat_arr(&r);
                    a[row][col] += d;
                    v.push((format!("rot{}[{}{}]{}", ri, row, col, dl), mat(&a)));
                }
            }
        }
    }
    let i = mat_arr(&rots[0]);
    let scale = |k: f32| {
        let mut a = i;
        for r in 0..3 {
            for c in 0..3 {
                a[r][c] *= k;
            }
        }
        mat(&a)
    };
    v.push(("half-identity".into(), scale(0.5)));
    v.push(("double-identity".into(), scale(2.0)));
    v.push(("0.999-identity".into(), scale(0.999)));
    v.push(("zero-matrix".into(), scale(0.0)));
    v.push(("neg-zero-identity".into(), mat(&[[1.0, -0.0, 0.0], [-0.0, 1.0, -0.0], [0.0, -0.0, 1.0]])));
    v.push(("reflection".into(), mat(&[[1.0, 0.0, 0.0], [0.0, 1.0, 0.0], [0.0, 0.0, -1.0]])));
    v.push(("reflection-swap".into(), mat(&[[0.0, 1.0, 0.0], [1.0, 0.0, 0.0], [0.0, 0.0, 1.0]])));
    v.push(("singular-repeat".into(), mat(&[[1.0, 0.0, 0.0], [1.0, 0.0, 0.0], [0.0, 0.0, 1.0]])));
    v.push(("xy-ok-z-half".into(), mat(&[[1.0, 0.0, 0.0], [0.0, 1.0, 0.0], [0.0, 0.0, 0.5]])));
    v.push(("xy-ok-z-skew".into(), mat(&[[1.0, 0.0, 0.3], [0.0, 1.0, 0.3], [0.0, 0.0, 1.0]])));
    v.push(("col-half".into(), mat(&[[0.5, 0.0, 0.0], [0.0, 1.0, 0.0], [0.0, 0.0, 1.0]])));
    v.push(("general".into(), mat(&[[0.1, 0.2, 0.3], [0.4, 0.5, 0.6], [0.7, 0.8, 0.9]])));
    v.push((
        "rotation-30deg".into(),
        mat(&[[0.8660254, -0.5, 0.0], [0.5, 0.8660254, 0.0], [0.0, 0.0, 1.0]]),
    ));
    // equal to the previous one under `==`, different in bits
    v.push((
        "rotation-30deg-negzero".into(),
        mat(&[[0.8660254, -0.5, -0.0], [0.5, 0.8660254, 0.0], [-0.0, -0.0, 1.0]]),
    ));
    v.push((
        "nan-entry".into(),
        mat(&[[f32::from_bits(0x7fc00001), 0.0, 0.0], [0.0, 1.0, 0.0], [0.0, 0.0, 1.0]]),
    ));
    v.push(("inf-entry".into(), mat(&[[1.0, 0.0, 0.0], [0.0, f32::INFINITY, 0.0], [0.0, 0.0, 1.0]])));
    v
}

pub fn brick_colors() -> Vec<BrickColor> {
    (0..=u16::MAX).filter_map(BrickColor::from_number).collect()
}

fn vec3_alphabet() -> Vec<(String, Vector3)> {
    let mut v = vec![("123".to_owned(), Vector3::new(1.0, 2.0, 3.0)), ("456".to_owned(), Vector3::new(4.0, 5.0, 6.0))];
    for (l, f) in f32_short() {
        v.push((format!("x={}", l), Vector3::new(f, 2.0, 3.0)));
        v.push((format!("y={}", l), Vector3::new(1.0, f, 3.0)));
        v.push((format!("z={}", l), Vector3::new(1.0, 2.0, f)));
    }
    v
}

#[derive(Clone, Copy, PartialEq, Eq, Debug)]
pub enum Codec {
    Binary,
    Xml,
    Attributes,
}

/// The alphabet of one Variant type. `Ref`, `Content::Object` and
/// `SharedString` topologies are handled by the plan layer, not here.
pub fn alphabet(ty: VariantType, codec: Codec, large: bool) -> Vec<LV> {
    let mut out: Vec<LV> = Vec::new();
    match ty {
        VariantType::Axes => {
            for b in 0..8u8 {
                out.push(lv(&format!("{}", b), Axes::from_bits(b).unwrap()));
            }
        }
        VariantType::Faces => {
            for b in 0..64u8 {
                out.push(lv(&format!("{}", b), Faces::from_bits(b).unwrap()));
            }
        }
        VariantType::Bool => {
            out.push(lv("false", false));
            out.push(lv("true", true));
        }
        VariantType::BinaryString => {
            for (l, b) in bytes_alphabet(large) {
                out.push(lv(&l, BinaryString::from(b)));
            }
        }
        VariantType::String => {
            for (l, s) in text_alphabet(large) {
                out.push(lv(&l, Variant::String(s)));
            }
        }
        VariantType::ContentId => {
            for (l, s) in [("empty", ""), ("asset", "rbxassetid://12345"), ("markup", "http://x/?a=1&b=<2>")] {
                out.push(lv(l, ContentId::from(s)));
            }
        }
        VariantType::Content => {
            out.push(lv("none", Content::none()));
            out.push(lv("uri-empty", Content::from_uri("")));
            out.push(lv("uri", Content::from_uri("rbxassetid://12345")));
            out.push(lv("uri-markup", Content::from_uri("http://x/?a=1&b=<2>")));
        }
        VariantType::BrickColor => {
            for b in brick_colors() {
                out.push(lv(&format!("{}", b as u16), b));
            }
        }
        VariantType::Float32 => {
            for (l, f) in f32_alphabet() {
                out.push(lv(l, f));
            }
        }
        VariantType::Float64 => {
            for (l, f) in f64_alphabet() {
                out.push(lv(l, f));
            }
        }
        VariantType::Int32 => {
            for (l, i) in i32_alphabet() {
                out.push(lv(&l, i));
            }
        }
        VariantType::Int64 => {
            for (l, i) in i64_alphabet() {
                out.push(lv(&l, i));
            }
        }
        VariantType::Enum => {
            for (l, e) in [("0", 0u32), ("1", 1), ("256", 256), ("i32max", 0x7fffffff), ("2^31", 0x80000000), ("max", u32::MAX)] {
                out.push(lv(l, Enum::from_u32(e)));
            }
        }
        VariantType::Color3 => {
            out.push(lv("rgb", Color3::new(1.0, 0.5, 0.25)));
            for (l, f) in f32_short() {
                out.push(lv(&format!("r={}", l), Color3::new(f, 0.5, 0.25)));
                out.push(lv(&format!("g={}", l), Color3::new(1.0, f, 0.25)));
                out.push(lv(&format!("b={}", l), Color3::new(1.0, 0.5, f)));
            }
            out.push(lv("hdr", Color3::new(2.0, 3.0, 4.0)));
            out.push(lv("quant-edge", Color3::new(0.5 / 255.0, 1.5 / 255.0, 254.5 / 255.0)));
        }
        VariantType::Color3uint8 => {
            for (l, c) in [("000", (0, 0, 0)), ("fff", (255, 255, 255)), ("rgb", (1, 2, 3)), ("7f80", (127, 128, 129))] {
                out.push(lv(l, Color3uint8::new(c.0, c.1, c.2)));
            }
        }
        VariantType::Vector2 => {
            out.push(lv("12", Vector2::new(1.0, 2.0)));
            for (l, f) in f32_short() {
                out.push(lv(&format!("x={}", l), Vector2::new(f, 2.0)));
                out.push(lv(&format!("y={}", l), Vector2::new(1.0, f)));
            }
        }
        VariantType::Vector2int16 => {
            for (l, a, b) in [("0", 0, 0), ("12", 1, 2), ("minmax", i16::MIN, i16::MAX), ("-1", -1, -2)] {
                out.push(lv(l, Vector2int16::new(a, b)));
            }
        }
        VariantType::Vector3 => {
            for (l, v) in vec3_alphabet() {
                out.push(lv(&l, v));
            }
        }
        VariantType::Vector3int16 => {
            for (l, a, b, c) in [("0", 0, 0, 0), ("123", 1, 2, 3), ("minmax", i16::MIN, i16::MAX, -1), ("0x0102", 0x0102, 0x0304, 0x0506)] {
                out.push(lv(l, Vector3int16::new(a, b, c)));
            }
        }
        VariantType::CFrame => {
            for (l, m) in matrix_alphabet() {
                out.push(lv(&l, CFrame::new(Vector3::new(1.0, 2.0, 3.0), m)));
            }
            for (l, p) in vec3_alphabet() {
                out.push(lv(&format!("pos:{}", l), CFrame::new(p, Matrix3::identity())));
                out.push(lv(
                    &format!("pos:{}+general", l),
                    CFrame::new(p, Matrix3::new(Vector3::new(0.1, 0.2, 0.3), Vector3::new(0.4, 0.5, 0.6), Vector3::new(0.7, 0.8, 0.9))),
                ));
            }
        }
        VariantType::OptionalCFrame => {
            out.push(lv("none", Variant::OptionalCFrame(None)));
            for (l, m) in matrix_alphabet().into_iter().step_by(3) {
                out.push(lv(&format!("some:{}", l), Variant::OptionalCFrame(Some(CFrame::new(Vector3::new(1.0, 2.0, 3.0), m)))));
            }
            out.push(lv(
                "some:pos-nan",
                Variant::OptionalCFrame(Some(CFrame::new(Vector3::new(f32::from_bits(0xffc12345), -0.0, f32::MIN), Matrix3::identity()))),
            ));
        }
        VariantType::Ray => {
            out.push(lv("123-456", Ray::new(Vector3::new(1.0, 2.0, 3.0), Vector3::new(4.0, 5.0, 6.0))));
            for (l, v) in vec3_alphabet() {
                out.push(lv(&format!("origin:{}", l), Ray::new(v, Vector3::new(4.0, 5.0, 6.0))));
                out.push(lv(&format!("dir:{}", l), Ray::new(Vector3::new(7.0, 8.0, 9.0), v)));
            }
        }
        VariantType::Rect => {
            out.push(lv("1234", Rect::new(Vector2::new(1.0, 2.0), Vector2::new(3.0, 4.0))));
            for (l, f) in f32_short() {
                out.push(lv(&format!("minx={}", l), Rect::new(Vector2::new(f, 2.0), Vector2::new(3.0, 4.0))));
                out.push(lv(&format!("miny={}", l), Rect::new(Vector2::new(1.0, f), Vector2::new(3.0, 4.0))));
                out.push(lv(&format!("maxx={}", l), Rect::new(Vector2::new(1.0, 2.0), Vector2::new(f, 4.0))));
                out.push(lv(&format!("maxy={}", l), Rect::new(Vector2::new(1.0, 2.0), Vector2::new(3.0, f))));
            }
        }
        VariantType::UDim => {
            out.push(lv("1,2", UDim::new(1.0, 2)));
            for (l, f) in f32_short() {
                out.push(lv(&format!("scale={}", l), UDim::new(f, 7)));
            }
            // (offsets no f32 holds: an integer field of a composite must not pass through a float)
            for (l, i) in [("min", i32::MIN), ("max", i32::MAX), ("-1", -1), ("2^24+1", 16_777_217), ("-2^25-3", -33_554_435), ("max-1", i32::MAX - 1)] {
                out.push(lv(&format!("offset={}", l), UDim::new(0.5, i)));
            }
        }
        VariantType::UDim2 => {
            out.push(lv("1234", UDim2::new(UDim::new(1.0, 2), UDim::new(3.0, 4))));
            for (l, f) in f32_short() {
                out.push(lv(&format!("xs={}", l), UDim2::new(UDim::new(f, 2), UDim::new(3.0, 4))));
                out.push(lv(&format!("ys={}", l), UDim2::new(UDim::new(1.0, 2), UDim::new(f, 4))));
            }
            for (l, i) in [("min", i32::MIN), ("max", i32::MAX), ("-1", -1), ("2^24+1", 16_777_217), ("-2^25-3", -33_554_435), ("max-1", i32::MAX - 1)] {
                out.push(lv(&format!("xo={}", l), UDim2::new(UDim::new(1.0, i), UDim::new(3.0, 4))));
                out.push(lv(&format!("yo={}", l), UDim2::new(UDim::new(1.0, 2), UDim::new(3.0, i))));
            }
        }
        VariantType::NumberRange => {
            out.push(lv("0-1", NumberRange::new(0.0, 1.0)));
            for (l, f) in f32_short() {
                out.push(lv(&format!("min={}", l), NumberRange::new(f, 9.0)));
                out.push(lv(&format!("max={}", l), NumberRange::new(-9.0, f)));
            }
        }
        VariantType::NumberSequence => {
            let kp = |t: f32, v: f32, e: f32| NumberSequenceKeypoint::new(t, v, e);
            let min_k = if codec == Codec::Xml { 2 } else { 0 };
            let seqs: Vec<(String, Vec<NumberSequenceKeypoint>)> = vec![
                ("k0".into(), vec![]),
                ("k1".into(), vec![kp(0.0, 1.0, 0.0)]),
                ("k2".into(), vec![kp(0.0, 1.0, 0.0), kp(1.0, 0.0, 0.0)]),
                ("k2-envelope".into(), vec![kp(0.0, 1.0, 0.25), kp(1.0, 0.0, 0.5)]),
                ("k3".into(), vec![kp(0.0, 1.0, 0.0), kp(0.5, 0.5, 0.125), kp(1.0, 0.0, 0.0)]),
                // "empty and long sequences": past any small pre-allocation bound
                ("k1025".into(), (0..1025).map(|i| kp(i as f32 / 1024.0, (i % 7) as f32, 0.0)).collect()),
                ("k5000".into(), (0..5000).map(|i| kp(i as f32 / 4999.0, (i % 11) as f32, 0.0)).collect()),
            ];
            for (l, k) in seqs {
                if k.len() >= min_k {
                    out.push(lv(&l, NumberSequence { keypoints: k }));
                }
            }
            for (l, f) in f32_short() {
                out.push(lv(&format!("time={}", l), NumberSequence { keypoints: vec![kp(f, 1.0, 0.0), kp(1.0, 0.0, 0.0)] }));
                out.push(lv(&format!("value={}", l), NumberSequence { keypoints: vec![kp(0.0, f, 0.0), kp(1.0, 0.0, 0.0)] }));
                out.push(lv(&format!("envelope={}", l), NumberSequence { keypoints: vec![kp(0.0, 1.0, 0.0), kp(1.0, 0.0, f)] }));
            }
        }
        VariantType::ColorSequence => {
            let kp = |t: f32, r: f32, g: f32, b: f32| ColorSequenceKeypoint::new(t, Color3::new(r, g, b));
            let min_k = if codec == Codec::Xml { 2 } else { 0 };
            let seqs: Vec<(String, Vec<ColorSequenceKeypoint>)> = vec![
                ("k0".into(), vec![]),
                ("k1".into(), vec![kp(0.0, 1.0, 0.5, 0.25)]),
                ("k2".into(), vec![kp(0.0, 1.0, 0.5, 0.25), kp(1.0, 0.0, 0.0, 1.0)]),
                ("k3".into(), vec![kp(0.0, 1.0, 0.5, 0.25), kp(0.5, 0.5, 0.5, 0.5), kp(1.0, 0.0, 0.0, 1.0)]),
                ("k1025".into(), (0..1025).map(|i| kp(i as f32 / 1024.0, (i % 5) as f32 / 4.0, 0.5, 0.25)).collect()),
                ("k5000".into(), (0..5000).map(|i| kp(i as f32 / 4999.0, 0.25, (i % 3) as f32 / 2.0, 1.0)).collect()),
            ];
            for (l, k) in seqs {
                if k.len() >= min_k {
                    out.push(lv(&l, ColorSequence { keypoints: k }));
                }
            }
            for (l, f) in f32_short() {
                out.push(lv(&format!("time={}", l), ColorSequence { keypoints: vec![kp(f, 1.0, 0.5, 0.25), kp(1.0, 0.0, 0.0, 1.0)] }));
                out.push(lv(&format!("g={}", l), ColorSequence { keypoints: vec![kp(0.0, 1.0, f, 0.25), kp(1.0, 0.0, 0.0, 1.0)] }));
                out.push(lv(&format!("b2={}", l), ColorSequence { keypoints: vec![kp(0.0, 1.0, 0.5, 0.25), kp(1.0, 0.0, 0.0, f)] }));
            }
        }
        VariantType::PhysicalProperties => {
            out.push(lv("default", PhysicalProperties::Default));
            let base = [0.7f32, 0.3, 0.5, 1.0, 2.0];
            let mk = |a: [f32; 5]| {
                PhysicalProperties::Custom(CustomPhysicalProperties {
                    density: a[0],
                    friction: a[1],
                    elasticity: a[2],
                    friction_weight: a[3],
                    elasticity_weight: a[4],
                })
            };
            out.push(lv("custom", mk(base)));
            for i in 0..5 {
                for (l, f) in f32_short() {
                    let mut a = base;
                    a[i] = f;
                    out.push(lv(&format!("custom[{}]={}", i, l), mk(a)));
                }
            }
        }
        VariantType::Font => {
            let weights = [
                FontWeight::Thin,
                FontWeight::ExtraLight,
                FontWeight::Light,
                FontWeight::Regular,
                FontWeight::Medium,
                FontWeight::SemiBold,
                FontWeight::Bold,
                FontWeight::ExtraBold,
                FontWeight::Heavy,
            ];
            for w in weights {
                for s in [FontStyle::Normal, FontStyle::Italic] {
                    for fam in ["", "rbxasset://fonts/families/SourceSansPro.json"] {
                        for cached in [None, Some("rbxasset://fonts/x.ttf".to_owned())] {
                            out.push(lv(
                                &format!("w{}-s{}-fam{}-c{}", w.as_u16(), s.as_u8(), fam.len(), cached.is_some()),
                                Font {
                                    family: fam.to_owned(),
                                    weight: w,
                                    style: s,
                                    cached_face_id: cached,
                                },
                            ));
                        }
                    }
                }
            }
            // the strings inside a Font get the text alphabet's awkward members too
            for (l, fam, cached) in [
                ("family-space", " ", None),
                ("family-ws", "\t\n ", None),
                ("family-padded", "  padded  ", None),
                ("family-nbsp", "\u{a0}", None),
                ("cached-space", "rbxasset://fonts/families/Arial.json", Some(" ")),
                ("cached-ws", "rbxasset://fonts/families/Arial.json", Some("\t\n")),
                ("cached-cdata-end", "x]]>y", Some("a]]>b")),
                ("family-nonascii", "rbxasset://f\u{f6}nts/\u{2603}.json", Some("\u{1F600}")),
            ] {
                out.push(lv(
                    l,
                    Font { family: fam.to_owned(), weight: FontWeight::Regular, style: FontStyle::Normal, cached_face_id: cached.map(|c: &str| c.to_owned()) },
                ));
            }
            out.push(lv(
                "family-markup",
                Font {
                    family: "a<&>b".to_owned(),
                    weight: FontWeight::Regular,
                    style: FontStyle::Normal,
                    cached_face_id: None,
                },
            ));
        }
        VariantType::UniqueId => {
            out.push(lv("nil", UniqueId::nil()));
            for idx in [0u32, 1, u32::MAX] {
                for t in [0u32, 1, u32::MAX] {
                    for r in [0i64, 1, i64::MAX, -1, i64::MIN, 0x0123_4567_89ab_cdef] {
                        if idx == 0 && t == 0 && r == 0 {
                            continue;
                        }
                        out.push(lv(&format!("i{}-t{}-r{}", idx, t, r), UniqueId::new(idx, t, r)));
                    }
                }
            }
        }
        VariantType::SecurityCapabilities => {
            for (l, b) in [("0", 0u64), ("1", 1), ("2^63", 1 << 63), ("max", u64::MAX), ("0x55", 0x5555555555555555)] {
                out.push(lv(l, SecurityCapabilities::from_bits(b)));
            }
        }
        VariantType::Tags => {
            let lists: Vec<Vec<&str>> = vec![vec![], vec!["a"], vec!["a", "b c"], vec!["é", "a", "b c"], vec!["<&>", "]]>"]];
            for l in lists {
                let mut t = Tags::new();
                for s in &l {
                    t.push(s);
                }
                out.push(lv(&format!("{:?}", l), t));
            }
        }
        VariantType::MaterialColors => {
            out.push(lv("default", MaterialColors::new()));
            let mut m = MaterialColors::new();
            m.set_color(TerrainMaterials::Grass, Color3uint8::new(1, 2, 3));
            out.push(lv("grass", m.clone()));
            m.set_color(TerrainMaterials::Brick, Color3uint8::new(255, 0, 128));
            out.push(lv("grass+brick", m));
        }
        VariantType::EnumItem => {
            for ty in ["", "Material", "é"] {
                for v in [0u32, 1, 256, u32::MAX] {
                    out.push(lv(&format!("{}:{}", ty, v), rbx_types::EnumItem { ty: ty.to_owned(), value: v }));
                }
            }
            // the enum's name is a free-form string: qualified, dotted, padded, cased, long
            let long = "LongEnumName".repeat(100);
            for ty in ["Enum.Material", "Enum.", "Enum", "enum.Material", "Enum.Enum.KeyCode", "Material.Plastic", ".Material", "Material.", " Material ", "material", "MATERIAL", "a\u{0}b", "a\nb", long.as_str()] {
                out.push(lv(&format!("name:{}", ty.chars().take(24).collect::<String>().escape_default()), rbx_types::EnumItem { ty: ty.to_owned(), value: 3 }));
            }
        }
        VariantType::Attributes => {
            out.push(lv("empty", Attributes::new()));
            out.push(lv("one-bool", Attributes::new().with("a", true)));
            // two maps that are `==` and differ in bits
            out.push(lv("zeros", Attributes::new().with("v", Variant::Vector3(Vector3::new(0.0, 0.0, 0.0))).with("z", Variant::Float64(0.0))));
            out.push(lv("negative-zeros", Attributes::new().with("v", Variant::Vector3(Vector3::new(-0.0, 0.0, -0.0))).with("z", Variant::Float64(-0.0))));
            out.push(lv(
                "mixed",
                Attributes::new()
                    .with("x", Variant::Float64(0.1))
                    .with("", Variant::BinaryString(BinaryString::from(vec![0u8, 255])))
                    .with("é", Variant::Vector3(Vector3::new(1.0, -0.0, f32::INFINITY))),
            ));
        }
        _ => {}
    }
    out
}

/// Types the README marks as implemented for rbx_binary (plus the blob types
/// that ride on String), excluding Ref/SharedString/Content::Object topologies.
pub fn binary_types() -> Vec<VariantType> {
    use VariantType::*;
    vec![
        Bool, Int32, Int64, Float32, Float64, String, BinaryString, ContentId, Content, Enum, BrickColor, Color3,
        Color3uint8, Vector2, Vector3, Vector3int16, CFrame, OptionalCFrame, Ray, Rect, UDim, UDim2, NumberRange,
        NumberSequence, ColorSequence, PhysicalProperties, Faces, Axes, Font, UniqueId, SecurityCapabilities, Tags,
        MaterialColors, Attributes,
    ]
}

pub fn xml_types() -> Vec<VariantType> {
    let mut v = binary_types();
    v.push(VariantType::Vector2int16);
    v
}

pub fn type_name(t: VariantType) -> String {
    format!("{:?}", t)
}
