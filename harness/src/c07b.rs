//! C07 (b): merge points of the DOM state graph. Whenever the breadth-first search over
//! WeakDom histories reaches a canonical state again by a different history (or builds
//! it freshly), the rooted trees of both real DOMs are renamed by position and
//! serialized (binary, XML); every arrival at one canonical state must give the same
//! bytes as the first. A differential oracle: nothing is expected by hand, only that
//! output is a function of the logical content and not of the operation history
//! (hash-map capacity and tombstone history, Ref values, insertion sequence).

use std::collections::{BTreeMap, HashMap, HashSet};

use rbx_dom_weak::types::{Ref, Variant};
use rbx_dom_weak::WeakDom;
use serde::{Deserialize, Serialize};
use serde_json::{json, Value};

use crate::dommodel::*;
use crate::domx::{run_to, PathKind};
use crate::evidence::{Run, Tier};
use crate::sweeps::SweepOut;

fn normalise(dom: &mut WeakDom) -> Vec<Ref> {
    // pre-order below the root
    let mut order = Vec::new();
    fn go(dom: &WeakDom, r: Ref, out: &mut Vec<Ref>) {
        out.push(r);
        for &c in dom.get_by_ref(r).map(|i| i.children().to_vec()).unwrap_or_default().iter() {
            go(dom, c, out);
        }
    }
    let tops: Vec<Ref> = dom.root().children().to_vec();
    for &t in &tops {
        go(dom, t, &mut order);
    }
    for (k, r) in order.iter().enumerate() {
        if let Some(i) = dom.get_by_ref_mut(*r) {
            i.name = format!("k{}", k);
            // classes are handed out per node id by the model, not by shape: make them positional too
            i.class = ustr::ustr(["Folder", "Part", "ZzUnknown"][k % 3]);
            let keys: Vec<_> = i.properties.iter().map(|(k, _)| *k).collect();
            for key in keys {
                if let Some(Variant::Int32(_)) = i.properties.get(&key) {
                    i.properties.insert(key, Variant::Int32(k as i32));
                }
                // the model's Content-object marker names an instance outside the written set, and
                // rbx_xml cannot write Object contents at all (a listed C02 finding): not part of
                // what this comparison is about
                if let Some(Variant::Content(_)) = i.properties.get(&key) {
                    i.properties.remove(&key);
                }
                // properties *named* Name / ClassName / Parent are for the DOM operations only
                if matches!(key.as_str(), "Name" | "ClassName" | "Parent") {
                    i.properties.remove(&key);
                }
                // the model's second UniqueId-typed value follows the payload: positional as well
                if key.as_str() == "Archivable" {
                    i.properties.insert(key, Variant::Bool(k % 3 != 0));
                }
                if key.as_str() == "HistoryId" {
                    i.properties.insert(key, Variant::UniqueId(crate::dommodel::history_value(k as i32)));
                }
            }
        }
    }
    tops
}

fn digest_of(real: &mut Real) -> Result<[u8; 32], String> {
    let mut h = blake3::Hasher::new();
    for dom in real.doms.iter_mut() {
        let tops = normalise(dom);
        let mut b = Vec::new();
        rbx_binary::Serializer::new().compression_type(rbx_binary::CompressionType::None).serialize(&mut b, dom, &tops).map_err(|e| format!("binary: {}", e))?;
        h.update(&(b.len() as u64).to_le_bytes());
        h.update(&b);
        let mut x = Vec::new();
        rbx_xml::to_writer(&mut x, dom, &tops, rbx_xml::EncodeOptions::new().property_behavior(rbx_xml::EncodePropertyBehavior::WriteUnknown)).map_err(|e| format!("xml: {}", e))?;
        h.update(&(x.len() as u64).to_le_bytes());
        h.update(&x);
    }
    Ok(*h.finalize().as_bytes())
}

#[derive(Clone, Serialize, Deserialize)]
pub struct Arrival {
    pub history: Vec<Op>,
    pub op: Op,
    pub fresh: bool,
}

#[derive(Serialize, Deserialize, Default)]
struct WOut {
    arrivals: u64,
    /// key -> (digest, first arrival)
    first: Vec<(Vec<u8>, [u8; 32], Arrival)>,
    /// (key, the two arrivals that differ)
    diffs: Vec<(String, Arrival, Arrival)>,
    failures: Vec<(String, Arrival)>,
    new_states: Vec<(Vec<u8>, u32, Op)>,
}

#[derive(Clone, Serialize, Deserialize)]
pub struct Replay07b {
    pub a: Arrival,
    pub b: Arrival,
}

fn arrive(a: &Arrival) -> Result<[u8; 32], String> {
    let (mut real, _m) = run_to(&a.history, &a.op, if a.fresh { PathKind::Fresh } else { PathKind::History }).ok_or_else(|| "the operation did not complete".to_owned())?;
    digest_of(&mut real)
}

pub fn merge_points(run: &Run, total: &mut SweepOut) -> Value {
    let cap = std::env::var("VERIF_MERGE_CAP").ok().and_then(|s| s.parse().ok()).unwrap_or(if run.tier == Tier::Quick { 8 } else { 10 });
    let cfg = Config { cap, shapes: vec![Shape::Leaf, Shape::Chain2, Shape::Fan2], uid_tokens: vec![], refs: false, overlapping_multi: true, triples: false };
    struct St {
        model: Model,
        history: Vec<Op>,
    }
    let mut seen: HashSet<Vec<u8>> = HashSet::new();
    let mut digests: HashMap<Vec<u8>, ([u8; 32], Arrival)> = HashMap::new();
    let init = St { model: Model::new(), history: vec![] };
    seen.insert(canon_key(&init.model, true));
    let mut layer = vec![init];
    let (mut states, mut arrivals, mut merges_compared) = (1u64, 0u64, 0u64);
    let mut layers = vec![1u64];
    let procs_max = crate::forkpool::default_procs();
    while !layer.is_empty() {
        let procs = if layer.len() < 64 { 1 } else { procs_max.min(layer.len() / 16).max(1) };
        let layer_ref = &layer;
        let cfg_ref = &cfg;
        let seen_ref = &seen;
        let outs: Vec<WOut> = crate::forkpool::fork_map(procs, |w| {
            let mut out = WOut::default();
            let mut local: HashMap<Vec<u8>, ([u8; 32], Arrival)> = HashMap::new();
            let mut local_new: HashSet<Vec<u8>> = HashSet::new();
            for (si, st) in layer_ref.iter().enumerate() {
                if si % procs != w {
                    continue;
                }
                for op in enabled_ops(&st.model, cfg_ref) {
                    let mut m2 = st.model.clone();
                    m2.apply(&op);
                    let key = canon_key(&m2, true);
                    for fresh in [false, true] {
                        let a = Arrival { history: st.history.clone(), op: op.clone(), fresh };
                        out.arrivals += 1;
                        match crate::evidence::guarded(|| arrive(&a)) {
                            Ok(Ok(d)) => match local.get(&key) {
                                None => {
                                    local.insert(key.clone(), (d, a));
                                }
                                Some((d0, a0)) => {
                                    if *d0 != d && out.diffs.len() < 4 {
                                        out.diffs.push((String::from_utf8_lossy(&key).into_owned(), a0.clone(), a));
                                    }
                                }
                            },
                            Ok(Err(e)) => {
                                if out.failures.len() < 4 {
                                    out.failures.push((e, a));
                                }
                            }
                            Err((s, m)) => {
                                if out.failures.len() < 4 {
                                    out.failures.push((format!("panic {} {}", s, m), a));
                                }
                            }
                        }
                    }
                    if !seen_ref.contains(&key) && local_new.insert(key.clone()) {
                        out.new_states.push((key, si as u32, op.clone()));
                    }
                }
            }
            out.first = local.into_iter().map(|(k, (d, a))| (k, d, a)).collect();
            out
        });
        let mut next = Vec::new();
        for o in outs {
            arrivals += o.arrivals;
            for (key, a, b) in o.diffs {
                total.violation("c07|merge-point|bytes-differ".into(), format!("two arrivals at the canonical state {} serialize to different bytes (positions renamed)", key.chars().take(120).collect::<String>()), || serde_json::to_value(Replay07b { a, b }).unwrap());
            }
            for (e, a) in o.failures {
                total.violation(format!("c07|merge-point|serializer-failed|{}", e.chars().take(60).collect::<String>()), format!("serializing a DOM reached by a history failed: {}", e), || serde_json::to_value(Replay07b { a: a.clone(), b: a }).unwrap());
            }
            for (k, d, a) in o.first {
                match digests.get(&k) {
                    None => {
                        digests.insert(k, (d, a));
                    }
                    Some((d0, a0)) => {
                        merges_compared += 1;
                        if *d0 != d {
                            let (a0, a1) = (a0.clone(), a);
                            total.violation("c07|merge-point|bytes-differ".into(), format!("two arrivals at the canonical state {} serialize to different bytes (positions renamed)", String::from_utf8_lossy(&k).chars().take(120).collect::<String>()), || serde_json::to_value(Replay07b { a: a0, b: a1 }).unwrap());
                        }
                    }
                }
            }
            for (key, si, op) in o.new_states {
                if seen.insert(key) {
                    let parent = &layer[si as usize];
                    let mut m2 = parent.model.clone();
                    m2.apply(&op);
                    let mut h = parent.history.clone();
                    h.push(op);
                    next.push(St { model: m2, history: h });
                }
            }
        }
        states += next.len() as u64;
        if !next.is_empty() {
            layers.push(next.len() as u64);
        }
        layer = next;
    }
    total.cases += states;
    total.executions += arrivals * 4;
    total.nontrivial += states;
    let _ = BTreeMap::<u8, u8>::new();
    json!({
        "live_instance_cap": cap,
        "canonical_states": states,
        "layers": layers,
        "arrivals_serialized": arrivals,
        "arrivals_per_state_avg": if states > 0 { arrivals as f64 / states as f64 } else { 0.0 },
        "cross_worker_merges_compared": merges_compared,
        "closed": true,
        "rule": "BFS over canonical states of two WeakDoms (structure mode, all seven operations); every transition is executed on real WeakDoms by history replay and by fresh construction; the rooted trees of both DOMs are renamed by pre-order position and serialized to binary (uncompressed) and XML; all arrivals at one canonical state must give identical bytes",
    })
}

pub fn replay(case: &Value) -> Vec<(String, String)> {
    let r: Replay07b = serde_json::from_value(case.clone()).unwrap_or_else(|e| crate::evidence::machinery_failure(&format!("bad replay: {}", e)));
    let (da, db) = (arrive(&r.a), arrive(&r.b));
    let (da2, db2) = (arrive(&r.a), arrive(&r.b));
    if da != da2 || db != db2 {
        return vec![("c07|merge-point|not-even-repeatable".into(), "the same history serializes to different bytes when simply repeated".into())];
    }
    match (da, db) {
        (Ok(x), Ok(y)) if x == y => vec![],
        (Ok(_), Ok(_)) => {
            for (tag, a) in [("a", &r.a), ("b", &r.b)] {
                if let Some((mut real, _)) = run_to(&a.history, &a.op, if a.fresh { PathKind::Fresh } else { PathKind::History }) {
                    for (d, dom) in real.doms.iter_mut().enumerate() {
                        let tops = normalise(dom);
                        let mut x = Vec::new();
                        let _ = rbx_xml::to_writer(&mut x, dom, &tops, rbx_xml::EncodeOptions::new().property_behavior(rbx_xml::EncodePropertyBehavior::WriteUnknown));
                        println!("arrival {} dom{} xml:\n{}", tag, d, String::from_utf8_lossy(&x));
                    }
                }
            }
            vec![("c07|merge-point|bytes-differ".into(), "the two arrivals serialize to different bytes".into())]
        }
        (a, b) => vec![("c07|merge-point|serializer-failed".into(), format!("{:?} / {:?}", a.err(), b.err()))],
    }
}
