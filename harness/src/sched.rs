//! Deterministic baton scheduler and stateless DFS over schedules
//! (iterated preemption bounding), used for C18 and C12(c).
//!
//! Real OS threads run the real code; exactly one holds the baton. A thread
//! parks at every yield point (harness operation boundary, the intern-table
//! lock, every atomic operation on `UniqueId`'s counter — announced by the
//! `cfg(rbx_dom_verif)` shims in rbx_types). No yield point lies inside a
//! critical section, so a running thread always reaches its next yield point
//! or terminates without blocking; a step that does not come back within the
//! watchdog interval is reported as a deadlock.

use std::cell::RefCell;
use std::sync::{Arc, Condvar, Mutex};
use std::time::Duration;

use rbx_types::verif::YieldPoint;

#[derive(Clone, Copy, Debug, PartialEq, Eq)]
enum Status {
    Parked,
    Running,
    Finished,
}

struct Inner {
    running: Option<usize>,
    status: Vec<Status>,
    /// label of the yield point each parked thread waits at
    at: Vec<&'static str>,
    /// for a thread parked at "blocked": the lock-release count when it parked
    blocked_at: Vec<u64>,
    abort: bool,
}

pub struct Sched {
    inner: Mutex<Inner>,
    cv: Condvar,
}

thread_local! {
    static CURRENT: RefCell<Option<(Arc<Sched>, usize)>> = RefCell::new(None);
}

/// Installs the process-wide yield callback once.
pub fn install() {
    static ONCE: std::sync::Once = std::sync::Once::new();
    ONCE.call_once(|| {
        rbx_types::verif::set_yield_callback(Some(Arc::new(|pt: YieldPoint| {
            let label = match pt {
                YieldPoint::StringCacheLock => "lock",
                YieldPoint::StringCacheBlocked => "blocked",
                YieldPoint::ArcOp => "arc",
                YieldPoint::IndexOp => "atomic",
            };
            yield_here(label);
        })));
    });
}

/// A scheduling point of the calling worker thread (no-op for other threads).
pub fn yield_here(label: &'static str) {
    let cur = CURRENT.with(|c| c.borrow().clone());
    if let Some((s, tid)) = cur {
        s.park(tid, label);
    }
}

struct AbortExecution;

/// How long one step may take before the execution is declared stuck. Generous: the explorer
/// shares the machine with 15 sibling processes (and whatever else runs), and a step that merely
/// waited for a CPU must never be reported as a deadlock.
pub const WATCHDOG: Duration = Duration::from_secs(180);

impl Sched {
    fn new(n: usize) -> Arc<Sched> {
        Arc::new(Sched {
            inner: Mutex::new(Inner {
                running: None,
                status: vec![Status::Parked; n],
                at: vec!["start"; n],
                blocked_at: vec![0; n],
                abort: false,
            }),
            cv: Condvar::new(),
        })
    }

    fn park(&self, tid: usize, label: &'static str) {
        let mut g = self.inner.lock().unwrap();
        if g.abort && std::thread::panicking() {
            return;
        }
        g.status[tid] = Status::Parked;
        g.at[tid] = label;
        if label == "blocked" {
            g.blocked_at[tid] = rbx_types::verif::lock_releases();
        }
        g.running = None;
        self.cv.notify_all();
        while g.running != Some(tid) {
            if g.abort {
                drop(g);
                // A thread that is already unwinding (its remaining handles are being dropped,
                // which reaches the hooks again) must not panic a second time - that aborts the
                // process. The execution is being discarded: let it run free.
                if std::thread::panicking() {
                    return;
                }
                std::panic::resume_unwind(Box::new(AbortExecution));
            }
            g = self.cv.wait(g).unwrap();
        }
        g.status[tid] = Status::Running;
    }

    fn wait_first_turn(&self, tid: usize) {
        let mut g = self.inner.lock().unwrap();
        while g.running != Some(tid) {
            if g.abort {
                drop(g);
                std::panic::resume_unwind(Box::new(AbortExecution));
            }
            g = self.cv.wait(g).unwrap();
        }
        g.status[tid] = Status::Running;
    }

    fn finish(&self, tid: usize) {
        let mut g = self.inner.lock().unwrap();
        g.status[tid] = Status::Finished;
        if g.running == Some(tid) {
            g.running = None;
        }
        self.cv.notify_all();
    }
}

#[derive(Clone, Debug)]
pub struct ChoicePoint {
    pub enabled: Vec<usize>,
    pub chosen: usize,
    /// thread that ran the previous step (None at the first point)
    pub last: Option<usize>,
    pub labels: Vec<&'static str>,
}

#[derive(Debug)]
pub struct Execution<R> {
    pub points: Vec<ChoicePoint>,
    pub results: Vec<Option<R>>,
    pub deadlock: bool,
    /// every unfinished thread waits for the intern-table lock, which its holder never releases
    pub lock_deadlock: bool,
    pub panics: Vec<(usize, String)>,
    pub preemptions: usize,
    /// failures reported by the cut observer
    pub cut_failures: Vec<String>,
}

impl<R> Execution<R> {
    pub fn schedule(&self) -> Vec<usize> {
        self.points.iter().map(|p| p.chosen).collect()
    }
}

/// Runs one execution: `bodies[i]` is thread i's program. `prefix` forces the
/// first choices (thread ids); afterwards the default is taken (keep running
/// the current thread if it is enabled, else the lowest enabled id).
/// `at_cut` is called by the controller whenever all threads are parked.
pub fn run_once<R: Send + 'static>(
    bodies: Vec<Box<dyn FnOnce() -> R + Send + 'static>>,
    prefix: &[usize],
    at_cut: &mut dyn FnMut() -> Option<String>,
    watchdog: Duration,
) -> Execution<R> {
    install();
    let n = bodies.len();
    let sched = Sched::new(n);
    let mut handles = Vec::new();
    for (tid, body) in bodies.into_iter().enumerate() {
        let s = sched.clone();
        handles.push(std::thread::spawn(move || {
            CURRENT.with(|c| *c.borrow_mut() = Some((s.clone(), tid)));
            let res = crate::evidence::guarded(|| {
                s.wait_first_turn(tid);
                body()
            });
            CURRENT.with(|c| *c.borrow_mut() = None);
            s.finish(tid);
            res
        }));
    }
    let mut points: Vec<ChoicePoint> = Vec::new();
    let mut last: Option<usize> = None;
    let mut deadlock = false;
    let mut lock_deadlock = false;
    let mut preemptions = 0usize;
    let mut cut_failures = Vec::new();
    loop {
        let mut g = sched.inner.lock().unwrap();
        // wait until nobody runs
        let mut timed_out = false;
        while g.running.is_some() {
            let (ng, to) = sched.cv.wait_timeout(g, watchdog).unwrap();
            g = ng;
            if to.timed_out() && g.running.is_some() {
                timed_out = true;
                break;
            }
        }
        if timed_out {
            deadlock = true;
            g.abort = true;
            sched.cv.notify_all();
            break;
        }
        let parked: Vec<usize> = (0..n).filter(|&i| g.status[i] == Status::Parked).collect();
        if parked.is_empty() {
            break;
        }
        // a thread that found the lock taken can only move once the lock has been released
        let releases = rbx_types::verif::lock_releases();
        let enabled: Vec<usize> = parked.iter().copied().filter(|&i| g.at[i] != "blocked" || g.blocked_at[i] != releases).collect();
        if enabled.is_empty() {
            lock_deadlock = true;
            deadlock = true;
            g.abort = true;
            sched.cv.notify_all();
            break;
        }
        drop(g);
        if let Some(f) = at_cut() {
            cut_failures.push(format!("after {} steps: {}", points.len(), f));
        }
        let mut g = sched.inner.lock().unwrap();
        let idx = points.len();
        let chosen = if idx < prefix.len() {
            let c = prefix[idx];
            if !enabled.contains(&c) {
                g.abort = true;
                sched.cv.notify_all();
                drop(g);
                for h in handles {
                    let _ = h.join();
                }
                crate::evidence::machinery_failure(&format!(
                    "schedule divergence while replaying prefix: step {} wants thread {} but enabled = {:?}",
                    idx, c, enabled
                ));
            }
            c
        } else {
            match last {
                Some(l) if enabled.contains(&l) => l,
                _ => enabled[0],
            }
        };
        if let Some(l) = last {
            if chosen != l && enabled.contains(&l) {
                preemptions += 1;
            }
        }
        let labels = enabled.iter().map(|&i| g.at[i]).collect();
        points.push(ChoicePoint {
            enabled: enabled.clone(),
            chosen,
            last,
            labels,
        });
        last = Some(chosen);
        g.running = Some(chosen);
        g.status[chosen] = Status::Running;
        sched.cv.notify_all();
    }
    let mut results = Vec::new();
    let mut panics = Vec::new();
    for (tid, h) in handles.into_iter().enumerate() {
        if deadlock {
            // threads may be stuck for real; do not join them
            results.push(None);
            std::mem::forget(h);
            continue;
        }
        match h.join() {
            Ok(Ok(r)) => results.push(Some(r)),
            Ok(Err((site, msg))) => {
                results.push(None);
                panics.push((tid, format!("{}: {}", site, msg)));
            }
            Err(_) => {
                results.push(None);
                panics.push((tid, "thread died".to_owned()));
            }
        }
    }
    Execution {
        points,
        results,
        deadlock,
        lock_deadlock,
        panics,
        preemptions,
        cut_failures,
    }
}

pub struct DfsStats {
    pub executions: u64,
    pub by_preemptions: Vec<u64>,
    pub max_steps: usize,
    pub bound_completed: Option<usize>,
    pub cap_hit: bool,
}

/// Stateless DFS over all schedules with at most `bound` preemptions
/// (`None` = unbounded: every interleaving). `make` builds fresh thread
/// bodies for each execution; `check` judges one complete execution and
/// returns `false` to stop the search early.
pub fn explore<R: Send + 'static>(
    make: &mut dyn FnMut() -> (Vec<Box<dyn FnOnce() -> R + Send + 'static>>, Box<dyn FnMut() -> Option<String>>),
    bound: Option<usize>,
    max_executions: u64,
    check: &mut dyn FnMut(&Execution<R>),
) -> DfsStats {
    let mut stats = DfsStats {
        executions: 0,
        by_preemptions: Vec::new(),
        max_steps: 0,
        bound_completed: bound,
        cap_hit: false,
    };
    let mut stack: Vec<Vec<usize>> = vec![vec![]];
    while let Some(prefix) = stack.pop() {
        if stats.executions >= max_executions {
            stats.cap_hit = true;
            break;
        }
        let (bodies, mut at_cut) = make();
        let ex = run_once(bodies, &prefix, &mut *at_cut, WATCHDOG);
        stats.executions += 1;
        if stats.by_preemptions.len() <= ex.preemptions {
            stats.by_preemptions.resize(ex.preemptions + 1, 0);
        }
        stats.by_preemptions[ex.preemptions] += 1;
        stats.max_steps = stats.max_steps.max(ex.points.len());
        check(&ex);
        // expand alternatives at every point not fixed by the prefix
        let mut pre = 0usize;
        let mut pre_before: Vec<usize> = Vec::with_capacity(ex.points.len());
        for p in &ex.points {
            pre_before.push(pre);
            if let Some(l) = p.last {
                if p.chosen != l && p.enabled.contains(&l) {
                    pre += 1;
                }
            }
        }
        for i in (prefix.len()..ex.points.len()).rev() {
            let p = &ex.points[i];
            for &alt in p.enabled.iter().rev() {
                if alt == p.chosen {
                    continue;
                }
                let mut cost = pre_before[i];
                if let Some(l) = p.last {
                    if alt != l && p.enabled.contains(&l) {
                        cost += 1;
                    }
                }
                if let Some(b) = bound {
                    if cost > b {
                        continue;
                    }
                }
                let mut np: Vec<usize> = ex.points[..i].iter().map(|q| q.chosen).collect();
                np.push(alt);
                stack.push(np);
            }
        }
    }
    stats
}
