//! Plans (plain-data descriptions of a logical DOM), their realisation as real
//! `WeakDom`s, canonical forms and comparison (DESIGN.md 3.1 / 3.2).

use std::collections::{BTreeMap, HashMap};

use rbx_dom_weak::{
    types::{Content, Ref, SharedString, Variant},
    InstanceBuilder, WeakDom,
};

use crate::vals::{render, FloatMode};

#[derive(Clone, Debug, PartialEq)]
pub enum Tgt {
    Null,
    Node(usize),
    /// a referent that names no instance of the DOM
    Ghost,
}

#[derive(Clone, Debug, PartialEq)]
pub enum PVal {
    V(Variant),
    Ref(Tgt),
    ContentObj(Tgt),
    Shared(Vec<u8>),
}

#[derive(Clone, Debug)]
pub struct PNode {
    pub class: String,
    pub name: String,
    /// None = child of the DOM root
    pub parent: Option<usize>,
    pub props: Vec<(String, PVal)>,
}

#[derive(Clone, Debug, PartialEq)]
pub enum RootSel {
    /// write `[dom.root_ref()]`
    DomRoot,
    /// write these nodes (non-overlapping subtrees), in this order
    Nodes(Vec<usize>),
}

#[derive(Clone, Debug)]
pub struct Plan {
    /// parents precede children; sibling order = index order
    pub nodes: Vec<PNode>,
    pub roots: RootSel,
}

#[derive(Clone, Copy, Debug, PartialEq, Eq)]
pub enum How {
    /// one nested InstanceBuilder per top-level tree
    Nested,
    /// one `insert` call per node, parents first
    Incremental,
    /// build every node under the root first, then `transfer_within` into place
    /// (children are appended in index order, so the logical tree is the same)
    Reparent,
}

pub struct Realised {
    pub dom: WeakDom,
    pub refs: Vec<Ref>,
    pub ghost: Ref,
}

impl Plan {
    pub fn children_of(&self, p: Option<usize>) -> Vec<usize> {
        (0..self.nodes.len()).filter(|&i| self.nodes[i].parent == p).collect()
    }

    /// children lists of every node (index n = children of the DOM root), built in one pass
    pub fn children_index(&self) -> Vec<Vec<usize>> {
        let n = self.nodes.len();
        let mut idx = vec![Vec::new(); n + 1];
        for (i, node) in self.nodes.iter().enumerate() {
            idx[node.parent.unwrap_or(n)].push(i);
        }
        idx
    }

    pub fn subtree_preorder(&self, i: usize, out: &mut Vec<usize>) {
        let idx = self.children_index();
        fn go(idx: &[Vec<usize>], i: usize, out: &mut Vec<usize>) {
            out.push(i);
            for &c in &idx[i] {
                go(idx, c, out);
            }
        }
        go(&idx, i, out);
    }

    /// indices of written nodes in the order of the expected forest's pre-order
    /// (DomRoot: usize::MAX stands for the DataModel root itself)
    pub fn written_preorder(&self) -> Vec<usize> {
        let mut out = Vec::new();
        match &self.roots {
            RootSel::DomRoot => {
                out.push(usize::MAX);
                for c in self.children_of(None) {
                    self.subtree_preorder(c, &mut out);
                }
            }
            RootSel::Nodes(v) => {
                for &r in v {
                    self.subtree_preorder(r, &mut out);
                }
            }
        }
        out
    }

    pub fn realise(&self, how: How, referents: Option<&[Ref]>) -> Realised {
        let ghost = Ref::new();
        let refs: Vec<Ref> = match referents {
            Some(r) => r.to_vec(),
            None => self.nodes.iter().map(|_| Ref::new()).collect(),
        };
        let value = |v: &PVal| -> Variant {
            let tgt = |t: &Tgt| match t {
                Tgt::Null => Ref::none(),
                Tgt::Ghost => ghost,
                Tgt::Node(j) => refs[*j],
            };
            match v {
                PVal::V(v) => v.clone(),
                PVal::Ref(t) => Variant::Ref(tgt(t)),
                PVal::ContentObj(t) => Variant::Content(Content::from_referent(tgt(t))),
                PVal::Shared(b) => Variant::SharedString(SharedString::new(b.clone())),
            }
        };
        let flat = |i: usize| -> InstanceBuilder {
            let n = &self.nodes[i];
            let mut b = InstanceBuilder::new(n.class.as_str())
                .with_referent(refs[i])
                .with_name(n.name.clone());
            for (k, v) in &n.props {
                b = b.with_property(k.as_str(), value(v));
            }
            b
        };
        let mut dom = WeakDom::new(InstanceBuilder::new("DataModel"));
        let root = dom.root_ref();
        match how {
            How::Nested => {
                let idx = self.children_index();
                fn nested(idx: &[Vec<usize>], flat: &dyn Fn(usize) -> InstanceBuilder, i: usize) -> InstanceBuilder {
                    let mut b = flat(i);
                    for &c in &idx[i] {
                        b = b.with_child(nested(idx, flat, c));
                    }
                    b
                }
                for &t in &idx[self.nodes.len()] {
                    let b = nested(&idx, &flat, t);
                    dom.insert(root, b);
                }
            }
            How::Incremental => {
                for i in 0..self.nodes.len() {
                    let p = match self.nodes[i].parent {
                        None => root,
                        Some(p) => refs[p],
                    };
                    dom.insert(p, flat(i));
                }
            }
            How::Reparent => {
                // everything first lands under the root in reverse order ...
                for i in (0..self.nodes.len()).rev() {
                    dom.insert(root, flat(i));
                }
                // ... then is moved into place in index order (appends)
                for i in 0..self.nodes.len() {
                    let p = match self.nodes[i].parent {
                        None => root,
                        Some(p) => refs[p],
                    };
                    dom.transfer_within(refs[i], p);
                }
            }
        }
        Realised { dom, refs, ghost }
    }

    pub fn root_refs(&self, r: &Realised) -> Vec<Ref> {
        match &self.roots {
            RootSel::DomRoot => vec![r.dom.root_ref()],
            RootSel::Nodes(v) => v.iter().map(|&i| r.refs[i]).collect(),
        }
    }
}

// ---------------------------------------------------------------------------
// Canonical form

#[derive(Clone, Debug, PartialEq)]
pub struct CNode {
    pub class: String,
    pub name: String,
    pub props: BTreeMap<String, String>,
    pub children: Vec<CNode>,
}

/// Canonical form of the forest rooted at `roots`, through the public API only.
pub fn canon_forest(dom: &WeakDom, roots: &[Ref], mode: FloatMode) -> Vec<CNode> {
    let mut index: HashMap<Ref, usize> = HashMap::new();
    fn number(dom: &WeakDom, r: Ref, index: &mut HashMap<Ref, usize>) {
        let n = index.len();
        index.insert(r, n);
        if let Some(i) = dom.get_by_ref(r) {
            for &c in i.children() {
                number(dom, c, index);
            }
        }
    }
    for &r in roots {
        number(dom, r, &mut index);
    }
    let resolve = |r: Ref| -> String {
        if r.is_none() {
            "null".to_owned()
        } else if let Some(i) = index.get(&r) {
            format!("#{}", i)
        } else {
            "dangling".to_owned()
        }
    };
    fn build(dom: &WeakDom, r: Ref, mode: FloatMode, resolve: &dyn Fn(Ref) -> String) -> CNode {
        match dom.get_by_ref(r) {
            None => CNode {
                class: "<missing>".into(),
                name: "<missing>".into(),
                props: BTreeMap::new(),
                children: vec![],
            },
            Some(inst) => CNode {
                class: inst.class.to_string(),
                name: inst.name.clone(),
                props: inst
                    .properties
                    .iter()
                    .map(|(k, v)| (k.to_string(), render(v, mode, resolve)))
                    .collect(),
                children: inst.children().iter().map(|&c| build(dom, c, mode, resolve)).collect(),
            },
        }
    }
    roots.iter().map(|&r| build(dom, r, mode, &resolve)).collect()
}

/// Expected forest of a plan. `prop` maps one planned property to the expected
/// (canonical name, rendered value) pairs; `refstr` is given so that it can
/// render referents the same way `canon_forest` does.
pub fn expected_forest(
    plan: &Plan,
    prop: &dyn Fn(&PNode, &str, &PVal, &dyn Fn(&Tgt) -> String) -> Vec<(String, String)>,
) -> Vec<CNode> {
    let order = plan.written_preorder();
    let pos: HashMap<usize, usize> = order.iter().enumerate().map(|(k, &i)| (i, k)).collect();
    let refstr = |t: &Tgt| -> String {
        match t {
            Tgt::Null | Tgt::Ghost => "null".to_owned(),
            Tgt::Node(j) => match pos.get(j) {
                Some(k) => format!("#{}", k),
                None => "null".to_owned(),
            },
        }
    };
    let cidx = plan.children_index();
    fn build(
        plan: &Plan,
        cidx: &[Vec<usize>],
        i: usize,
        prop: &dyn Fn(&PNode, &str, &PVal, &dyn Fn(&Tgt) -> String) -> Vec<(String, String)>,
        refstr: &dyn Fn(&Tgt) -> String,
    ) -> CNode {
        let n = &plan.nodes[i];
        let mut props = BTreeMap::new();
        for (k, v) in &n.props {
            for (ek, ev) in prop(n, k, v, refstr) {
                props.insert(ek, ev);
            }
        }
        CNode {
            class: n.class.clone(),
            name: n.name.clone(),
            props,
            children: cidx[i].iter().map(|&c| build(plan, cidx, c, prop, refstr)).collect(),
        }
    }
    match &plan.roots {
        RootSel::DomRoot => vec![CNode {
            class: "DataModel".into(),
            name: "DataModel".into(),
            props: BTreeMap::new(),
            children: cidx[plan.nodes.len()].iter().map(|&c| build(plan, &cidx, c, prop, &refstr)).collect(),
        }],
        RootSel::Nodes(v) => v.iter().map(|&r| build(plan, &cidx, r, prop, &refstr)).collect(),
    }
}

#[derive(Clone, Debug)]
pub struct Diff {
    /// "shape" | "class" | "name" | "missing-prop" | "extra-prop" | "value"
    pub kind: &'static str,
    pub path: String,
    pub class: String,
    pub prop: String,
    pub expected: String,
    pub actual: String,
}

/// Compares two forests. `extra_ok(class, prop, rendered)` decides whether an
/// actual property that was not expected is permitted.
pub fn diff_forest(
    expected: &[CNode],
    actual: &[CNode],
    extra_ok: &dyn Fn(&str, &str, &str) -> bool,
) -> Vec<Diff> {
    let mut out = Vec::new();
    fn go(e: &[CNode], a: &[CNode], path: &str, extra_ok: &dyn Fn(&str, &str, &str) -> bool, out: &mut Vec<Diff>) {
        if e.len() != a.len() {
            out.push(Diff {
                kind: "shape",
                path: path.to_owned(),
                class: String::new(),
                prop: String::new(),
                expected: format!("{} children: {:?}", e.len(), e.iter().map(|n| n.name.as_str()).collect::<Vec<_>>()),
                actual: format!("{} children: {:?}", a.len(), a.iter().map(|n| n.name.as_str()).collect::<Vec<_>>()),
            });
            return;
        }
        for (i, (en, an)) in e.iter().zip(a.iter()).enumerate() {
            let p = format!("{}/{}", path, i);
            if en.class != an.class {
                out.push(Diff {
                    kind: "class",
                    path: p.clone(),
                    class: en.class.clone(),
                    prop: String::new(),
                    expected: en.class.clone(),
                    actual: an.class.clone(),
                });
            }
            if en.name != an.name {
                out.push(Diff {
                    kind: "name",
                    path: p.clone(),
                    class: en.class.clone(),
                    prop: String::new(),
                    expected: format!("{:?}", en.name),
                    actual: format!("{:?}", an.name),
                });
            }
            for (k, ev) in &en.props {
                match an.props.get(k) {
                    None => out.push(Diff {
                        kind: "missing-prop",
                        path: p.clone(),
                        class: en.class.clone(),
                        prop: k.clone(),
                        expected: ev.clone(),
                        actual: format!("absent (has {:?})", an.props.keys().collect::<Vec<_>>()),
                    }),
                    Some(av) if av != ev => out.push(Diff {
                        kind: "value",
                        path: p.clone(),
                        class: en.class.clone(),
                        prop: k.clone(),
                        expected: ev.clone(),
                        actual: av.clone(),
                    }),
                    _ => {}
                }
            }
            for (k, av) in &an.props {
                if !en.props.contains_key(k) && !extra_ok(&an.class, k, av) {
                    out.push(Diff {
                        kind: "extra-prop",
                        path: p.clone(),
                        class: en.class.clone(),
                        prop: k.clone(),
                        expected: "absent".into(),
                        actual: av.clone(),
                    });
                }
            }
            go(&en.children, &an.children, &p, extra_ok, out);
        }
    }
    go(expected, actual, "", extra_ok, &mut out);
    out
}

// ---------------------------------------------------------------------------
// Forest shapes

/// All ordered forests with exactly `n` nodes, as parent vectors in pre-order
/// (parent index or None for a top-level tree).
pub fn forests(n: usize) -> Vec<Vec<Option<usize>>> {
    // Pre-order parent vectors: node i's parent is any node on the rightmost
    // path of the forest built so far (or None).
    let mut out = Vec::new();
    fn rec(n: usize, cur: &mut Vec<Option<usize>>, out: &mut Vec<Vec<Option<usize>>>) {
        if cur.len() == n {
            out.push(cur.clone());
            return;
        }
        // candidates: None, or any ancestor-or-self of the previous node
        let mut cands: Vec<Option<usize>> = vec![None];
        if let Some(last) = cur.len().checked_sub(1) {
            let mut a = Some(last);
            while let Some(x) = a {
                cands.push(Some(x));
                a = cur[x];
            }
        }
        for c in cands {
            cur.push(c);
            rec(n, cur, out);
            cur.pop();
        }
    }
    rec(n, &mut Vec::new(), &mut out);
    out
}

/// All non-overlapping selections of root nodes (as ordered lists) for a
/// forest: every non-empty antichain, in every order.
pub fn root_selections(parents: &[Option<usize>], max_roots: usize) -> Vec<Vec<usize>> {
    let n = parents.len();
    let is_anc = |a: usize, mut b: usize| -> bool {
        // a is ancestor-or-self of b
        loop {
            if a == b {
                return true;
            }
            match parents[b] {
                Some(p) => b = p,
                None => return false,
            }
        }
    };
    let mut out: Vec<Vec<usize>> = Vec::new();
    fn rec(
        n: usize,
        max_roots: usize,
        cur: &mut Vec<usize>,
        is_anc: &dyn Fn(usize, usize) -> bool,
        out: &mut Vec<Vec<usize>>,
    ) {
        if !cur.is_empty() {
            out.push(cur.clone());
        }
        if cur.len() == max_roots {
            return;
        }
        for i in 0..n {
            if cur.iter().any(|&c| is_anc(c, i) || is_anc(i, c)) {
                continue;
            }
            cur.push(i);
            rec(n, max_roots, cur, is_anc, out);
            cur.pop();
        }
    }
    rec(n, max_roots, &mut Vec::new(), &is_anc, &mut out);
    out
}
