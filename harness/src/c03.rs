//! C03: every file rbx_binary writes is accepted by the independent decoder
//! written from docs/binary.md (specbin), is structurally well-formed, and
//! means what was in the DOM.

use std::collections::{BTreeMap, BTreeSet};

use rbx_dom_weak::types::{BinaryString, CFrame, Color3uint8, Ref, SharedString, Variant, VariantType};
use serde::{Deserialize, Serialize};
use serde_json::{json, Value};

use crate::codec::*;
use crate::evidence::Run;
use crate::plan::*;
use crate::specbin::{self, Switches};
use crate::specdb;
use crate::sweeps::{run_cases, SweepOut};
use crate::vals::{render, snap_rotation, Codec, FloatMode};

fn quantise(c: &rbx_dom_weak::types::Color3) -> Color3uint8 {
    let q = |x: f32| (x.clamp(0.0, 1.0) * 255.0).round() as u8;
    Color3uint8::new(q(c.r), q(c.g), q(c.b))
}

/// What the document says the wire value of `v` is when it is stored with wire type `wire`.
fn to_wire(v: &Variant, wire: Option<VariantType>) -> Variant {
    let bytes = |b: Vec<u8>| Variant::BinaryString(BinaryString::from(b));
    match v {
        Variant::String(s) => bytes(s.as_bytes().to_vec()),
        Variant::ContentId(s) => bytes(s.as_str().as_bytes().to_vec()),
        Variant::Tags(t) => bytes(t.encode()),
        Variant::MaterialColors(m) => bytes(m.encode()),
        Variant::Attributes(a) => {
            let mut b = Vec::new();
            let _ = a.to_writer(&mut b);
            bytes(b)
        }
        Variant::Color3(c) if wire == Some(VariantType::Color3uint8) => Variant::Color3uint8(quantise(c)),
        Variant::CFrame(c) => Variant::CFrame(CFrame::new(c.position, snap_rotation(&c.orientation))),
        Variant::OptionalCFrame(Some(c)) => Variant::OptionalCFrame(Some(CFrame::new(c.position, snap_rotation(&c.orientation)))),
        // a valueless OptionalCoordinateFrame is written as the identity CFrame with flag 0
        other => other.clone(),
    }
}

/// (wire name, wire type) of a planned property, None if it is not written
fn wire_target(class: &str, prop: &str, own_ty: Option<VariantType>) -> Option<(String, Option<VariantType>)> {
    match specdb::expect(class, prop) {
        None => Some((prop.to_owned(), own_ty)),
        Some(e) => {
            if !e.serializes || e.migrate.is_some() {
                None
            } else {
                Some((e.wire_name, e.wire_ty))
            }
        }
    }
}

fn pval_ty(v: &PVal) -> Option<VariantType> {
    Some(match v {
        PVal::V(v) => v.ty(),
        PVal::Ref(_) => VariantType::Ref,
        PVal::ContentObj(_) => VariantType::Content,
        PVal::Shared(_) => VariantType::SharedString,
    })
}

pub fn expected_wire(plan: &Plan, mode: FloatMode) -> Vec<CNode> {
    expected_forest(plan, &|node, prop, v, refstr| match wire_target(&node.class, prop, pval_ty(v)) {
        None => vec![],
        Some((name, wire)) => {
            let rendered = match v {
                PVal::V(val) => render(&to_wire(val, wire), mode, &|_| "?".into()),
                PVal::Ref(t) => format!("Ref:{}", refstr(t)),
                PVal::ContentObj(t) => format!("Content:Object:{}", refstr(t)),
                PVal::Shared(b) => render(&Variant::SharedString(SharedString::new(b.clone())), mode, &|_| "?".into()),
            };
            vec![(name, rendered)]
        }
    })
}

/// Every instance of a class carries every column of that class: the columns
/// an instance lacks hold the default (wire form).
pub fn wire_gain_rule(plan: &Plan, mode: FloatMode) -> impl Fn(&str, &str, &str) -> bool {
    let mut allowed: BTreeMap<String, BTreeMap<String, BTreeSet<String>>> = BTreeMap::new();
    let written: BTreeSet<usize> = plan.written_preorder().into_iter().collect();
    for (i, n) in plan.nodes.iter().enumerate() {
        if !written.contains(&i) {
            continue;
        }
        for (p, v) in &n.props {
            let (canonical, wire_name, wire_ty) = match specdb::expect(&n.class, p) {
                None => (p.clone(), p.clone(), pval_ty(v)),
                Some(e) => {
                    if !e.serializes {
                        continue;
                    }
                    match e.migrate {
                        Some((to, _)) => match specdb::expect(&n.class, &to) {
                            Some(e2) => (e2.name, e2.wire_name, e2.wire_ty),
                            None => continue,
                        },
                        None => (e.name, e.wire_name, e.wire_ty),
                    }
                }
            };
            let default = specdb::default_value(&n.class, &canonical).cloned().or_else(|| wire_ty.and_then(neutral));
            if let Some(d) = default {
                let r = match &d {
                    Variant::Ref(_) => "Ref:null".to_owned(),
                    other => render(&to_wire(other, wire_ty), mode, &|x: Ref| if x.is_none() { "null".into() } else { "dangling".into() }),
                };
                allowed.entry(n.class.clone()).or_default().entry(wire_name).or_default().insert(r);
            }
        }
    }
    move |class: &str, prop: &str, rendered: &str| allowed.get(class).and_then(|m| m.get(prop)).map(|s| s.contains(rendered)).unwrap_or(false)
}

#[derive(Serialize, Deserialize, Clone, Debug)]
pub struct Replay03 {
    pub desc: CaseDesc,
    pub compression: Compression,
}

fn doc_vs_impl_type(rendered: &str) -> Option<&'static str> {
    if rendered.starts_with("UniqueId(") {
        Some("UniqueId")
    } else if rendered.starts_with("Faces:") {
        Some("Faces")
    } else if rendered.starts_with("Content:") {
        Some("Content.SourceTypes")
    } else {
        None
    }
}

pub fn judge(desc: &CaseDesc, c: Compression) -> (String, Vec<(String, String)>) {
    let plan = build_plan(desc, Codec::Binary);
    let how = how_of(desc);
    let cls = class_of(desc);
    let mut out = Vec::new();
    let r = plan.realise(how, None);
    let roots = plan.root_refs(&r);
    let bytes = match binary_encode(&r, &roots, c) {
        Ok(Ok(b)) => b,
        Ok(Err(_)) => return ("encode-err".into(), out),
        Err(_) => return ("encode-panic".into(), out),
    };
    let expected = expected_wire(&plan, FloatMode::Exact);
    let gain = wire_gain_rule(&plan, FloatMode::Exact);
    let decode_and_diff = |sw: Switches| -> Result<(specbin::SpecFile, Vec<Diff>), String> {
        let f = specbin::decode(&bytes, sw)?;
        let forest = specbin::wire_forest(&f, FloatMode::Exact)?;
        // properties whose type id the document does not describe cannot be judged
        let undocumented: BTreeSet<String> = f.props.iter().filter(|p| p.skipped.as_deref().map(|s| s.contains("not described")).unwrap_or(false)).map(|p| p.name.clone()).collect();
        let mut exp = expected.clone();
        fn strip(n: &mut CNode, names: &BTreeSet<String>) {
            n.props.retain(|k, _| !names.contains(k));
            for c in n.children.iter_mut() {
                strip(c, names);
            }
        }
        for n in exp.iter_mut() {
            strip(n, &undocumented);
        }
        let diffs = diff_forest(&exp, &forest, &gain);
        Ok((f, diffs))
    };
    let (f, diffs_doc) = match decode_and_diff(Switches::default()) {
        Ok(x) => x,
        Err(e) => {
            // a Content SourceTypes array written in the implementation's form can make the
            // document-reading decoder fail outright; the rest of the file is then judged
            // with that one switch in the implementation position
            match decode_and_diff(Switches { content_impl: true, ..Switches::default() }) {
                Ok(x) if e.contains("Content") => {
                    out.push(("c03|doc-vs-impl|Content.SourceTypes".into(), format!("docs/binary.md says SourceTypes is Array(Enum) (untransformed big-endian u32); rbx_binary writes zig-zag transformed Int32, which the document-reading decoder rejects: {}", e)));
                    x
                }
                _ => {
                    out.push((format!("c03|spec-decoder-rejects|{}", cls), format!("the independent decoder rejects the file: {} [case {}]", e, label_of(desc))));
                    return ("rejected".into(), out);
                }
            }
        }
    };
    for s in &f.structure {
        let class: String = s.chars().map(|c| if c.is_ascii_digit() { '#' } else { c }).take(60).collect();
        out.push((format!("c03|structure|{}", class), format!("{} [case {}, {:?}]", s, label_of(desc), c)));
    }
    for p in &f.props {
        if let Some(s) = &p.skipped {
            if s.contains("not described") {
                out.push((format!("c03|doc-vs-impl|type-id-{:#04x}-undocumented", p.type_id.unwrap_or(0)), format!("property {} is written with {} [case {}]", p.name, s, label_of(desc))));
            }
        }
    }
    // compression actually used is what was asked for
    for ch in &f.chunks {
        let want = match c {
            Compression::Lz4 => specbin::Compression::Lz4,
            Compression::None => specbin::Compression::None,
            Compression::Zstd => specbin::Compression::Zstd,
        };
        if &ch.name != b"END\0" && ch.compression != want {
            out.push((format!("c03|compression|{:?}", c), format!("chunk {:?} is {:?} although {:?} was requested", String::from_utf8_lossy(&ch.name), ch.compression, c)));
            break;
        }
    }
    if !diffs_doc.is_empty() {
        let impl_diffs = decode_and_diff(Switches { uniqueid_impl: true, faces_impl: true, content_impl: true }).map(|x| x.1).unwrap_or_default();
        let impl_set: BTreeSet<(String, String)> = impl_diffs.iter().map(|d| (d.path.clone(), d.prop.clone())).collect();
        for d in &diffs_doc {
            let ty = doc_vs_impl_type(&d.expected).or_else(|| doc_vs_impl_type(&d.actual));
            if let (Some(t), false) = (ty, impl_set.contains(&(d.path.clone(), d.prop.clone()))) {
                out.push((format!("c03|doc-vs-impl|{}", t), format!("the file follows the implementation's reading of {} rather than the document's: expected {} decoded {}", t, d.expected.chars().take(80).collect::<String>(), d.actual.chars().take(80).collect::<String>())));
            } else {
                let culprits = culprit_labels(desc, std::slice::from_ref(d));
                out.push((
                    format!("c03|{}|{}|{}|{}", cls, d.kind, d.prop, culprits),
                    format!("the independent decoder reads something else than was in the DOM: {} at {} {}.{}: expected {} got {} [case {}]", d.kind, d.path, d.class, d.prop, d.expected.chars().take(120).collect::<String>(), d.actual.chars().take(120).collect::<String>(), label_of(desc)),
                ));
                break;
            }
        }
    }
    ("ok".into(), out)
}

pub fn check(run: &Run) -> Value {
    let vectors = specbin::self_check().unwrap_or_else(|e| crate::evidence::machinery_failure(&format!("specbin does not reproduce a worked example of docs/binary.md: {}", e)));
    let b = crate::sweeps::bounds(run.tier);
    let cases = crate::sweeps::c01_cases(&b);
    let seed = run.seed;
    let mut total: SweepOut = run_cases(&cases, &|i, desc, out| {
        out.nontrivial += 1;
        for c in Compression::all() {
            out.executions += 1;
            let (o, vs) = judge(desc, c);
            out.outcome(&o);
            for (key, what) in vs {
                out.violation(key, what, || serde_json::to_value(Replay03 { desc: desc.clone(), compression: c }).unwrap());
            }
        }
        if out.samples.len() < 2 && (i as u64 + seed) % 4099 == 7 {
            out.samples.push(serde_json::to_string(desc).unwrap());
        }
    });
    for parents in crate::sweeps::c01_late_forests(&b) {
        let chunk = crate::codec::topo_cases_for_forest(&parents, b.topo_classes);
        let o = run_cases(&chunk, &|_, desc, out| {
            out.nontrivial += 1;
            for c in Compression::all() {
                out.executions += 1;
                let (o, vs) = judge(desc, c);
                out.outcome(&o);
                for (key, what) in vs {
                    out.violation(key, what, || serde_json::to_value(Replay03 { desc: desc.clone(), compression: c }).unwrap());
                }
            }
        });
        total.merge(o);
    }
    let (c0, e0) = (total.cases, total.executions);
    let scalar = crate::scalar::sweep(run, crate::scalar::Which::WriterVsSpec, &mut total);
    let mixed = crate::mixed::sweep(run, "C03", &mut total);
    total.report(run);
    println!("C03 sweep: cases={} files={} outcomes={:?} doc_vectors={} scalar={}", c0, e0, total.outcomes, vectors, scalar);
    json!({
        "scalar_sweep": scalar,
        "mixed_type_columns": mixed,
        "states": total.cases,
        "transitions": total.executions,
        "traces_validated_against_impl": total.executions,
        "evaluations": total.executions,
        "distinct_nontrivial": total.nontrivial,
        "outcomes": total.outcomes,
        "doc_vectors_reproduced_by_spec_decoder": vectors,
        "samples": total.samples.iter().map(|s| serde_json::from_str::<Value>(s).unwrap()).collect::<Vec<_>>(),
        "exhaustive": true,
        "rule": "every file rbx_binary writes for every case of C01's bounded enumeration under each compression mode is decoded by the independent decoder (harness/src/specbin.rs, written from docs/binary.md and bound to its worked examples); the decoded classes / instances / hierarchy / wire values must equal the plan's, and the structural monitor (header counts, one INST per class with unique id, one value per instance per PROP consuming the chunk exactly, every instance once in PRNT with children before parents, SharedStrings stored once with indices in range, chunk lengths, zero reserved fields, uncompressed END with </roblox> and nothing after) must stay silent",
    })
}

pub fn replay(case: &Value) -> Vec<(String, String)> {
    let r: Replay03 = serde_json::from_value(case.clone()).unwrap_or_else(|e| crate::evidence::machinery_failure(&format!("bad replay: {}", e)));
    let a = judge(&r.desc, r.compression);
    let b = judge(&r.desc, r.compression);
    if a.1 != b.1 {
        crate::evidence::machinery_failure("replay gave two different observations");
    }
    a.1
}
