//! Evidence, known-finding and violation plumbing shared by every engine.
//!
//! Exit codes: 0 = property held on everything explored (known findings are
//! printed as `KNOWN-FINDING:` lines), 1 = at least one violation that
//! `known_findings.jsonl` does not list, 2 = machinery failure.

use std::{
    collections::BTreeMap,
    fs,
    path::PathBuf,
    sync::Mutex,
    time::Instant,
};

use serde_json::{json, Value};

#[derive(Debug, Clone, Copy, PartialEq, Eq)]
pub enum Tier {
    Quick,
    Thorough,
}

impl Tier {
    pub fn as_str(self) -> &'static str {
        match self {
            Tier::Quick => "quick",
            Tier::Thorough => "thorough",
        }
    }
}

pub fn verif_root() -> PathBuf {
    PathBuf::from(std::env::var("VERIF_ROOT").unwrap_or_else(|_| "/verif".to_owned()))
}

#[derive(Debug, Clone)]
struct KnownFinding {
    status: String,
    key: String,
    what: String,
}

struct Inner {
    /// key -> (count, what, replay path)
    violations: BTreeMap<String, (u64, String, String)>,
    /// key -> (count, what)
    known_hits: BTreeMap<String, (u64, String)>,
}

pub struct Run {
    pub prop: String,
    pub tier: Tier,
    pub seed: u64,
    pub level: &'static str,
    start: Instant,
    known: Vec<KnownFinding>,
    inner: Mutex<Inner>,
    /// When set, no files are written and nothing is printed for violations
    /// (used by replay, which only reports the observation).
    pub replay_mode: bool,
}

pub fn machinery_failure(msg: &str) -> ! {
    eprintln!("MACHINERY-FAILURE: {}", msg);
    println!("MACHINERY-FAILURE: {}", msg);
    std::process::exit(2);
}

fn sanitize(key: &str) -> String {
    let mut out: String = key
        .chars()
        .map(|c| if c.is_ascii_alphanumeric() || c == '-' || c == '_' || c == '.' { c } else { '_' })
        .collect();
    if out.len() > 80 {
        let h = blake3::hash(key.as_bytes()).to_hex();
        out.truncate(60);
        out.push('_');
        out.push_str(&h.as_str()[..12]);
    }
    out
}

impl Run {
    pub fn new(prop: &str, tier: Tier, level: &'static str) -> Run {
        let seed = std::env::var("VERIF_SEED")
            .ok()
            .and_then(|s| s.parse::<u64>().ok())
            .unwrap_or(0);
        let mut known = Vec::new();
        let path = verif_root().join("known_findings.jsonl");
        if let Ok(text) = fs::read_to_string(&path) {
            for line in text.lines() {
                let line = line.trim();
                if line.is_empty() || line.starts_with('#') {
                    continue;
                }
                let v: Value = match serde_json::from_str(line) {
                    Ok(v) => v,
                    Err(e) => machinery_failure(&format!("known_findings.jsonl: {}", e)),
                };
                if v["property"].as_str() != Some(prop) {
                    continue;
                }
                known.push(KnownFinding {
                    status: v["status"].as_str().unwrap_or("").to_owned(),
                    key: v["key"].as_str().unwrap_or("").to_owned(),
                    what: v["what"].as_str().unwrap_or("").to_owned(),
                });
            }
        }
        Run {
            prop: prop.to_owned(),
            tier,
            seed,
            level,
            start: Instant::now(),
            known,
            inner: Mutex::new(Inner {
                violations: BTreeMap::new(),
                known_hits: BTreeMap::new(),
            }),
            replay_mode: false,
        }
    }

    pub fn elapsed(&self) -> f64 {
        self.start.elapsed().as_secs_f64()
    }

    /// Is `key` listed as a known (unrepaired) finding for this property?
    pub fn is_known(&self, key: &str) -> bool {
        self.known.iter().any(|k| k.status == "known" && k.key == key)
    }

    /// Reports one violating case. `key` is the specific signature of the
    /// failure (site / input class); `replay` is a self-contained artefact that
    /// `./check <ID> --replay` can re-execute without the explorer.
    /// Returns true when the violation is new (not a known finding).
    pub fn violation(&self, key: &str, what: &str, replay: impl FnOnce() -> Value) -> bool {
        self.violation_n(key, what, 1, replay)
    }

    /// Like `violation`, for `n` cases with the same key found elsewhere
    /// (e.g. in a worker process).
    pub fn violation_n(&self, key: &str, what: &str, n: u64, replay: impl FnOnce() -> Value) -> bool {
        let mut inner = self.inner.lock().unwrap();
        if let Some(k) = self.known.iter().find(|k| k.status == "known" && k.key == key) {
            let e = inner
                .known_hits
                .entry(key.to_owned())
                .or_insert((0, k.what.clone()));
            e.0 += n;
            return false;
        }
        if let Some(e) = inner.violations.get_mut(key) {
            e.0 += n;
            return true;
        }
        let mut path = String::new();
        if !self.replay_mode && inner.violations.len() < 200 {
            let dir = verif_root().join("replays").join(&self.prop);
            let _ = fs::create_dir_all(&dir);
            let file = dir.join(format!("{}.json", sanitize(key)));
            let doc = json!({
                "property": self.prop,
                "key": key,
                "what": what,
                "case": replay(),
            });
            if let Err(e) = fs::write(&file, serde_json::to_string_pretty(&doc).unwrap()) {
                machinery_failure(&format!("cannot write replay {}: {}", file.display(), e));
            }
            path = file.display().to_string();
            if inner.violations.len() < 40 {
                println!("VIOLATION property={} replay={}", self.prop, path);
                println!("  key: {}", key);
                println!("  what: {}", what);
            }
        }
        inner
            .violations
            .insert(key.to_owned(), (n, what.to_owned(), path));
        true
    }

    pub fn violation_count(&self) -> usize {
        self.inner.lock().unwrap().violations.len()
    }

    /// Writes the evidence file and exits with the verdict.
    pub fn finish(&self, mut coverage: Value, assumptions: &[&str]) -> ! {
        let inner = self.inner.lock().unwrap();
        for (key, (count, what)) in inner.known_hits.iter() {
            println!(
                "KNOWN-FINDING: property={} {} [key={} cases={}]",
                self.prop, what, key, count
            );
        }
        if inner.violations.len() > 40 {
            println!(
                "... {} distinct violation keys in total (first 40 printed)",
                inner.violations.len()
            );
        }
        let known_list: Vec<Value> = inner
            .known_hits
            .iter()
            .map(|(k, (c, w))| json!({"key": k, "cases": c, "what": w}))
            .collect();
        let viol_list: Vec<Value> = inner
            .violations
            .iter()
            .take(100)
            .map(|(k, (c, w, p))| json!({"key": k, "cases": c, "what": w, "replay": p}))
            .collect();
        if let Value::Object(map) = &mut coverage {
            map.insert("known_findings_observed".into(), Value::Array(known_list));
            map.insert("violation_keys".into(), Value::Array(viol_list));
        }
        let doc = json!({
            "property_id": self.prop,
            "tier": self.tier.as_str(),
            "seed": self.seed,
            "level": self.level,
            "coverage": coverage,
            "assumptions": assumptions,
            "wall_s": (self.elapsed() * 1000.0).round() / 1000.0,
            "violations": inner.violations.len(),
        });
        let dir = verif_root().join("evidence");
        let _ = fs::create_dir_all(&dir);
        let file = dir.join(format!("{}.json", self.prop));
        if let Err(e) = fs::write(&file, serde_json::to_string_pretty(&doc).unwrap() + "\n") {
            machinery_failure(&format!("cannot write evidence {}: {}", file.display(), e));
        }
        let code = if inner.violations.is_empty() { 0 } else { 1 };
        println!(
            "{} {} tier={} violations={} known={} wall={:.1}s evidence={}",
            self.prop,
            if code == 0 { "HELD" } else { "VIOLATED" },
            self.tier.as_str(),
            inner.violations.len(),
            inner.known_hits.len(),
            self.elapsed(),
            file.display()
        );
        std::process::exit(code);
    }
}

/// Parses the common command line: `<engine> <PROP> quick|thorough` or
/// `<engine> <PROP> --replay <file>`.
pub enum Cmd {
    Check(String, Tier),
    Replay(String, PathBuf),
}

pub fn parse_args() -> Cmd {
    let args: Vec<String> = std::env::args().collect();
    if args.len() >= 4 && args[2] == "--replay" {
        return Cmd::Replay(args[1].clone(), PathBuf::from(&args[3]));
    }
    if args.len() >= 3 {
        let tier = match args[2].as_str() {
            "quick" => Tier::Quick,
            "thorough" => Tier::Thorough,
            other => machinery_failure(&format!("unknown tier {}", other)),
        };
        return Cmd::Check(args[1].clone(), tier);
    }
    machinery_failure("usage: <engine> <PROP> quick|thorough | <engine> <PROP> --replay <file>");
}

/// Installs a panic hook that stays silent (panics inside `catch_unwind` are
/// expected while probing the subject) but remembers the last message/site.
pub fn quiet_panics() {
    std::panic::set_hook(Box::new(|info| {
        let loc = info
            .location()
            .map(|l| format!("{}:{}", l.file(), l.line()))
            .unwrap_or_default();
        let msg = if let Some(s) = info.payload().downcast_ref::<&str>() {
            (*s).to_owned()
        } else if let Some(s) = info.payload().downcast_ref::<String>() {
            s.clone()
        } else {
            "<non-string panic>".to_owned()
        };
        let quiet = QUIET.with(|q| q.get());
        if !quiet {
            eprintln!("HARNESS PANIC at {}: {}", loc, msg);
        }
        LAST_PANIC.with(|p| *p.borrow_mut() = Some((loc, msg)));
    }));
}

thread_local! {
    static QUIET: std::cell::Cell<bool> = std::cell::Cell::new(false);
}

/// Runs `f` (a call into the subject) catching panics silently; returns the
/// panic (site, message) on unwind.
pub fn guarded<T>(f: impl FnOnce() -> T) -> Result<T, (String, String)> {
    let prev = QUIET.with(|q| q.replace(true));
    let res = std::panic::catch_unwind(std::panic::AssertUnwindSafe(f));
    QUIET.with(|q| q.set(prev));
    match res {
        Ok(v) => Ok(v),
        Err(_) => Err(take_panic()),
    }
}

thread_local! {
    pub static LAST_PANIC: std::cell::RefCell<Option<(String, String)>> = std::cell::RefCell::new(None);
}

/// Takes the (site, message) of the last panic on this thread.
pub fn take_panic() -> (String, String) {
    LAST_PANIC
        .with(|p| p.borrow_mut().take())
        .unwrap_or_else(|| ("?".to_owned(), "?".to_owned()))
}

/// Normalises a panic site to `file` (no line number: lines move) and a
/// message with digits collapsed, for use as a known-finding key.
pub fn panic_signature(site: &str, msg: &str) -> String {
    let file = site.rsplit_once(':').map(|(f, _)| f).unwrap_or(site);
    let file = file.trim_start_matches("/repo/");
    let mut m = String::new();
    let mut last_digit = false;
    for c in msg.chars().take(80) {
        if c.is_ascii_digit() {
            if !last_digit {
                m.push('#');
            }
            last_digit = true;
        } else {
            last_digit = false;
            m.push(c);
        }
    }
    format!("{}|{}", file, m)
}
