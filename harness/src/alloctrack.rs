//! Global allocator wrapper that records the largest single allocation request
//! made while tracking is on, and — for the first request above the threshold —
//! the innermost rbx_* frame that asked for it ("memory unrelated to the input
//! size", C13). It never fails or alters an allocation.

use std::alloc::{GlobalAlloc, Layout, System};
use std::cell::{Cell, RefCell};

pub struct Tracking;

thread_local! {
    static ON: Cell<bool> = const { Cell::new(false) };
    static IN_HOOK: Cell<bool> = const { Cell::new(false) };
    static MAX: Cell<usize> = const { Cell::new(0) };
    static THRESH: Cell<usize> = const { Cell::new(usize::MAX) };
    static SITE: RefCell<Option<String>> = const { RefCell::new(None) };
}

#[inline]
fn record(size: usize) {
    // try_with: the allocator may be called during thread teardown
    let _ = ON.try_with(|on| {
        if !on.get() {
            return;
        }
        let _ = MAX.try_with(|m| {
            if size > m.get() {
                m.set(size);
            }
        });
        let over = THRESH.try_with(|t| size > t.get()).unwrap_or(false);
        if over {
            let already = SITE.try_with(|s| s.try_borrow().map(|b| b.is_some()).unwrap_or(true)).unwrap_or(true);
            let busy = IN_HOOK.try_with(|h| h.replace(true)).unwrap_or(true);
            if !busy && !already {
                let bt = std::backtrace::Backtrace::force_capture().to_string();
                let mut site = String::from("?");
                for line in bt.lines() {
                    let l = line.trim();
                    // frames look like "12: rbx_binary::deserializer::state::...::decode_prop_chunk"
                    if let Some(pos) = l.find("rbx_") {
                        if !l.contains("vh::") && !l.contains("alloctrack") {
                            let name = &l[pos..];
                            // drop the hash suffix and generic noise
                            let name = name.split("::h").next().unwrap_or(name);
                            site = name.chars().take(110).collect();
                            break;
                        }
                    }
                }
                let _ = SITE.try_with(|s| {
                    if let Ok(mut b) = s.try_borrow_mut() {
                        *b = Some(site);
                    }
                });
            }
            if !busy {
                let _ = IN_HOOK.try_with(|h| h.set(false));
            }
        }
    });
}

unsafe impl GlobalAlloc for Tracking {
    unsafe fn alloc(&self, layout: Layout) -> *mut u8 {
        record(layout.size());
        System.alloc(layout)
    }
    unsafe fn dealloc(&self, ptr: *mut u8, layout: Layout) {
        System.dealloc(ptr, layout)
    }
    unsafe fn alloc_zeroed(&self, layout: Layout) -> *mut u8 {
        record(layout.size());
        System.alloc_zeroed(layout)
    }
    unsafe fn realloc(&self, ptr: *mut u8, layout: Layout, new_size: usize) -> *mut u8 {
        record(new_size);
        System.realloc(ptr, layout, new_size)
    }
}

/// Starts tracking on this thread; requests above `threshold` bytes get a site.
pub fn begin(threshold: usize) {
    MAX.with(|m| m.set(0));
    THRESH.with(|t| t.set(threshold));
    SITE.with(|s| *s.borrow_mut() = None);
    ON.with(|o| o.set(true));
}

/// Stops tracking; returns (largest request, site of the first oversized request).
pub fn end() -> (usize, Option<String>) {
    ON.with(|o| o.set(false));
    let m = MAX.with(|m| m.get());
    let s = SITE.with(|s| s.borrow_mut().take());
    (m, s)
}
