//! Global allocator wrapper that records the largest single allocation request
//! made while tracking is on, and — for the first request above the threshold —
//! the innermost rbx_* frame that asked for it ("memory unrelated to the input
//! size", C13). It never fails or alters an allocation.

use std::alloc::{GlobalAlloc, Layout, System};
use std::cell::{Cell, RefCell};

pub struct Tracking;

thread_local! {
    static ON: Cell<bool> = const { Cell::new(false) };
    static IN_HOOK: Cell<bool> = const { Cell::new(false) };
    static MAX: Cell<usize> = const { Cell::new(0) };
    static THRESH: Cell<usize> = const { Cell::new(usize::MAX) };
    static SITE: RefCell<Option<String>> = const { RefCell::new(None) };
}

#[inline]
fn record(size: usize) {
    // try_with: the allocator may be called during thread teardown
    let _ = ON.try_with(|on| {
        if !on.get() {
            return;
        }
        let _ = MAX.try_with(|m| {
            if size > m.get() {
                m.set(size);
            }
        });
        let over = THRESH.try_with(|t| size > t.get()).unwrap_or(false);
        if over {
            let already = SITE.try_with(|s| s.try_borrow().map(|b| b.is_some()).unwrap_or(true)).unwrap_or(true);
            let busy = IN_HOOK.try_with(|h| h.replace(true)).unwrap_or(true);
            if !busy && !already {
                let bt = std::backtrace::Backtrace::force_capture().to_string();
                let mut site = String::from("?");
                for line in bt.lines() {
                    let l = line.trim();
                    // frames look like "12: rbx_binary::deserializer::state::...::decode_prop_chunk"
                    if let Some(pos) = l.find("rbx_") {
                        if !l.contains("vh::") && !l.contains("alloctrack") {
                            let name = &l[pos..];
                            // drop the hash suffix and generic noise
                            let name = name.split("::h").next().unwrap_or(name);
                            site = name.chars().take(110).collect();
                            break;
                        }
                    }
                }
                let _ = SITE.try_with(|s| {
                    if let Ok(mut b) = s.try_borrow_mut() {
                        *b = Some(site);
                    }
                });
            }
            if !busy {
                let _ = IN_HOOK.try_with(|h| h.set(false));
            }
        }
    });
}

// ---------------------------------------------------------------------------
// Address recycling (C18). Which free block an allocator hands out is nondeterminism the
// program under test must not depend on. For one size class (the reference-counted buffer header
// of a SharedString: two counters + a Vec, 40 bytes, align 8) the harness can take that choice
// away from malloc: freed blocks of the class are parked in a small pool and handed out again
// oldest-first or newest-first. Any block handed out is a free block, so every behaviour this
// produces is one the system allocator could produce too.

use std::sync::atomic::{AtomicBool, AtomicU8, Ordering};

const CLASS_SIZE: usize = 40;
const CLASS_ALIGN: usize = 8;
const POOL_CAP: usize = 64;

static POLICY: AtomicU8 = AtomicU8::new(0); // 0 off, 1 newest-first, 2 oldest-first
static POOL_LOCK: AtomicBool = AtomicBool::new(false);
static mut POOL: [usize; POOL_CAP] = [0; POOL_CAP];
static mut POOL_LEN: usize = 0;

static mut LOG: [(u8, usize); 256] = [(0, 0); 256];
static mut LOG_LEN: usize = 0;
#[allow(static_mut_refs)]
fn log_ev(k: u8, p: usize) {
    unsafe {
        if LOG_LEN < 256 {
            LOG[LOG_LEN] = (k, p);
            LOG_LEN += 1;
        }
    }
}
#[allow(static_mut_refs)]
pub fn dump_log() {
    unsafe {
        for i in 0..LOG_LEN {
            eprintln!("alloc-log {} {:x}", ["?", "alloc-pool", "alloc-sys", "free-pool", "free-sys"][LOG[i].0 as usize], LOG[i].1);
        }
        LOG_LEN = 0;
    }
}

#[inline]
fn in_class(layout: &Layout) -> bool {
    layout.size() == CLASS_SIZE && layout.align() == CLASS_ALIGN
}

fn pool_lock() {
    while POOL_LOCK.compare_exchange_weak(false, true, Ordering::Acquire, Ordering::Relaxed).is_err() {
        std::hint::spin_loop();
    }
}

fn pool_unlock() {
    POOL_LOCK.store(false, Ordering::Release);
}

#[allow(static_mut_refs)]
unsafe fn pool_take(policy: u8) -> Option<*mut u8> {
    pool_lock();
    let r = if POOL_LEN == 0 {
        None
    } else if policy == 1 {
        POOL_LEN -= 1;
        Some(POOL[POOL_LEN] as *mut u8)
    } else {
        let p = POOL[0];
        for i in 1..POOL_LEN {
            POOL[i - 1] = POOL[i];
        }
        POOL_LEN -= 1;
        Some(p as *mut u8)
    };
    pool_unlock();
    r
}

#[allow(static_mut_refs)]
unsafe fn pool_put(ptr: *mut u8) -> bool {
    pool_lock();
    let ok = POOL_LEN < POOL_CAP;
    if ok {
        POOL[POOL_LEN] = ptr as usize;
        POOL_LEN += 1;
    }
    pool_unlock();
    ok
}

/// Sets the recycling policy (0 off, 1 newest-first, 2 oldest-first) and returns every parked
/// block to the system allocator, so that an execution starts from an empty pool.
#[allow(static_mut_refs)]
pub fn recycle(policy: u8) {
    POLICY.store(0, Ordering::SeqCst);
    unsafe {
        pool_lock();
        let n = POOL_LEN;
        let blocks = POOL;
        POOL_LEN = 0;
        pool_unlock();
        for b in blocks.iter().take(n) {
            System.dealloc(*b as *mut u8, Layout::from_size_align_unchecked(CLASS_SIZE, CLASS_ALIGN));
        }
    }
    POLICY.store(policy, Ordering::SeqCst);
}

unsafe impl GlobalAlloc for Tracking {
    unsafe fn alloc(&self, layout: Layout) -> *mut u8 {
        record(layout.size());
        if in_class(&layout) {
            let p = POLICY.load(Ordering::Relaxed);
            if p != 0 {
                if let Some(b) = pool_take(p) {
                    log_ev(1, b as usize);
                    return b;
                }
                let b = System.alloc(layout);
                log_ev(2, b as usize);
                return b;
            }
        }
        System.alloc(layout)
    }
    unsafe fn dealloc(&self, ptr: *mut u8, layout: Layout) {
        if in_class(&layout) && POLICY.load(Ordering::Relaxed) != 0 && pool_put(ptr) {
            log_ev(3, ptr as usize);
            return;
        }
        if in_class(&layout) {
            log_ev(4, ptr as usize);
        }
        System.dealloc(ptr, layout)
    }
    unsafe fn alloc_zeroed(&self, layout: Layout) -> *mut u8 {
        record(layout.size());
        if in_class(&layout) {
            let p = POLICY.load(Ordering::Relaxed);
            if p != 0 {
                if let Some(b) = pool_take(p) {
                    std::ptr::write_bytes(b, 0, CLASS_SIZE);
                    return b;
                }
            }
        }
        System.alloc_zeroed(layout)
    }
    unsafe fn realloc(&self, ptr: *mut u8, layout: Layout, new_size: usize) -> *mut u8 {
        record(new_size);
        System.realloc(ptr, layout, new_size)
    }
}

/// Starts tracking on this thread; requests above `threshold` bytes get a site.
pub fn begin(threshold: usize) {
    MAX.with(|m| m.set(0));
    THRESH.with(|t| t.set(threshold));
    SITE.with(|s| *s.borrow_mut() = None);
    ON.with(|o| o.set(true));
}

/// Stops tracking; returns (largest request, site of the first oversized request).
pub fn end() -> (usize, Option<String>) {
    ON.with(|o| o.set(false));
    let m = MAX.with(|m| m.get());
    let s = SITE.with(|s| s.borrow_mut().take());
    (m, s)
}
