use serde_json::{json, Value};
use vh::evidence::{self, Cmd, Run, Tier};

fn main() {
    evidence::quiet_panics();
    let args: Vec<String> = std::env::args().collect();
    if args.len() >= 6 && args[1] == "C07" && args[2] == "--worker" {
        let tier = if args[5] == "thorough" { Tier::Thorough } else { Tier::Quick };
        let w = vh::c07::worker(tier, args[3].parse().unwrap(), args[4].parse().unwrap());
        println!("{}", serde_json::to_string(&w).unwrap());
        return;
    }
    if args.len() >= 4 && args[1] == "TLSPROBE" {
        println!("{}", vh::c18::shutdown_probe(args[2].parse().unwrap()));
        return;
    }
    if args.len() >= 4 && args[1] == "DEEPDOM" {
        // probe (run in a subprocess by C09): a chain `depth` deep through one operation
        let depth: usize = args[2].parse().unwrap();
        println!("{}", vh::deepdom::probe(depth, &args[3]));
        return;
    }
    match evidence::parse_args() {
        Cmd::Check(prop, tier) => check(&prop, tier),
        Cmd::Replay(prop, file) => replay(&prop, &file),
    }
}

fn wall_cap(tier: Tier) -> f64 {
    std::env::var("VERIF_WALL_CAP")
        .ok()
        .and_then(|s| s.parse::<f64>().ok())
        .unwrap_or(if tier == Tier::Quick { 240.0 } else { 3.0 * 3600.0 })
}

fn check(prop: &str, tier: Tier) {
    match prop {
        "C09" | "C10" | "C11" | "C12" => check_dom(prop, tier),
        "C18" => check_c18(tier),
        "C13" => {
            let run = Run::new("C13", tier, "fault_enumeration");
            let cov = vh::c13::check(&run);
            run.finish(cov, &["corpus of 6 plans x 3 compression modes + XML + 3 attribute blobs; inputs are < 8 KiB so any single allocation above max(16 MiB, 4096 x input) counts as unrelated to the input size", "cases run in forked workers under RLIMIT_AS = 3 GiB; an abort or a 20 s stall is attributed to the case being executed and reported, never swallowed", "byte-level mutation alphabets as listed in coverage.rule; 'random' inputs are not used"]);
        }
        "C07" => {
            let run = Run::new("C07", tier, "model_checking");
            let cov = vh::c07::check(&run);
            run.finish(cov, &["hash-order variation comes from fresh per-map ahash seeds on every rebuild, from Ref values, from construction sequence and capacity history, and from independently started worker processes (fresh process-wide seeds)", "Ustr's precomputed string hash uses fixed keys, so property-map order varies only with insertion/capacity history"]);
        }
        "C08" => {
            let run = Run::new("C08", tier, "model_checking");
            let cov = vh::c08::check(&run);
            run.finish(cov, &["one spelling per logical property per instance; the unknown property has the same value type on every instance (one column has one wire type)", "defaults from our own walk of the reflection database, else the type's neutral value"]);
        }
        "C03" => {
            let run = Run::new("C03", tier, "model_checking");
            let cov = vh::c03::check(&run);
            run.finish(cov, &["the independent decoder is bound to the document by its worked examples; where the document and the implementation cannot both be right (UniqueId layout, Faces bit order, Content.SourceTypes, undocumented type ids) the document's reading decides and the divergence is a listed finding", "LZ4 blocks decoded by the harness's own decoder, Zstandard by libzstd's streaming API"]);
        }
        "C04" => {
            let run = Run::new("C04", tier, "model_checking");
            let cov = vh::c04::check(&run);
            run.finish(cov, &["input files come from an independent encoder written from docs/binary.md (harness/src/specbin.rs::enc), checked against the independent decoder on every file", "degrees of freedom are swept one at a time around a base encoding (thorough: full product on DOMs of <= 2 instances)", "UniqueId / Faces / Content.SourceTypes are encoded in the implementation's reading except in the three dedicated document-reading cases"]);
        }
        "C05" => {
            let run = Run::new("C05", tier, "model_checking");
            let cov = vh::c05::check(&run);
            run.finish(cov, &["the independent side is expat (python3 xml.etree) plus a value decoder/generator written from docs/xml.md (py/xmlspec.py), bound to the document by its worked examples", "types docs/xml.md does not describe (Vector2int16, SecurityCapabilities) are outside the writer-direction value check", "where document and implementation cannot both be right the document's reading decides and the divergence is a listed finding"]);
        }
        "C06" => {
            let run = Run::new("C06", tier, "model_checking");
            let cov = vh::c06::check(&run);
            run.finish(cov, &["value alphabets per declared type (all values in both tiers for single-property instances; pairs and siblings take rotating values)", "a DOM that neither format can write is outside the property; one that only one format can write is reported"]);
        }
        "C15" => {
            let run = Run::new("C15", tier, "model_checking");
            let cov = vh::c15::check(&run);
            run.finish(cov, &["legacy-named files for the read paths are produced with the public options that switch reflection off (empty ReflectionDatabase for rbx_binary, NoReflection for rbx_xml) and then read with the default database", "encounter order is varied by swapping PROP chunks / property elements of those files"]);
        }
        "C16" => {
            let run = Run::new("C16", tier, "model_checking");
            let cov = vh::c16::check(&run);
            run.finish(cov, &["the database is the one linked into the harness (rbx_reflection_database::get()); a regenerated database is checked the same way, nothing is hard-coded", "value fidelity of non-default values is C06's subject; here defaults only"]);
        }
        "C17" => {
            let run = Run::new("C17", tier, "model_checking");
            let cov = vh::c17::check(&run);
            run.finish(cov, &["finite boundary alphabets per Variant type; 'all 2^128 Refs' and 'all UniqueIds' are covered over boundary values only", "JSON cannot carry non-finite floats: values containing them are exercised through the binary encodings only"]);
        }
        "C14" => {
            let run = Run::new("C14", tier, "model_checking");
            let cov = vh::c14::check(&run);
            run.finish(cov, &["finite boundary alphabets per attribute type; maps of at most 3 entries", "a rotation within f32::EPSILON of an axis-aligned basis is written as its rotation id (same snap as the binary format)", "docs/attributes.md NumberRange example contradicts its own prose; the prose is followed"]);
        }
        "C01" => {
            let run = Run::new("C01", tier, "model_checking");
            let cov = vh::sweeps::check_c01(&run);
            run.finish(cov, &["value domains are the finite boundary alphabets of DESIGN.md 3.3; forests bounded by the stated node count", "expected values use the documented normalisations only (BinaryString for untyped blobs, byte-colour quantisation, rotation snap within f32::EPSILON, gained same-class defaults)"]);
        }
        "C02" => {
            let run = Run::new("C02", tier, "model_checking");
            let cov = vh::sweeps::check_c02(&run);
            run.finish(cov, &["value domains are the finite boundary alphabets of DESIGN.md 3.3; forests bounded by the stated node count", "strings are XML-1.0 legal; sequences have >= 2 keypoints"]);
        }
        other => evidence::machinery_failure(&format!("no engine for property {}", other)),
    }
}

fn check_dom(prop: &str, tier: Tier) {
    let run = Run::new(prop, tier, "model_checking");
    let modes: &[&str] = match prop {
        "C09" | "C10" => &["struct"],
        "C11" => &["struct", "refs"],
        "C12" => &["uids"],
        _ => unreachable!(),
    };
    let mut states = 0u64;
    let mut transitions = 0u64;
    let mut execs = 0u64;
    let mut closed = true;
    let mut samples: Vec<Value> = Vec::new();
    let mut runs = serde_json::Map::new();
    for mode in modes {
        let cfg = vh::domx::config_for(mode, tier);
        let stats = vh::domx::explore(&run, &cfg, &[prop], mode, wall_cap(tier), true);
        states += stats.states;
        transitions += stats.transitions;
        execs += stats.real_executions;
        closed &= stats.closed;
        samples.extend(stats.samples.iter().cloned());
        println!(
            "{} bfs[{}]: cap={} states={} transitions={} real_executions={} closed={} layers={:?}",
            prop, mode, cfg.cap, stats.states, stats.transitions, stats.real_executions, stats.closed, stats.layers
        );
        runs.insert(format!("bfs_{}", mode), vh::domx::stats_json(&cfg, &stats));
    }
    if prop == "C11" {
        let n = std::env::var("VERIF_PRODUCT_NODES")
            .ok()
            .and_then(|s| s.parse::<usize>().ok())
            .unwrap_or(if tier == Tier::Quick { 5 } else { 6 });
        let ps = vh::domx::clone_product(&run, n);
        println!(
            "C11 product: nodes<={} structures={} states={} clone_executions={} outcomes={:?}",
            n, ps.structures, ps.states, ps.executions, ps.outcomes
        );
        states += ps.states;
        transitions += ps.executions;
        execs += ps.executions;
        samples.extend(ps.samples.iter().cloned());
        runs.insert(
            "clone_product".into(),
            json!({
                "max_live_instances": n,
                "structures": ps.structures,
                "states": ps.states,
                "clone_executions": ps.executions,
                "per_operation": ps.per_op,
                "ref_rule_branches_exercised": ps.outcomes,
                "exhaustive": true,
            }),
        );
    }
    if prop == "C09" || prop == "C10" || prop == "C11" {
        let (problems, n) = vh::deepdom::run_all();
        println!("{} deep/wide shape probes: {} subprocess runs, {} problems", prop, n, problems.len());
        for (key, what, case) in problems {
            // a wrong result is an effect matter (C10); an aborted process belongs to the clone
            // property when a clone function did it (C11), otherwise to well-formedness (C09)
            let mine = if key.ends_with("wrong-effect") { "C10" } else if key.contains("clone_") { "C11" } else { "C09" };
            if mine == prop {
                run.violation(&key, &what, || case);
            }
        }
        states += n;
        transitions += n;
        execs += n;
        runs.insert("deep_and_wide_shape_probes".into(), json!({"subprocess_runs": n, "sizes": [12, 40, 1000, 100000, 600000], "shapes": ["chain", "star"], "operations": vh::deepdom::PROBES}));
        let (problems, n) = vh::domprobes::run_all();
        println!("{} wide-parent / rootless-destination / many-Refs / from_raw / many-instances / odd-UniqueId probes: {} cases, {} problems", prop, n, problems.len());
        for (key, what, case, mine) in problems {
            if mine == prop {
                run.violation(&key, &what, || case);
            }
        }
        states += n;
        transitions += n;
        execs += n;
        runs.insert("wide_parent_and_rootless_destination_probes".into(), json!({"cases": n, "widths": "1..=70, 255, 256, 257, 1000, 1023..1026, 2047..2049, 4097 (every child position up to 70, else first / middle / last 70)", "operations": ["destroy", "transfer_within", "transfer"], "rootless_destination_residents": [0, 1, 2, 3], "many_refs": {"properties_per_instance": "0..=40, 64, 65, 100, 257", "entry_points": 6, "string_only_carrier_masks": 32}, "from_raw_other_root": "every forest of <= 4 nodes x every new root x {construct, then insert, then clone_within}", "many_instances": {"sizes": [15, 16, 17, 31, 32, 33, 63, 64, 65, 127, 128, 129, 255, 256, 257, 1023, 1024, 1025, 4097], "operand": "first five, n/3, n/2, last two nodes of a ternary tree", "operations": ["destroy", "transfer_within", "transfer", "transfer there and back", "clone_within", "clone_into_external"], "oracle": "every instance of both DOMs against the documented outcome"}}));
    }
    if prop == "C12" {
        let (out, cfgs) = now_part(&run, tier);
        println!(
            "C12 UniqueId::now schedules: configs={} executions={} by_preemptions={:?} distinct_index_outcomes={}",
            out.configs, out.executions, out.by_preemptions, out.distinct_observations.len()
        );
        states += out.executions;
        transitions += out.executions * out.max_steps as u64;
        execs += out.executions;
        closed &= !out.cap_hit;
        for s in &out.samples {
            samples.push(serde_json::from_str(s).unwrap());
        }
        runs.insert(
            "concurrent_now".into(),
            json!({
                "configs": cfgs,
                "schedules_explored": out.executions,
                "schedules_by_preemptions": out.by_preemptions,
                "max_steps": out.max_steps,
                "cap_hit": out.cap_hit,
                "distinct_index_outcomes": out.distinct_observations,
                "environment": "clock pinned to one second, RNG pinned to one word (ids can differ only by the counter)",
            }),
        );
    }
    if prop == "C12" {
        let mut so = vh::sweeps::SweepOut::default();
        let rv = vh::c12b::check(&run, &mut so);
        so.report(&run);
        println!("C12 readers: {}", rv);
        states += so.cases;
        transitions += so.executions;
        execs += so.executions;
        for s in &so.samples {
            samples.push(serde_json::from_str(s).unwrap());
        }
        runs.insert("readers".into(), rv);
    }
    let mut cov = serde_json::Map::new();
    cov.insert("states".into(), json!(states));
    cov.insert("transitions".into(), json!(transitions));
    cov.insert("traces_validated_against_impl".into(), json!(execs));
    cov.insert("samples".into(), Value::Array(samples));
    cov.insert("evaluations".into(), json!(execs));
    cov.insert("distinct_nontrivial".into(), json!(states));
    cov.insert("exhaustive".into(), json!(closed));
    cov.insert("runs".into(), Value::Object(runs));
    cov.insert(
        "rule".into(),
        json!("BFS over canonical states of two WeakDoms; a state is distinct by its canonical key (forest shapes, child order, uid tokens, Ref target positions); every enabled operation with every valid argument is a transition, executed on real WeakDom objects from the replayed shortest history and from a freshly built DOM of the same state"),
    );
    run.finish(
        Value::Object(cov),
        &[
            "node cap bounds the number of live instances across both DOMs; the state space is explored to its fixed point under that cap (closed=true) unless cap_hit",
            "Ref values are abstracted to positions (no operation orders or inspects Ref values)",
            "transfer_within into the moved subtree is outside 'valid arguments'",
        ],
    );
}

fn now_part(run: &Run, tier: Tier) -> (vh::c18::OutNow, Vec<Value>) {
    // (calls per thread, start index, preemption bound)
    let mut cfgs: Vec<(Vec<usize>, u32, Option<usize>)> = vec![
        (vec![1, 1], 0, None),
        (vec![2, 1], 0, None),
        (vec![2, 2], 0, None),
        (vec![2, 2], u32::MAX - 1, None),
        (vec![1, 1, 1], 0, None),
        (vec![2, 2, 2], u32::MAX - 1, Some(2)),
    ];
    if tier == Tier::Thorough {
        cfgs.push((vec![3, 3], u32::MAX - 2, None));
        cfgs.push((vec![2, 2, 2], 0, Some(4)));
        cfgs.push((vec![2, 1, 1], 0, None));
    }
    let procs = vh::forkpool::default_procs().min(cfgs.len());
    let cfgs_ref = &cfgs;
    let outs = vh::forkpool::fork_map(procs, |w| {
        let mut out = vh::c18::OutNow::default();
        for (i, (calls, start, bound)) in cfgs_ref.iter().enumerate() {
            if i % procs != w {
                continue;
            }
            vh::c18::explore_now(calls, *start, *bound, 2_000_000, &mut out);
        }
        out
    });
    let mut total = vh::c18::OutNow::default();
    for o in outs {
        total.configs += o.configs;
        total.executions += o.executions;
        for (i, c) in o.by_preemptions.iter().enumerate() {
            if total.by_preemptions.len() <= i {
                total.by_preemptions.resize(i + 1, 0);
            }
            total.by_preemptions[i] += c;
        }
        total.max_steps = total.max_steps.max(o.max_steps);
        total.cap_hit |= o.cap_hit;
        total.distinct_observations.extend(o.distinct_observations);
        for (key, (count, what, case)) in o.violations {
            run.violation_n(&key, &what, count, || serde_json::from_str(&case).unwrap());
        }
        for s in o.samples {
            if total.samples.len() < 3 {
                total.samples.push(s);
            }
        }
    }
    let cj = cfgs
        .iter()
        .map(|(c, s, b)| json!({"calls_per_thread": c, "start_index": s, "preemption_bound": b}))
        .collect();
    (total, cj)
}

fn check_c18(tier: Tier) {
    let run = Run::new("C18", tier, "model_checking");
    // nondeterminism guard: one schedule replayed twice must give identical observations
    {
        let cfg = vh::c18::Config18 {
            pre: vec![1, 0],
            programs: vec![
                vec![vh::c18::SOp::DropNewest, vh::c18::SOp::NewA],
                vec![vh::c18::SOp::NewA, vh::c18::SOp::NewA],
            ],
            alloc: 2,
        };
        let sched = vec![0, 1, 0, 1, 1];
        let (e1, o1) = vh::c18::run_config_once(&cfg, &sched);
        let s1 = e1.schedule();
        drop(e1);
        let (e2, o2) = vh::c18::run_config_once(&cfg, &sched);
        let s2 = e2.schedule();
        drop(e2);
        // (a failure that by its nature depends on where the allocator put a buffer - a hash that
        // differs from the one the same contents had earlier - is a verdict about the code under
        // test, not a scheduler that lost control: it is left out of this comparison)
        let strip = |o: &vh::c18::Obs18| {
            let mut o = o.clone();
            o.failures.retain(|f| !f.contains("hashes differently from an earlier handle"));
            o
        };
        if s1 != s2 || strip(&o1) != strip(&o2) {
            evidence::machinery_failure("C18: the same schedule prefix gave two different executions");
        }
    }
    // (threads, max program length, preemption bound)
    // Scheduling points: every acquisition of the intern-table lock (a thread that finds it taken
    // parks as "blocked"), every reference-count operation on a buffer (upgrade, downgrade,
    // into_inner, strong_count) and every operation boundary of the thread programs.
    // min_long/long > 0 make the group asymmetric: two threads, thread 0 with at most `len`
    // operations and thread 1 with min_long..=long operations, each configuration under both
    // block-recycling policies of the allocator (newest-first, oldest-first; see alloctrack).
    let mut groups: Vec<(usize, usize, Option<usize>, usize, usize)> = Vec::new();
    if tier == Tier::Thorough {
        groups.push((2, 2, None, 0, 0));
        groups.push((3, 1, None, 0, 0));
        groups.push((2, 3, Some(3), 0, 0));
        groups.push((3, 2, Some(2), 0, 0));
        groups.push((2, 2, Some(1), 3, 5));
        groups.push((2, 1, Some(2), 4, 5));
    } else {
        groups.push((2, 2, Some(3), 0, 0));
        groups.push((3, 1, Some(2), 0, 0));
        groups.push((2, 2, Some(1), 3, 3));
    }
    let mut total = vh::c18::Out18::default();
    let mut group_json = Vec::new();
    for (threads, len, bound, min_long, long) in groups {
        let cfgs = if long == 0 { vh::c18::all_configs(threads, len) } else { vh::c18::asym_configs(len, min_long, long) };
        let procs = vh::forkpool::default_procs();
        let cfgs_ref = &cfgs;
        let outs = vh::forkpool::fork_map(procs, |w| {
            let mut out = vh::c18::Out18::default();
            for (i, c) in cfgs_ref.iter().enumerate() {
                if i % procs != w {
                    continue;
                }
                vh::c18::explore_config(c, bound, 5_000_000, &mut out);
            }
            out
        });
        let before = (total.configs, total.executions);
        for o in outs {
            vh::c18::merge_out(&run, &mut total, o);
        }
        println!(
            "C18 group threads={} max_len={} long={} bound={:?}: configs={} schedules={}",
            threads,
            len,
            long,
            bound,
            total.configs - before.0,
            total.executions - before.1
        );
        group_json.push(json!({
            "threads": threads, "max_program_length": len, "long_thread_program_length": [min_long, long], "preemption_bound": bound,
            "configs": total.configs - before.0, "schedules": total.executions - before.1,
        }));
    }
    // handles dropped by thread-local destructors / at process exit (four subprocess scenarios)
    for (key, what, case) in vh::c18::shutdown_probes() {
        run.violation(&key, &what, || case);
    }
    let samples: Vec<Value> = total.samples.iter().map(|s| serde_json::from_str(s).unwrap()).collect();
    let cov = json!({
        "thread_shutdown_scenarios": 4,
        "states": total.executions,
        "transitions": total.executions * total.max_steps as u64,
        "traces_validated_against_impl": total.executions,
        "evaluations": total.executions,
        "distinct_nontrivial": total.distinct_observations.len(),
        "samples": samples,
        "schedules_explored": total.executions,
        "schedules_by_preemptions": total.by_preemptions,
        "max_steps_per_schedule": total.max_steps,
        "thread_program_configs": total.configs,
        "groups": group_json,
        "cap_hit": total.cap_hit,
        "exhaustive": !total.cap_hit,
        "distinct_observations": total.distinct_observations,
        "rule": "stateless DFS over all schedules of real threads running SharedString new/clone/drop programs under a baton scheduler; yield points: operation boundaries and every acquisition of the intern-table lock (incl. the window between Arc::into_inner and the clean-up) and every reference-count operation; asymmetric groups additionally fix which free block the allocator returns for a buffer header (newest-first / oldest-first recycling), so that address reuse is a choice the explorer makes, not malloc's; 'states' counts complete schedules, 'transitions' is an upper bound (schedules x max steps)",
    });
    run.finish(
        cov,
        &[
            "interleavings at the granularity of intern-table critical sections and operation boundaries; std::sync::Arc/Mutex internals trusted (no weak-memory modelling)",
            "content alphabet of two byte strings, forced to collide",
            "allocator address reuse is explored for two deterministic recycling policies of the 40-byte buffer-header class; every block handed out is a free one, so each behaviour is one the system allocator may show",
        ],
    );
}

fn simple_replay(prop: &str, vs: Vec<(String, String)>) -> ! {
    for (k, w) in &vs {
        println!("observed [{}]: {}", k, w);
    }
    println!("REPLAY property={} outcome={}", prop, if vs.is_empty() { "holds" } else { "violation" });
    std::process::exit(if vs.is_empty() { 0 } else { 1 });
}

fn replay(prop: &str, file: &std::path::Path) {
    let text = std::fs::read_to_string(file)
        .unwrap_or_else(|e| evidence::machinery_failure(&format!("cannot read {}: {}", file.display(), e)));
    let doc: Value = serde_json::from_str(&text)
        .unwrap_or_else(|e| evidence::machinery_failure(&format!("bad replay json: {}", e)));
    let case = &doc["case"];
    match prop {
        "C12" if case.get("calls").is_some() => {
            let fs = vh::c18::replay_now(case);
            for f in &fs {
                println!("observed: {}", f);
            }
            println!("REPLAY property=C12 outcome={}", if fs.is_empty() { "holds" } else { "violation" });
            std::process::exit(if fs.is_empty() { 0 } else { 1 });
        }
        "C12" if case.get("tokens").is_some() => simple_replay("C12", vh::c12b::replay(case)),
        "C09" | "C10" | "C11" if case.get("domprobe").is_some() => {
            let r = vh::domprobes::replay(case);
            println!("observed: {}", r);
            println!("REPLAY property={} outcome={}", prop, if r == "ok" { "holds" } else { "violation" });
            std::process::exit(if r == "ok" { 0 } else { 1 });
        }
        "C09" | "C10" | "C11" if case.get("deepdom").is_some() => {
            let size = case["deepdom"]["size"].as_u64().unwrap_or(12) as usize;
            let what = case["deepdom"]["probe"].as_str().unwrap_or("descendants").to_owned();
            let r = vh::deepdom::probe(size, &what);
            println!("observed: {}", r);
            println!("REPLAY property={} outcome={}", prop, if r == "ok" { "holds" } else { "violation" });
            std::process::exit(if r == "ok" { 0 } else { 1 });
        }
        "C01" | "C03" | "C04" if case.get("block").is_some() => simple_replay(prop, vh::scalar::replay(case)),
        "C01" | "C03" if case.get("mixed").is_some() => simple_replay(prop, vh::mixed::replay(&case["mixed"], prop)),
        "C09" | "C10" | "C11" | "C12" => {
            let ms = vh::domx::replay(case);
            let mine: Vec<_> = ms.iter().filter(|m| m.prop == prop).collect();
            for m in &ms {
                println!("observed [{}] {}: {}", m.prop, m.kind, m.detail);
            }
            if mine.is_empty() {
                println!("REPLAY property={} outcome=holds", prop);
                std::process::exit(0);
            } else {
                println!("REPLAY property={} outcome=violation", prop);
                std::process::exit(1);
            }
        }
        "C01" => {
            let vs = vh::sweeps::replay_bin(case);
            for (k, w) in &vs {
                println!("observed [{}]: {}", k, w);
            }
            println!("REPLAY property=C01 outcome={}", if vs.is_empty() { "holds" } else { "violation" });
            std::process::exit(if vs.is_empty() { 0 } else { 1 });
        }
        "C16" => simple_replay("C16", vh::c16::replay(case)),
        "C15" => simple_replay("C15", vh::c15::replay(case)),
        "C06" => simple_replay("C06", vh::c06::replay(case)),
        "C03" => simple_replay("C03", vh::c03::replay(case)),
        "C04" => simple_replay("C04", vh::c04::replay(case)),
        "C05" => simple_replay("C05", vh::c05::replay(case)),
        "C08" => simple_replay("C08", vh::c08::replay(case)),
        "C07" => simple_replay("C07", vh::c07::replay(case)),
        "C13" => simple_replay("C13", vh::c13::replay(case)),
        "C17" => {
            let vs = vh::c17::replay(case);
            for (k, w) in &vs {
                println!("observed [{}]: {}", k, w);
            }
            println!("REPLAY property=C17 outcome={}", if vs.is_empty() { "holds" } else { "violation" });
            std::process::exit(if vs.is_empty() { 0 } else { 1 });
        }
        "C14" => {
            let vs = vh::c14::replay(case);
            for (k, w) in &vs {
                println!("observed [{}]: {}", k, w);
            }
            println!("REPLAY property=C14 outcome={}", if vs.is_empty() { "holds" } else { "violation" });
            std::process::exit(if vs.is_empty() { 0 } else { 1 });
        }
        "C02" => {
            let vs = vh::sweeps::replay_xml(case);
            for (k, w) in &vs {
                println!("observed [{}]: {}", k, w);
            }
            println!("REPLAY property=C02 outcome={}", if vs.is_empty() { "holds" } else { "violation" });
            std::process::exit(if vs.is_empty() { 0 } else { 1 });
        }
        "C18" if case.get("shutdown_probe").is_some() => {
            let r = vh::c18::shutdown_probe(case["shutdown_probe"].as_u64().unwrap_or(0) as usize);
            println!("observed: {}", r);
            println!("REPLAY property=C18 outcome={}", if r == "ok" { "holds" } else { "violation" });
            std::process::exit(if r == "ok" { 0 } else { 1 });
        }
        "C18" => {
            let fs = vh::c18::replay(case);
            for f in &fs {
                println!("observed: {}", f);
            }
            println!("REPLAY property=C18 outcome={}", if fs.is_empty() { "holds" } else { "violation" });
            std::process::exit(if fs.is_empty() { 0 } else { 1 });
        }
        other => evidence::machinery_failure(&format!("no replay for property {}", other)),
    }
}
