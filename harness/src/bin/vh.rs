use serde_json::{json, Value};
use vh::evidence::{self, Cmd, Run, Tier};

fn main() {
    evidence::quiet_panics();
    match evidence::parse_args() {
        Cmd::Check(prop, tier) => check(&prop, tier),
        Cmd::Replay(prop, file) => replay(&prop, &file),
    }
}

fn wall_cap(tier: Tier) -> f64 {
    std::env::var("VERIF_WALL_CAP")
        .ok()
        .and_then(|s| s.parse::<f64>().ok())
        .unwrap_or(if tier == Tier::Quick { 240.0 } else { 3.0 * 3600.0 })
}

fn check(prop: &str, tier: Tier) {
    match prop {
        "C09" | "C10" | "C11" | "C12" => check_dom(prop, tier),
        other => evidence::machinery_failure(&format!("no engine for property {}", other)),
    }
}

fn check_dom(prop: &str, tier: Tier) {
    let run = Run::new(prop, tier, "model_checking");
    let modes: &[&str] = match prop {
        "C09" | "C10" => &["struct"],
        "C11" => &["struct", "refs"],
        "C12" => &["uids"],
        _ => unreachable!(),
    };
    let mut states = 0u64;
    let mut transitions = 0u64;
    let mut execs = 0u64;
    let mut closed = true;
    let mut samples: Vec<Value> = Vec::new();
    let mut runs = serde_json::Map::new();
    for mode in modes {
        let cfg = vh::domx::config_for(mode, tier);
        let stats = vh::domx::explore(&run, &cfg, &[prop], mode, wall_cap(tier), true);
        states += stats.states;
        transitions += stats.transitions;
        execs += stats.real_executions;
        closed &= stats.closed;
        samples.extend(stats.samples.iter().cloned());
        println!(
            "{} bfs[{}]: cap={} states={} transitions={} real_executions={} closed={} layers={:?}",
            prop, mode, cfg.cap, stats.states, stats.transitions, stats.real_executions, stats.closed, stats.layers
        );
        runs.insert(format!("bfs_{}", mode), vh::domx::stats_json(&cfg, &stats));
    }
    if prop == "C11" {
        let n = std::env::var("VERIF_PRODUCT_NODES")
            .ok()
            .and_then(|s| s.parse::<usize>().ok())
            .unwrap_or(if tier == Tier::Quick { 5 } else { 6 });
        let ps = vh::domx::clone_product(&run, n);
        println!(
            "C11 product: nodes<={} structures={} states={} clone_executions={} outcomes={:?}",
            n, ps.structures, ps.states, ps.executions, ps.outcomes
        );
        states += ps.states;
        transitions += ps.executions;
        execs += ps.executions;
        samples.extend(ps.samples.iter().cloned());
        runs.insert(
            "clone_product".into(),
            json!({
                "max_live_instances": n,
                "structures": ps.structures,
                "states": ps.states,
                "clone_executions": ps.executions,
                "per_operation": ps.per_op,
                "ref_rule_branches_exercised": ps.outcomes,
                "exhaustive": true,
            }),
        );
    }
    let mut cov = serde_json::Map::new();
    cov.insert("states".into(), json!(states));
    cov.insert("transitions".into(), json!(transitions));
    cov.insert("traces_validated_against_impl".into(), json!(execs));
    cov.insert("samples".into(), Value::Array(samples));
    cov.insert("evaluations".into(), json!(execs));
    cov.insert("distinct_nontrivial".into(), json!(states));
    cov.insert("exhaustive".into(), json!(closed));
    cov.insert("runs".into(), Value::Object(runs));
    cov.insert(
        "rule".into(),
        json!("BFS over canonical states of two WeakDoms; a state is distinct by its canonical key (forest shapes, child order, uid tokens, Ref target positions); every enabled operation with every valid argument is a transition, executed on real WeakDom objects from the replayed shortest history and from a freshly built DOM of the same state"),
    );
    run.finish(
        Value::Object(cov),
        &[
            "node cap bounds the number of live instances across both DOMs; the state space is explored to its fixed point under that cap (closed=true) unless cap_hit",
            "Ref values are abstracted to positions (no operation orders or inspects Ref values)",
            "transfer_within into the moved subtree is outside 'valid arguments'",
        ],
    );
}

fn replay(prop: &str, file: &std::path::Path) {
    let text = std::fs::read_to_string(file)
        .unwrap_or_else(|e| evidence::machinery_failure(&format!("cannot read {}: {}", file.display(), e)));
    let doc: Value = serde_json::from_str(&text)
        .unwrap_or_else(|e| evidence::machinery_failure(&format!("bad replay json: {}", e)));
    let case = &doc["case"];
    match prop {
        "C09" | "C10" | "C11" | "C12" => {
            let ms = vh::domx::replay(case);
            let mine: Vec<_> = ms.iter().filter(|m| m.prop == prop).collect();
            for m in &ms {
                println!("observed [{}] {}: {}", m.prop, m.kind, m.detail);
            }
            if mine.is_empty() {
                println!("REPLAY property={} outcome=holds", prop);
                std::process::exit(0);
            } else {
                println!("REPLAY property={} outcome=violation", prop);
                std::process::exit(1);
            }
        }
        other => evidence::machinery_failure(&format!("no replay for property {}", other)),
    }
}
