//! C07: serializer output is a function of the logical content alone, and
//! load/save is a fixed point after the first save.
//!
//! Three parts: (a) every plan of a bounded sweep is realised in many ways
//! (property insertion order, construction sequence, Ref values, fresh hash
//! seeds, other processes) and must always serialize to the same bytes;
//! (b) merge points of the DOM state graph (same logical forest reached by
//! different histories); (c) save(load(save(load(s)))) == save(load(s)).

use std::collections::BTreeMap;
use std::str::FromStr;

use rbx_dom_weak::types::{Color3uint8, Ref, Tags, Variant, Vector3};
use serde::{Deserialize, Serialize};
use serde_json::{json, Value};

use crate::codec::{build_plan, topo_cases, xml_options, CaseDesc, Compression, XmlMode};
use crate::evidence::{Run, Tier};
use crate::plan::{How, PNode, PVal, Plan, RootSel};
use crate::sweeps::SweepOut;
use crate::vals::Codec;

#[derive(Clone, Debug, Serialize, Deserialize)]
pub enum Case07 {
    Desc(CaseDesc),
    /// `n` instances of `class` carrying the first `k` properties of the menu
    Props { class: String, n: usize, k: usize },
    /// `n` Parts carrying the properties of the spelling menu selected by `mask`: several spellings
    /// (canonical / alias / legacy) of one logical property on the same instance, with different values
    Spell { mask: u8, n: usize },
    /// one instance carrying the names of a "near names" menu selected by `mask`: names that
    /// share long prefixes, are prefixes of each other, differ in case or in a trailing space
    /// (menu 0: unknown class; menu 1: StarterPlayer's GameSettings... properties)
    Near { menu: u8, mask: u16 },
}

fn near_menu(menu: u8) -> (String, Vec<(String, PVal)>) {
    use rbx_dom_weak::types::NumberRange;
    if menu == 0 {
        let long = "ZzCommonPrefix_0123456789abcdefghijklmnopqrstuvwxyz_";
        let names: Vec<String> = vec![
            format!("{}A", long),
            format!("{}B", long),
            long[..25].to_owned(),
            long[..23].to_owned(),
            long[..25].to_lowercase(),
            "Zz".to_owned(),
            "ZzC".to_owned(),
            format!("{}A ", long),
            format!("{}\u{e9}", &long[..24]),
            format!("{}\u{e8}", &long[..24]),
        ];
        ("ZzUnknown".to_owned(), names.into_iter().enumerate().map(|(i, n)| (n, PVal::V(Variant::Int32(i as i32)))).collect())
    } else {
        let ints = ["GameSettingsAssetIDRightArm", "GameSettingsAssetIDRightLeg", "GameSettingsAssetIDLeftArm", "GameSettingsAssetIDLeftLeg", "GameSettingsAssetIDHead"];
        let ranges = ["GameSettingsScaleRangeHead", "GameSettingsScaleRangeHeight", "GameSettingsScaleRangeWidth"];
        let mut v: Vec<(String, PVal)> = ints.iter().enumerate().map(|(i, n)| ((*n).to_owned(), PVal::V(Variant::Int64(100 + i as i64)))).collect();
        v.extend(ranges.iter().enumerate().map(|(i, n)| ((*n).to_owned(), PVal::V(Variant::NumberRange(NumberRange::new(0.5 + i as f32, 2.0))))));
        ("StarterPlayer".to_owned(), v)
    }
}

fn spell_menu() -> Vec<(String, PVal)> {
    use rbx_dom_weak::types::BrickColor;
    vec![
        ("BrickColor".into(), PVal::V(Variant::BrickColor(BrickColor::from_number(21).unwrap()))),
        ("Color3uint8".into(), PVal::V(Variant::Color3uint8(Color3uint8::new(1, 2, 3)))),
        ("Color".into(), PVal::V(Variant::Color3uint8(Color3uint8::new(200, 100, 50)))),
        ("size".into(), PVal::V(Variant::Vector3(Vector3::new(1.0, 2.0, 3.0)))),
        ("Size".into(), PVal::V(Variant::Vector3(Vector3::new(4.0, 5.0, 6.0)))),
        ("brickColor".into(), PVal::V(Variant::BrickColor(BrickColor::from_number(23).unwrap()))),
    ]
}

fn menu() -> Vec<(String, PVal)> {
    let mut tags = Tags::new();
    tags.push("b");
    tags.push("a");
    vec![
        ("Anchored".into(), PVal::V(Variant::Bool(true))),
        ("ZzAlpha".into(), PVal::V(Variant::Int32(7))),
        ("Size".into(), PVal::V(Variant::Vector3(Vector3::new(1.0, 2.0, 3.0)))),
        ("ZzShared".into(), PVal::Shared(b"c07".to_vec())),
        ("ZzOtherShared".into(), PVal::Shared(b"c07-second-content".to_vec())),
        ("Color".into(), PVal::V(Variant::Color3uint8(Color3uint8::new(1, 2, 3)))),
        ("Tags".into(), PVal::V(Variant::Tags(tags))),
        // carried by the first instance only (later instances take a prefix of the menu): the
        // column is default-filled for the others, and nothing but the logical content may decide how
        ("UniqueId".into(), PVal::V(Variant::UniqueId(rbx_dom_weak::types::UniqueId::new(5, 6, 7)))),
    ]
}

pub fn plan_of(c: &Case07) -> Plan {
    match c {
        Case07::Desc(d) => build_plan(d, Codec::Binary),
        Case07::Props { class, n, k } => {
            let m = menu();
            let nodes = (0..*n)
                .map(|i| PNode {
                    class: class.clone(),
                    name: format!("p{}", i),
                    parent: if i == 0 { None } else { Some(0) },
                    // later instances carry fewer properties (heterogeneous columns)
                    props: m.iter().take(k.saturating_sub(i)).cloned().collect(),
                })
                .collect();
            Plan { nodes, roots: RootSel::Nodes(vec![0]) }
        }
        Case07::Near { menu, mask } => {
            let (class, m) = near_menu(*menu);
            let props: Vec<(String, PVal)> = m.iter().enumerate().filter(|(b, _)| (mask >> b) & 1 == 1).map(|(_, p)| p.clone()).collect();
            Plan { nodes: vec![PNode { class, name: "near".into(), parent: None, props }], roots: RootSel::Nodes(vec![0]) }
        }
        Case07::Spell { mask, n } => {
            let m = spell_menu();
            let nodes = (0..*n)
                .map(|i| PNode {
                    class: "Part".into(),
                    name: format!("s{}", i),
                    parent: if i == 0 { None } else { Some(0) },
                    // the second instance carries the complementary selection
                    props: m.iter().enumerate().filter(|(b, _)| ((mask >> b) & 1 == 1) != (i % 2 == 1)).map(|(_, p)| p.clone()).collect(),
                })
                .collect();
            Plan { nodes, roots: RootSel::Nodes(vec![0]) }
        }
    }
}

fn ref_pool() -> Vec<Ref> {
    [
        "00000000000000000000000000000001",
        "ffffffffffffffffffffffffffffffff",
        "0123456789abcdef0123456789abcdef",
        "80000000000000000000000000000000",
        "00000000000000010000000000000000",
        "deadbeefdeadbeefdeadbeefdeadbeef",
        "0000000000000000000000000000ffff",
        "7fffffffffffffffffffffffffffffff",
    ]
    .iter()
    .map(|s| Ref::from_str(s).unwrap())
    .collect()
}

/// k-th permutation (Lehmer code) of 0..n
fn permutation(n: usize, mut k: usize) -> Vec<usize> {
    let mut items: Vec<usize> = (0..n).collect();
    let mut out = Vec::new();
    for i in (1..=n).rev() {
        let f: usize = (1..i).product();
        let idx = (k / f) % i;
        k %= f;
        out.push(items.remove(idx));
    }
    out
}

fn factorial(n: usize) -> usize {
    (1..=n).product::<usize>().max(1)
}

#[derive(Clone, Debug, Serialize, Deserialize, PartialEq)]
pub struct Variant07 {
    pub how: u8,
    /// rotation applied to the Ref pool
    pub ref_rot: usize,
    /// None: random referents
    pub fixed_refs: bool,
    /// permutation index of every node's property list
    pub perm: usize,
}

fn realise(plan: &Plan, v: &Variant07) -> crate::plan::Realised {
    let mut p = plan.clone();
    for n in p.nodes.iter_mut() {
        let k = n.props.len();
        if k > 1 {
            let perm = permutation(k, v.perm % factorial(k));
            n.props = perm.iter().map(|&i| n.props[i].clone()).collect();
        }
    }
    let how = match v.how % 3 {
        0 => How::Nested,
        1 => How::Incremental,
        _ => How::Reparent,
    };
    let mut r = if v.fixed_refs && plan.nodes.len() <= ref_pool().len() {
        let pool = ref_pool();
        let refs: Vec<Ref> = (0..plan.nodes.len()).map(|i| pool[(i + v.ref_rot) % pool.len()]).collect();
        p.realise(how, Some(&refs))
    } else {
        p.realise(how, None)
    };
    churn(&mut r, v.how / 3);
    r
}

/// A history that leaves the logical content as it was (`how / 3`): 1 = property maps that had
/// entries removed and re-added, and capacity reserved; 2 = instances inserted and destroyed
/// around the real ones, a subtree cloned and the clone destroyed, the last child of a parent
/// moved away and back.
fn churn(r: &mut crate::plan::Realised, kind: u8) {
    use rbx_dom_weak::InstanceBuilder;
    let refs = r.refs.clone();
    match kind % 3 {
        1 => {
            r.dom.reserve(1000);
            for (n, rf) in refs.iter().enumerate() {
                if let Some(i) = r.dom.get_by_ref_mut(*rf) {
                    for k in 0..20 {
                        i.properties.insert(format!("Scratch{}", k).as_str().into(), Variant::Int32(k));
                    }
                    for k in 0..20 {
                        i.properties.remove(&format!("Scratch{}", k).as_str().into());
                    }
                    let mut keys: Vec<_> = i.properties.iter().map(|(k, _)| *k).collect();
                    keys.sort();
                    if n % 2 == 0 {
                        keys.reverse();
                    }
                    for k in keys {
                        if k.as_str() == "UniqueId" {
                            continue; // the DOM's bookkeeping follows insert / destroy, not edits
                        }
                        if let Some(v) = i.properties.remove(&k) {
                            i.properties.insert(k, v);
                        }
                    }
                    i.properties.shrink_to_fit();
                }
            }
        }
        2 => {
            for rf in refs.iter() {
                let Some(inst) = r.dom.get_by_ref(*rf) else { continue };
                let parent = inst.parent();
                let last_child = inst.children().last().copied();
                // a scratch child, destroyed again
                let s = r.dom.insert(*rf, InstanceBuilder::new("Folder").with_name("scratch").with_child(InstanceBuilder::new("Part")));
                r.dom.destroy(s);
                // the last child away and back: it is the last child again
                if let Some(c) = last_child {
                    let root = r.dom.root_ref();
                    if root != *rf {
                        r.dom.transfer_within(c, root);
                        r.dom.transfer_within(c, *rf);
                    }
                }
                // a clone of the instance's subtree, destroyed again
                if parent.is_some() {
                    let c = r.dom.clone_within(*rf);
                    r.dom.destroy(c);
                }
            }
        }
        _ => {}
    }
}

/// All outputs of one realisation: binary under each compression, XML in the
/// WriteUnknown mode. An encoder that refuses (or cannot handle) the DOM yields
/// an empty output for that slot: that is C01/C02's business, not determinism.
fn outputs(plan: &Plan, v: &Variant07) -> Result<Option<Vec<Vec<u8>>>, (String, String)> {
    let r = realise(plan, v);
    let roots = plan.root_refs(&r);
    let mut out = Vec::new();
    for c in Compression::all() {
        match crate::codec::binary_encode(&r, &roots, c) {
            Ok(Ok(b)) => out.push(b),
            _ => out.push(Vec::new()),
        }
    }
    match crate::codec::xml_encode(&r, &roots, XmlMode::Unknown) {
        Ok(Ok(b)) => out.push(b),
        _ => out.push(Vec::new()),
    }
    if out.iter().all(|o| o.is_empty()) {
        return Ok(None);
    }
    Ok(Some(out))
}

const OUTPUT_NAMES: [&str; 4] = ["binary/Lz4", "binary/None", "binary/Zstd", "xml"];

fn variants(c: &Case07, tier: Tier) -> Vec<Variant07> {
    let mut v = Vec::new();
    match c {
        Case07::Props { k, .. } => {
            let total = factorial(*k);
            let step = if tier == Tier::Quick { (total / 120).max(1) } else { 1 };
            // construction, Ref pool rotation and fixed/random Refs cycle with the variant's index,
            // not with the permutation number (a stride that is a multiple of 8 would otherwise
            // freeze them)
            let mut p = 0;
            let mut j = 0usize;
            while p < total {
                v.push(Variant07 { how: (j % 9) as u8, ref_rot: (j / 2) % 8, fixed_refs: j % 2 == 0, perm: p });
                p += step;
                j += 1;
            }
        }
        Case07::Near { mask, .. } => {
            // every insertion order of up to 5 properties, a spread of them beyond
            let k = mask.count_ones() as usize;
            let total = factorial(k);
            let step = (total / 120).max(1);
            let mut p = 0;
            let mut j = 0usize;
            while p < total {
                v.push(Variant07 { how: (j % 9) as u8, ref_rot: (j / 2) % 8, fixed_refs: j % 2 == 0, perm: p });
                p += step;
                j += 1;
            }
        }
        Case07::Spell { .. } => {
            // every permutation of up to 6 properties (720), all three constructions in turn
            for p in 0..720 {
                v.push(Variant07 { how: (p % 9) as u8, ref_rot: p % 8, fixed_refs: p % 2 == 0, perm: p });
            }
        }
        Case07::Desc(_) => {
            for how in 0..3u8 {
                for (fixed, rot) in [(true, 0usize), (true, 3), (true, 5), (false, 0)] {
                    for perm in 0..2 {
                        v.push(Variant07 { how, ref_rot: rot, fixed_refs: fixed, perm });
                    }
                }
            }
            // the same content reached through a history (see `churn`)
            for how in 3..9u8 {
                v.push(Variant07 { how, ref_rot: 0, fixed_refs: true, perm: (how % 2) as usize });
                v.push(Variant07 { how, ref_rot: 0, fixed_refs: false, perm: 0 });
            }
        }
    }
    v
}

pub fn cases(tier: Tier) -> Vec<Case07> {
    let n = if tier == Tier::Quick { 3 } else { 4 };
    let mut out: Vec<Case07> = topo_cases(n, 3).into_iter().map(Case07::Desc).collect();
    for class in ["Part", "ZzUnknown"] {
        for n in 1..=3 {
            for k in 2..=menu().len() {
                out.push(Case07::Props { class: class.into(), n, k });
            }
        }
    }
    for mask in 0..64u8 {
        if mask.count_ones() < 2 {
            continue;
        }
        for n in 1..=2 {
            out.push(Case07::Spell { mask, n });
        }
    }
    for (menu, bits) in [(0u8, 10u32), (1, 8)] {
        for mask in 0..(1u16 << bits) {
            // quick: every pair and triple, and the full menu; thorough: every subset
            let k = mask.count_ones();
            if k < 2 || (tier == Tier::Quick && k > 3 && k != bits) {
                continue;
            }
            out.push(Case07::Near { menu, mask });
        }
    }
    out
}

fn digest(outs: &[Vec<u8>]) -> String {
    let mut h = blake3::Hasher::new();
    for o in outs {
        h.update(&(o.len() as u64).to_le_bytes());
        h.update(o);
    }
    h.finalize().to_hex().to_string()
}

fn first_diff(a: &[u8], b: &[u8]) -> String {
    let n = a.iter().zip(b.iter()).position(|(x, y)| x != y).unwrap_or(a.len().min(b.len()));
    format!("lengths {} / {}, first difference at byte {}", a.len(), b.len(), n)
}

#[derive(Serialize, Deserialize, Clone, Debug)]
pub struct Replay07 {
    pub case: Case07,
    pub variant: Variant07,
    pub kind: String,
}

/// In-process part for one case: all variants equal variant 0; fixed point.
/// Returns the digest of variant 0 (None if not serializable).
pub fn judge_case(c: &Case07, tier: Tier, out: &mut SweepOut) -> Option<String> {
    let plan = plan_of(c);
    let vs = variants(c, tier);
    let class = match c {
        Case07::Props { .. } => "props".to_owned(),
        Case07::Spell { .. } => "spellings".to_owned(),
        Case07::Near { .. } => "near-names".to_owned(),
        Case07::Desc(d) => crate::codec::class_of(d),
    };
    let base = match outputs(&plan, &vs[0]) {
        Ok(Some(o)) => o,
        Ok(None) => return None,
        Err((s, m)) => {
            out.violation(format!("c07|panic|{}", crate::evidence::panic_signature(&s, &m)), format!("serializer panicked at {}: {}", s, m), || {
                serde_json::to_value(Replay07 { case: c.clone(), variant: vs[0].clone(), kind: "panic".into() }).unwrap()
            });
            return None;
        }
    };
    out.executions += 4;
    for v in vs.iter().skip(1).chain(std::iter::once(&vs[0])) {
        // (variant 0 is repeated once at the end: same construction, fresh hash maps)
        match outputs(&plan, v) {
            Ok(Some(o)) => {
                out.executions += 4;
                for (i, (a, b)) in base.iter().zip(o.iter()).enumerate() {
                    if a != b {
                        let what_differs = if v.perm != vs[0].perm {
                            "property-order"
                        } else if v.how != vs[0].how {
                            "construction"
                        } else if v.fixed_refs != vs[0].fixed_refs || v.ref_rot != vs[0].ref_rot {
                            "referents"
                        } else {
                            "rebuild"
                        };
                        out.violation(
                            format!("c07|differs|{}|{}|{}", OUTPUT_NAMES[i], class, what_differs),
                            format!("{} output depends on how the same logical tree was built ({}): {} [variant {:?} vs {:?}]", OUTPUT_NAMES[i], what_differs, first_diff(a, b), v, vs[0]),
                            || serde_json::to_value(Replay07 { case: c.clone(), variant: v.clone(), kind: "differs".into() }).unwrap(),
                        );
                        break;
                    }
                }
            }
            Ok(None) => {}
            Err((s, m)) => {
                out.violation(format!("c07|panic|{}", crate::evidence::panic_signature(&s, &m)), format!("serializer panicked at {}: {}", s, m), || {
                    serde_json::to_value(Replay07 { case: c.clone(), variant: v.clone(), kind: "panic".into() }).unwrap()
                });
            }
        }
    }
    // (a') history of the *process*: an encode that failed half-way (a sink that stops accepting
    // bytes) must not change what the next encode of the same tree writes
    let small = match c {
        Case07::Props { n, k, .. } => *n <= 2 && *k <= 4,
        Case07::Spell { .. } => false,
        Case07::Near { mask, .. } => mask.count_ones() <= 2,
        Case07::Desc(_) => plan.nodes.len() <= 2,
    };
    if small {
        struct Limited {
            left: usize,
        }
        impl std::io::Write for Limited {
            fn write(&mut self, buf: &[u8]) -> std::io::Result<usize> {
                if self.left == 0 {
                    return Err(std::io::Error::new(std::io::ErrorKind::Other, "sink full"));
                }
                let n = buf.len().min(self.left);
                self.left -= n;
                Ok(n)
            }
            fn flush(&mut self) -> std::io::Result<()> {
                Ok(())
            }
        }
        let r = realise(&plan, &vs[0]);
        let roots = plan.root_refs(&r);
        for (slot, len) in [(1usize, base[1].len()), (3usize, base[3].len())] {
            if len == 0 {
                continue;
            }
            let step = len / 60 + 1;
            let mut off = 0;
            while off < len {
                let res = crate::evidence::guarded(|| {
                    let mut sink = Limited { left: off };
                    if slot == 1 {
                        let _ = rbx_binary::Serializer::new().compression_type(rbx_binary::CompressionType::None).serialize(&mut sink, &r.dom, &roots);
                        let mut v = Vec::new();
                        let _ = rbx_binary::Serializer::new().compression_type(rbx_binary::CompressionType::None).serialize(&mut v, &r.dom, &roots);
                        v
                    } else {
                        let _ = rbx_xml::to_writer(&mut sink, &r.dom, &roots, xml_options(XmlMode::Unknown).0);
                        let mut v = Vec::new();
                        let _ = rbx_xml::to_writer(&mut v, &r.dom, &roots, xml_options(XmlMode::Unknown).0);
                        v
                    }
                });
                out.executions += 2;
                if let Ok(again) = res {
                    if again != base[slot] {
                        out.violation(
                            format!("c07|differs|{}|{}|after-failed-write", OUTPUT_NAMES[slot], class),
                            format!("{} output of a tree changes after an earlier encode of it failed at byte {}: {}", OUTPUT_NAMES[slot], off, first_diff(&base[slot], &again)),
                            || serde_json::to_value(Replay07 { case: c.clone(), variant: vs[0].clone(), kind: "after-failed-write".into() }).unwrap(),
                        );
                        break;
                    }
                }
                off += step;
            }
        }
    }
    // (c) fixed point after the first save
    for (i, s1) in base.iter().enumerate() {
        if s1.is_empty() {
            continue;
        }
        let res = crate::evidence::guarded(|| -> Result<Option<(Vec<u8>, Vec<u8>)>, String> {
            let load = |b: &[u8]| -> Result<rbx_dom_weak::WeakDom, String> {
                if i < 3 {
                    rbx_binary::from_reader(b).map_err(|e| e.to_string())
                } else {
                    rbx_xml::from_reader(b, xml_options(XmlMode::Unknown).1).map_err(|e| e.to_string())
                }
            };
            let save = |d: &rbx_dom_weak::WeakDom| -> Result<Vec<u8>, String> {
                let mut buf = Vec::new();
                let roots = d.root().children().to_vec();
                if i < 3 {
                    rbx_binary::Serializer::new()
                        .compression_type(Compression::all()[i].real())
                        .serialize(&mut buf, d, &roots)
                        .map_err(|e| e.to_string())?;
                } else {
                    rbx_xml::to_writer(&mut buf, d, &roots, xml_options(XmlMode::Unknown).0).map_err(|e| e.to_string())?;
                }
                Ok(buf)
            };
            let d1 = match load(s1) {
                Ok(d) => d,
                Err(_) => return Ok(None), // C01/C02's business
            };
            let s2 = save(&d1)?;
            let d2 = load(&s2)?;
            let s3 = save(&d2)?;
            Ok(Some((s2, s3)))
        });
        out.executions += 2;
        match res {
            Ok(Ok(Some((s2, s3)))) => {
                if s2 != s3 {
                    out.violation(
                        format!("c07|not-fixed-point|{}|{}", OUTPUT_NAMES[i], class),
                        format!("{}: saving a loaded file, loading that and saving again changes the bytes: {}", OUTPUT_NAMES[i], first_diff(&s2, &s3)),
                        || serde_json::to_value(Replay07 { case: c.clone(), variant: vs[0].clone(), kind: "fixed-point".into() }).unwrap(),
                    );
                }
            }
            Ok(Ok(None)) => {}
            Ok(Err(e)) => out.violation(
                format!("c07|resave-fails|{}|{}", OUTPUT_NAMES[i], class),
                format!("{}: a loaded file cannot be saved/loaded again: {}", OUTPUT_NAMES[i], e.chars().take(200).collect::<String>()),
                || serde_json::to_value(Replay07 { case: c.clone(), variant: vs[0].clone(), kind: "fixed-point".into() }).unwrap(),
            ),
            Err((s, m)) => out.violation(format!("c07|panic|{}", crate::evidence::panic_signature(&s, &m)), format!("panic at {}: {}", s, m), || {
                serde_json::to_value(Replay07 { case: c.clone(), variant: vs[0].clone(), kind: "panic".into() }).unwrap()
            }),
        }
    }
    Some(digest(&base))
}

#[derive(Serialize, Deserialize, Default)]
pub struct WorkerOut {
    pub sweep: SweepOut,
    /// case index -> digest of the canonical realisation
    pub digests: BTreeMap<usize, String>,
}

/// A worker process: judges the cases of its shard in-process and additionally
/// computes the canonical digest of EVERY case (so that each case's output is
/// produced in several independent processes, i.e. under other process-wide
/// hash seeds).
pub fn worker(tier: Tier, shard: usize, shards: usize) -> WorkerOut {
    let cs = cases(tier);
    let mut w = WorkerOut::default();
    for (i, c) in cs.iter().enumerate() {
        if i % shards == shard {
            w.sweep.cases += 1;
            w.sweep.nontrivial += 1;
            if let Some(d) = judge_case(c, tier, &mut w.sweep) {
                w.digests.insert(i, d);
            }
            if w.sweep.samples.len() < 1 {
                w.sweep.samples.push(serde_json::to_string(c).unwrap());
            }
        } else if (i + shard) % 3 == 0 {
            // cross-process sample of other shards' cases
            let plan = plan_of(c);
            let v0 = &variants(c, tier)[0];
            if let Ok(Some(o)) = outputs(&plan, v0) {
                w.sweep.executions += 4;
                w.digests.insert(i, digest(&o));
            }
        }
    }
    w
}

pub fn check(run: &Run) -> Value {
    let tier = run.tier;
    let shards = crate::forkpool::default_procs().max(4);
    let exe = std::env::current_exe().unwrap_or_else(|e| crate::evidence::machinery_failure(&format!("current_exe: {}", e)));
    let mut children = Vec::new();
    for s in 0..shards {
        let child = std::process::Command::new(&exe)
            .arg("C07")
            .arg("--worker")
            .arg(s.to_string())
            .arg(shards.to_string())
            .arg(tier.as_str())
            .stdout(std::process::Stdio::piped())
            .spawn()
            .unwrap_or_else(|e| crate::evidence::machinery_failure(&format!("cannot spawn worker: {}", e)));
        children.push(child);
    }
    let mut total = SweepOut::default();
    let mut by_case: BTreeMap<usize, Vec<(usize, String)>> = BTreeMap::new();
    for (s, child) in children.into_iter().enumerate() {
        let o = child.wait_with_output().unwrap_or_else(|e| crate::evidence::machinery_failure(&format!("worker wait: {}", e)));
        if !o.status.success() {
            crate::evidence::machinery_failure(&format!("C07 worker {} ended abnormally: {:?}", s, o.status));
        }
        let w: WorkerOut = serde_json::from_slice(&o.stdout).unwrap_or_else(|e| crate::evidence::machinery_failure(&format!("worker output: {}", e)));
        total.merge(w.sweep);
        for (i, d) in w.digests {
            by_case.entry(i).or_default().push((s, d));
        }
    }
    let cs = cases(tier);
    let mut cross_checked = 0u64;
    let mut max_processes_per_case = 0usize;
    for (i, ds) in &by_case {
        if ds.len() >= 2 {
            cross_checked += 1;
        }
        max_processes_per_case = max_processes_per_case.max(ds.len());
        if ds.iter().any(|(_, d)| d != &ds[0].1) {
            let class = match &cs[*i] {
                Case07::Props { .. } => "props".to_owned(),
        Case07::Spell { .. } => "spellings".to_owned(),
                Case07::Near { .. } => "near-names".to_owned(),
                Case07::Desc(d) => crate::codec::class_of(d),
            };
            total.violation(
                format!("c07|differs-across-processes|{}", class),
                format!("the same logical tree serializes to different bytes in different processes (workers {:?})", ds.iter().map(|x| x.0).collect::<Vec<_>>()),
                || serde_json::to_value(Replay07 { case: cs[*i].clone(), variant: variants(&cs[*i], tier)[0].clone(), kind: "process".into() }).unwrap(),
            );
        }
    }
    let merge = crate::c07b::merge_points(run, &mut total);
    let (hist_problems, hist_n) = crate::history::run_all();
    total.cases += hist_n;
    total.executions += hist_n * 2;
    for (k, w, case) in hist_problems {
        total.violation(k, w, || case);
    }
    println!("C07 call histories on one DOM: {} ordered pairs of root selections x codecs", hist_n);
    total.report(run);
    println!(
        "C07 sweep: cases={} serializations={} processes={} cases-produced-in->=2-processes={} (max {} processes per case) merge_points={}",
        total.cases, total.executions, shards, cross_checked, max_processes_per_case, merge
    );
    json!({
        "merge_points_of_the_dom_state_graph": merge,
        "states": total.cases,
        "transitions": total.executions,
        "traces_validated_against_impl": total.executions,
        "evaluations": total.executions,
        "distinct_nontrivial": total.nontrivial,
        "worker_processes": shards,
        "call_history_pairs": hist_n,
        "cases_serialized_in_two_or_more_processes": cross_checked,
        "samples": total.samples.iter().map(|s| serde_json::from_str::<Value>(s).unwrap()).collect::<Vec<_>>(),
        "exhaustive": true,
        "rule": "every plan of the topology sweep (forests <= N nodes x classes x root selections x Ref/Content/SharedString placements) and of the property-menu sweep (1-3 instances x 2..8 properties, heterogeneous columns) is realised in every variant of {property insertion permutations, nested / incremental / re-parented construction, fixed Ref pools in 3 rotations and random Refs, rebuilt with fresh hash maps} and serialized to binary (3 compressions) and XML; all variants must be byte-identical, also across independently started worker processes; save(load(save(load(s)))) must equal save(load(s)); on one DOM (small rings, 300 and 9000 siblings) every ordered pair of root selections written on one thread: the second output must be what a fresh thread writes",
    })
}

pub fn replay(case: &Value) -> Vec<(String, String)> {
    if case.get("call_history").is_some() {
        return crate::history::run_all().0.into_iter().map(|(k, w, _)| (k, w)).collect();
    }
    if case.get("a").is_some() && case.get("b").is_some() {
        return crate::c07b::replay(case);
    }
    let r: Replay07 = serde_json::from_value(case.clone()).unwrap_or_else(|e| crate::evidence::machinery_failure(&format!("bad replay: {}", e)));
    let mut out = SweepOut::default();
    judge_case(&r.case, Tier::Thorough, &mut out);
    out.violations.into_iter().map(|(k, (_, w, _))| (k, w)).collect()
}
