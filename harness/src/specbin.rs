//! Independent decoder (and encoder, see `enc`) for the Roblox binary model
//! format, written only from docs/binary.md. It imports nothing from
//! rbx_binary. LZ4 blocks are decoded by the small decoder below; Zstandard
//! frames by libzstd's *streaming* API (the subject uses the bulk API).
//!
//! Where the document and the implementation cannot both be right
//! (DESIGN.md 3.8) the document's reading is used by default and the
//! implementation's reading is available behind a named switch.

use std::collections::{BTreeMap, BTreeSet};
use std::io::Read;

use rbx_types::{
    Axes, BinaryString, BrickColor, CFrame, Color3, Color3uint8, ColorSequence, ColorSequenceKeypoint, Content,
    CustomPhysicalProperties, Enum, Faces, Font, FontStyle, FontWeight, Matrix3, NumberRange, NumberSequence,
    NumberSequenceKeypoint, PhysicalProperties, Ray, Rect, SharedString, UDim, UDim2, UniqueId, Variant, Vector2,
    Vector3, Vector3int16,
};

#[derive(Clone, Copy, Debug, PartialEq, Eq, Default)]
pub struct Switches {
    /// false: fields little-endian in document order, no rotation (docs/binary.md);
    /// true: big-endian fields with Random rotated left by one (implementation)
    pub uniqueid_impl: bool,
    /// false: bit0=Front,Bottom,Left,Back,Top,Right=bit5 (document); true: bit0=Right ... bit5=Front
    pub faces_impl: bool,
    /// false: SourceTypes is Array(Enum): untransformed big-endian u32 (document); true: zig-zag transformed Int32
    pub content_impl: bool,
}

// ---------------------------------------------------------------------------
// Rotation ids, from the document's table of Euler angles (degrees, applied Y -> X -> Z)

pub const ROTATION_TABLE: [(u8, (i32, i32, i32)); 24] = [
    (0x02, (0, 0, 0)),
    (0x03, (90, 0, 0)),
    (0x05, (0, 180, 180)),
    (0x06, (-90, 0, 0)),
    (0x07, (0, 180, 90)),
    (0x09, (0, 90, 90)),
    (0x0a, (0, 0, 90)),
    (0x0c, (0, -90, 90)),
    (0x0d, (-90, -90, 0)),
    (0x0e, (0, -90, 0)),
    (0x10, (90, -90, 0)),
    (0x11, (0, 90, 180)),
    (0x14, (0, 180, 0)),
    (0x15, (-90, -180, 0)),
    (0x17, (0, 0, 180)),
    (0x18, (90, 180, 0)),
    (0x19, (0, 0, -90)),
    (0x1b, (0, -90, -90)),
    (0x1c, (0, -180, -90)),
    (0x1e, (0, 90, -90)),
    (0x1f, (90, 90, 0)),
    (0x20, (0, 90, 0)),
    (0x22, (-90, 90, 0)),
    (0x23, (0, -90, 180)),
];

fn cs(deg: i32) -> (i32, i32) {
    match deg.rem_euclid(360) {
        0 => (1, 0),
        90 => (0, 1),
        180 => (-1, 0),
        270 => (0, -1),
        _ => unreachable!(),
    }
}

fn mul(a: [[i32; 3]; 3], b: [[i32; 3]; 3]) -> [[i32; 3]; 3] {
    let mut m = [[0; 3]; 3];
    for i in 0..3 {
        for j in 0..3 {
            for k in 0..3 {
                m[i][j] += a[i][k] * b[k][j];
            }
        }
    }
    m
}

pub fn rotation_from_id(id: u8) -> Option<Matrix3> {
    let (_, (x, y, z)) = ROTATION_TABLE.iter().find(|(i, _)| *i == id)?;
    let (cx, sx) = cs(*x);
    let (cy, sy) = cs(*y);
    let (cz, sz) = cs(*z);
    let rx = [[1, 0, 0], [0, cx, -sx], [0, sx, cx]];
    let ry = [[cy, 0, sy], [0, 1, 0], [-sy, 0, cy]];
    let rz = [[cz, -sz, 0], [sz, cz, 0], [0, 0, 1]];
    let m = mul(mul(ry, rx), rz);
    let f = |v: i32| v as f32;
    Some(Matrix3::new(
        Vector3::new(f(m[0][0]), f(m[0][1]), f(m[0][2])),
        Vector3::new(f(m[1][0]), f(m[1][1]), f(m[1][2])),
        Vector3::new(f(m[2][0]), f(m[2][1]), f(m[2][2])),
    ))
}

/// id of a matrix that *is* exactly (0.0 == -0.0) one of the 24 rotations
pub fn rotation_id(m: &Matrix3) -> Option<u8> {
    for (id, _) in ROTATION_TABLE.iter() {
        let r = rotation_from_id(*id).unwrap();
        let same = |a: &Vector3, b: &Vector3| a.x == b.x && a.y == b.y && a.z == b.z;
        if same(&r.x, &m.x) && same(&r.y, &m.y) && same(&r.z, &m.z) {
            return Some(*id);
        }
    }
    None
}

// ---------------------------------------------------------------------------
// LZ4 block decoder

pub fn lz4_block_decode(src: &[u8], expected: usize) -> Result<Vec<u8>, String> {
    let mut out: Vec<u8> = Vec::with_capacity(expected.min(1 << 24));
    let mut p = 0usize;
    while p < src.len() {
        let token = src[p];
        p += 1;
        let mut lit = (token >> 4) as usize;
        if lit == 15 {
            loop {
                let b = *src.get(p).ok_or("lz4: truncated literal length")?;
                p += 1;
                lit += b as usize;
                if b != 255 {
                    break;
                }
            }
        }
        if p + lit > src.len() {
            return Err("lz4: literals run past the block".into());
        }
        out.extend_from_slice(&src[p..p + lit]);
        p += lit;
        if p == src.len() {
            break; // last sequence has no match
        }
        if p + 2 > src.len() {
            return Err("lz4: truncated offset".into());
        }
        let offset = u16::from_le_bytes([src[p], src[p + 1]]) as usize;
        p += 2;
        if offset == 0 || offset > out.len() {
            return Err("lz4: bad offset".into());
        }
        let mut mlen = (token & 15) as usize;
        if mlen == 15 {
            loop {
                let b = *src.get(p).ok_or("lz4: truncated match length")?;
                p += 1;
                mlen += b as usize;
                if b != 255 {
                    break;
                }
            }
        }
        mlen += 4;
        let start = out.len() - offset;
        for i in 0..mlen {
            let b = out[start + i];
            out.push(b);
        }
        if out.len() > expected {
            return Err("lz4: output longer than declared".into());
        }
    }
    Ok(out)
}

// ---------------------------------------------------------------------------
// Cursor over chunk data

pub struct Cur<'a> {
    pub b: &'a [u8],
    pub p: usize,
}

impl<'a> Cur<'a> {
    pub fn new(b: &'a [u8]) -> Self {
        Cur { b, p: 0 }
    }
    pub fn left(&self) -> usize {
        self.b.len() - self.p
    }
    pub fn take(&mut self, n: usize) -> Result<&'a [u8], String> {
        if self.p + n > self.b.len() {
            return Err(format!("chunk data ends at {} (wanted {} more bytes at {})", self.b.len(), n, self.p));
        }
        let s = &self.b[self.p..self.p + n];
        self.p += n;
        Ok(s)
    }
    pub fn u8(&mut self) -> Result<u8, String> {
        Ok(self.take(1)?[0])
    }
    pub fn u16(&mut self) -> Result<u16, String> {
        let s = self.take(2)?;
        Ok(u16::from_le_bytes([s[0], s[1]]))
    }
    pub fn i16(&mut self) -> Result<i16, String> {
        Ok(self.u16()? as i16)
    }
    pub fn u32(&mut self) -> Result<u32, String> {
        let s = self.take(4)?;
        Ok(u32::from_le_bytes([s[0], s[1], s[2], s[3]]))
    }
    pub fn f32le(&mut self) -> Result<f32, String> {
        Ok(f32::from_bits(self.u32()?))
    }
    pub fn f64le(&mut self) -> Result<f64, String> {
        let s = self.take(8)?;
        let mut a = [0u8; 8];
        a.copy_from_slice(s);
        Ok(f64::from_le_bytes(a))
    }
    pub fn string(&mut self) -> Result<Vec<u8>, String> {
        let n = self.u32()? as usize;
        Ok(self.take(n)?.to_vec())
    }
    /// `n` values of `w` bytes each, byte-interleaved: returns them de-interleaved (big-endian byte order kept)
    pub fn interleaved(&mut self, n: usize, w: usize) -> Result<Vec<Vec<u8>>, String> {
        let s = self.take(n * w)?;
        let mut out = vec![vec![0u8; w]; n];
        for i in 0..n {
            for j in 0..w {
                out[i][j] = s[i + n * j];
            }
        }
        Ok(out)
    }
    pub fn be_u32s(&mut self, n: usize) -> Result<Vec<u32>, String> {
        Ok(self.interleaved(n, 4)?.into_iter().map(|b| u32::from_be_bytes([b[0], b[1], b[2], b[3]])).collect())
    }
    pub fn int32s(&mut self, n: usize) -> Result<Vec<i32>, String> {
        Ok(self.be_u32s(n)?.into_iter().map(untransform32).collect())
    }
    pub fn float32s(&mut self, n: usize) -> Result<Vec<f32>, String> {
        // Roblox float: sign bit stored last -> rotate right by one
        Ok(self.be_u32s(n)?.into_iter().map(|x| f32::from_bits((x >> 1) | (x << 31))).collect())
    }
    pub fn int64s(&mut self, n: usize) -> Result<Vec<i64>, String> {
        Ok(self
            .interleaved(n, 8)?
            .into_iter()
            .map(|b| {
                let mut a = [0u8; 8];
                a.copy_from_slice(&b);
                untransform64(u64::from_be_bytes(a))
            })
            .collect())
    }
    pub fn referents(&mut self, n: usize) -> Result<Vec<i32>, String> {
        let d = self.int32s(n)?;
        let mut out = Vec::with_capacity(n);
        let mut acc = 0i32;
        for x in d {
            acc = acc.wrapping_add(x);
            out.push(acc);
        }
        Ok(out)
    }
}

/// "if x is divisible by 2, x / 2, otherwise -(x + 1) / 2"
pub fn untransform32(x: u32) -> i32 {
    if x % 2 == 0 {
        (x / 2) as i32
    } else {
        -(((x as i64) + 1) / 2) as i32
    }
}

pub fn untransform64(x: u64) -> i64 {
    if x % 2 == 0 {
        (x / 2) as i64
    } else {
        (-(((x as i128) + 1) / 2)) as i64
    }
}

/// "if x >= 0, 2 * x, otherwise 2 * |x| - 1"
pub fn transform32(x: i32) -> u32 {
    if x >= 0 {
        (2 * (x as i64)) as u32
    } else {
        (2 * (x as i64).abs() - 1) as u32
    }
}

pub fn transform64(x: i64) -> u64 {
    if x >= 0 {
        (2 * (x as i128)) as u64
    } else {
        (2 * (x as i128).abs() - 1) as u64
    }
}

// ---------------------------------------------------------------------------
// File structure

#[derive(Clone, Debug, PartialEq, Eq)]
pub enum Compression {
    None,
    Lz4,
    Zstd,
}

#[derive(Clone, Debug)]
pub struct RawChunk {
    pub name: [u8; 4],
    pub compression: Compression,
    pub compressed_len: u32,
    pub len: u32,
    pub reserved: u32,
    pub data: Vec<u8>,
    pub offset: usize,
}

#[derive(Clone, Debug)]
pub struct ClassDecl {
    pub id: u32,
    pub name: String,
    pub format: u8,
    pub referents: Vec<i32>,
    pub markers: Vec<u8>,
}

#[derive(Clone, Debug)]
pub enum Wire {
    /// a decoded value in DOM terms (strings as BinaryString)
    V(Variant),
    Ref(i32),
    Shared(u32),
    /// Content with an object referent
    ContentObject(i32),
}

#[derive(Clone, Debug)]
pub struct PropDecl {
    pub class_id: u32,
    pub name: String,
    pub type_id: Option<u8>,
    /// one per instance of the class (empty when skipped)
    pub values: Vec<Wire>,
    pub skipped: Option<String>,
}

#[derive(Clone, Debug, Default)]
pub struct SpecFile {
    pub class_count: u32,
    pub instance_count: u32,
    pub chunks: Vec<RawChunk>,
    pub meta: Vec<(String, String)>,
    pub sstr: Vec<Vec<u8>>,
    pub classes: Vec<ClassDecl>,
    pub props: Vec<PropDecl>,
    pub prnt: Vec<(i32, i32)>,
    pub trailing: usize,
    /// structural findings (violations of the document's MUST/always statements)
    pub structure: Vec<String>,
}

pub fn split_chunks(bytes: &[u8]) -> Result<(u32, u32, Vec<RawChunk>, usize, Vec<String>), String> {
    let mut notes = Vec::new();
    if bytes.len() < 32 {
        return Err("file shorter than the 32-byte header".into());
    }
    if &bytes[0..8] != b"<roblox!" {
        return Err("bad magic number".into());
    }
    if bytes[8..14] != [0x89, 0xff, 0x0d, 0x0a, 0x1a, 0x0a] {
        return Err("bad signature".into());
    }
    if u16::from_le_bytes([bytes[14], bytes[15]]) != 0 {
        return Err("version is not 0".into());
    }
    let class_count = u32::from_le_bytes(bytes[16..20].try_into().unwrap());
    let instance_count = u32::from_le_bytes(bytes[20..24].try_into().unwrap());
    if bytes[24..32] != [0u8; 8] {
        notes.push("header reserved bytes are not zero".to_owned());
    }
    let mut chunks = Vec::new();
    let mut p = 32usize;
    let mut ended = false;
    while p < bytes.len() {
        if p + 16 > bytes.len() {
            return Err(format!("truncated chunk header at {}", p));
        }
        let mut name = [0u8; 4];
        name.copy_from_slice(&bytes[p..p + 4]);
        let clen = u32::from_le_bytes(bytes[p + 4..p + 8].try_into().unwrap());
        let len = u32::from_le_bytes(bytes[p + 8..p + 12].try_into().unwrap());
        let reserved = u32::from_le_bytes(bytes[p + 12..p + 16].try_into().unwrap());
        let body = if clen == 0 { len } else { clen } as usize;
        if p + 16 + body > bytes.len() {
            return Err(format!("chunk {:?} at {} runs past the end of the file", String::from_utf8_lossy(&name), p));
        }
        let raw = &bytes[p + 16..p + 16 + body];
        let (compression, data) = if clen == 0 {
            (Compression::None, raw.to_vec())
        } else if raw.len() >= 4 && raw[0..4] == [0x28, 0xb5, 0x2f, 0xfd] {
            let mut out = Vec::new();
            let mut dec = zstd::stream::read::Decoder::new(raw).map_err(|e| format!("zstd: {}", e))?;
            dec.read_to_end(&mut out).map_err(|e| format!("zstd: {}", e))?;
            (Compression::Zstd, out)
        } else {
            (Compression::Lz4, lz4_block_decode(raw, len as usize)?)
        };
        if data.len() != len as usize {
            notes.push(format!(
                "chunk {:?}: uncompressed length field {} but payload expands to {}",
                String::from_utf8_lossy(&name),
                len,
                data.len()
            ));
        }
        if reserved != 0 {
            notes.push(format!("chunk {:?}: reserved field is {}", String::from_utf8_lossy(&name), reserved));
        }
        let is_end = &name == b"END\0";
        chunks.push(RawChunk { name, compression, compressed_len: clen, len, reserved, data, offset: p });
        p += 16 + body;
        if is_end {
            ended = true;
            break;
        }
    }
    if !ended {
        return Err("no END chunk".into());
    }
    Ok((class_count, instance_count, chunks, bytes.len() - p, notes))
}

fn dec_cframe_rotations(c: &mut Cur, n: usize) -> Result<Vec<Matrix3>, String> {
    let mut rots = Vec::with_capacity(n);
    for _ in 0..n {
        let id = c.u8()?;
        if id == 0 {
            let mut f = [0f32; 9];
            for x in f.iter_mut() {
                *x = c.f32le()?;
            }
            rots.push(Matrix3::new(Vector3::new(f[0], f[1], f[2]), Vector3::new(f[3], f[4], f[5]), Vector3::new(f[6], f[7], f[8])));
        } else {
            rots.push(rotation_from_id(id).ok_or(format!("rotation id {:#x} is not in the document's table", id))?);
        }
    }
    Ok(rots)
}

fn dec_vector3s(c: &mut Cur, n: usize) -> Result<Vec<Vector3>, String> {
    let x = c.float32s(n)?;
    let y = c.float32s(n)?;
    let z = c.float32s(n)?;
    Ok((0..n).map(|i| Vector3::new(x[i], y[i], z[i])).collect())
}

/// Decodes the values of one PROP chunk. `Ok(None)` = type id the document does not describe.
pub fn decode_values(c: &mut Cur, type_id: u8, n: usize, sw: Switches) -> Result<Option<Vec<Wire>>, String> {
    let v = |x: Variant| Wire::V(x);
    let out: Vec<Wire> = match type_id {
        0x01 | 0x1d => {
            let mut o = Vec::new();
            for _ in 0..n {
                o.push(v(Variant::BinaryString(BinaryString::from(c.string()?))));
            }
            o
        }
        0x02 => {
            let mut o = Vec::new();
            for _ in 0..n {
                let b = c.u8()?;
                if b > 1 {
                    return Err(format!("Bool byte {:#x}", b));
                }
                o.push(v(Variant::Bool(b == 1)));
            }
            o
        }
        0x03 => c.int32s(n)?.into_iter().map(|x| v(Variant::Int32(x))).collect(),
        0x04 => c.float32s(n)?.into_iter().map(|x| v(Variant::Float32(x))).collect(),
        0x05 => {
            let mut o = Vec::new();
            for _ in 0..n {
                o.push(v(Variant::Float64(c.f64le()?)));
            }
            o
        }
        0x06 => {
            let s = c.float32s(n)?;
            let off = c.int32s(n)?;
            (0..n).map(|i| v(Variant::UDim(UDim::new(s[i], off[i])))).collect()
        }
        0x07 => {
            let xs = c.float32s(n)?;
            let ys = c.float32s(n)?;
            let xo = c.int32s(n)?;
            let yo = c.int32s(n)?;
            (0..n).map(|i| v(Variant::UDim2(UDim2::new(UDim::new(xs[i], xo[i]), UDim::new(ys[i], yo[i]))))).collect()
        }
        0x08 => {
            let mut o = Vec::new();
            for _ in 0..n {
                let mut f = [0f32; 6];
                for x in f.iter_mut() {
                    *x = c.f32le()?;
                }
                o.push(v(Variant::Ray(Ray::new(Vector3::new(f[0], f[1], f[2]), Vector3::new(f[3], f[4], f[5])))));
            }
            o
        }
        0x09 => {
            let mut o = Vec::new();
            for _ in 0..n {
                let b = c.u8()?;
                // rbx_types bit order: Right=1 Top=2 Back=4 Left=8 Bottom=16 Front=32
                let bits = if sw.faces_impl {
                    b & 63
                } else {
                    // document: bit0 Front, bit1 Bottom, bit2 Left, bit3 Back, bit4 Top, bit5 Right
                    let mut r = 0u8;
                    if b & 1 != 0 {
                        r |= 32;
                    }
                    if b & 2 != 0 {
                        r |= 16;
                    }
                    if b & 4 != 0 {
                        r |= 8;
                    }
                    if b & 8 != 0 {
                        r |= 4;
                    }
                    if b & 16 != 0 {
                        r |= 2;
                    }
                    if b & 32 != 0 {
                        r |= 1;
                    }
                    r
                };
                o.push(v(Variant::Faces(Faces::from_bits(bits).ok_or("faces")?)));
            }
            o
        }
        0x0a => {
            let mut o = Vec::new();
            for _ in 0..n {
                let b = c.u8()?;
                o.push(v(Variant::Axes(Axes::from_bits(b & 7).ok_or("axes")?)));
            }
            o
        }
        0x0b => {
            let mut o = Vec::new();
            for x in c.be_u32s(n)? {
                let b = u16::try_from(x).ok().and_then(BrickColor::from_number).ok_or(format!("BrickColor number {}", x))?;
                o.push(v(Variant::BrickColor(b)));
            }
            o
        }
        0x0c => {
            let r = c.float32s(n)?;
            let g = c.float32s(n)?;
            let b = c.float32s(n)?;
            (0..n).map(|i| v(Variant::Color3(Color3::new(r[i], g[i], b[i])))).collect()
        }
        0x0d => {
            let x = c.float32s(n)?;
            let y = c.float32s(n)?;
            (0..n).map(|i| v(Variant::Vector2(Vector2::new(x[i], y[i])))).collect()
        }
        0x0e => dec_vector3s(c, n)?.into_iter().map(|p| v(Variant::Vector3(p))).collect(),
        0x10 => {
            let rots = dec_cframe_rotations(c, n)?;
            let pos = dec_vector3s(c, n)?;
            (0..n).map(|i| v(Variant::CFrame(CFrame::new(pos[i], rots[i])))).collect()
        }
        0x12 => c.be_u32s(n)?.into_iter().map(|x| v(Variant::Enum(Enum::from_u32(x)))).collect(),
        0x13 => c.referents(n)?.into_iter().map(Wire::Ref).collect(),
        0x14 => {
            let mut o = Vec::new();
            for _ in 0..n {
                o.push(v(Variant::Vector3int16(Vector3int16::new(c.i16()?, c.i16()?, c.i16()?))));
            }
            o
        }
        0x15 => {
            let mut o = Vec::new();
            for _ in 0..n {
                let k = c.u32()? as usize;
                let mut kp = Vec::new();
                for _ in 0..k {
                    kp.push(NumberSequenceKeypoint::new(c.f32le()?, c.f32le()?, c.f32le()?));
                }
                o.push(v(Variant::NumberSequence(NumberSequence { keypoints: kp })));
            }
            o
        }
        0x16 => {
            let mut o = Vec::new();
            for _ in 0..n {
                let k = c.u32()? as usize;
                let mut kp = Vec::new();
                for _ in 0..k {
                    let t = c.f32le()?;
                    let col = Color3::new(c.f32le()?, c.f32le()?, c.f32le()?);
                    let _envelope = c.f32le()?;
                    kp.push(ColorSequenceKeypoint::new(t, col));
                }
                o.push(v(Variant::ColorSequence(ColorSequence { keypoints: kp })));
            }
            o
        }
        0x17 => {
            let mut o = Vec::new();
            for _ in 0..n {
                o.push(v(Variant::NumberRange(NumberRange::new(c.f32le()?, c.f32le()?))));
            }
            o
        }
        0x18 => {
            let a = c.float32s(n)?;
            let b = c.float32s(n)?;
            let cc = c.float32s(n)?;
            let d = c.float32s(n)?;
            (0..n).map(|i| v(Variant::Rect(Rect::new(Vector2::new(a[i], b[i]), Vector2::new(cc[i], d[i]))))).collect()
        }
        0x19 => {
            let mut o = Vec::new();
            for _ in 0..n {
                let flag = c.u8()?;
                if flag == 0 {
                    o.push(v(Variant::PhysicalProperties(PhysicalProperties::Default)));
                } else if flag == 1 {
                    o.push(v(Variant::PhysicalProperties(PhysicalProperties::Custom(CustomPhysicalProperties {
                        density: c.f32le()?,
                        friction: c.f32le()?,
                        elasticity: c.f32le()?,
                        friction_weight: c.f32le()?,
                        elasticity_weight: c.f32le()?,
                    }))));
                } else {
                    return Err(format!("PhysicalProperties flag {}", flag));
                }
            }
            o
        }
        0x1a => {
            let r = c.take(n)?.to_vec();
            let g = c.take(n)?.to_vec();
            let b = c.take(n)?.to_vec();
            (0..n).map(|i| v(Variant::Color3uint8(Color3uint8::new(r[i], g[i], b[i])))).collect()
        }
        0x1b => c.int64s(n)?.into_iter().map(|x| v(Variant::Int64(x))).collect(),
        0x1c => c.be_u32s(n)?.into_iter().map(Wire::Shared).collect(),
        0x1e => {
            let t = c.u8()?;
            if t != 0x10 {
                return Err(format!("OptionalCoordinateFrame: inner type id {:#x}, expected 0x10", t));
            }
            let rots = dec_cframe_rotations(c, n)?;
            let pos = dec_vector3s(c, n)?;
            let t2 = c.u8()?;
            if t2 != 0x02 {
                return Err(format!("OptionalCoordinateFrame: bool array type id {:#x}, expected 0x02", t2));
            }
            let mut o = Vec::new();
            for i in 0..n {
                let b = c.u8()?;
                o.push(v(Variant::OptionalCFrame(if b == 0 { None } else { Some(CFrame::new(pos[i], rots[i])) })));
            }
            o
        }
        0x1f => {
            let raw = c.interleaved(n, 16)?;
            raw.into_iter()
                .map(|b| {
                    let u = if sw.uniqueid_impl {
                        let idx = u32::from_be_bytes(b[0..4].try_into().unwrap());
                        let t = u32::from_be_bytes(b[4..8].try_into().unwrap());
                        let r = i64::from_be_bytes(b[8..16].try_into().unwrap()).rotate_right(1);
                        UniqueId::new(idx, t, r)
                    } else {
                        // "stored in the order as written above with no modifications"; integers little-endian
                        let idx = u32::from_le_bytes(b[0..4].try_into().unwrap());
                        let t = u32::from_le_bytes(b[4..8].try_into().unwrap());
                        let r = i64::from_le_bytes(b[8..16].try_into().unwrap());
                        UniqueId::new(idx, t, r)
                    };
                    v(Variant::UniqueId(u))
                })
                .collect()
        }
        0x20 => {
            let mut o = Vec::new();
            for _ in 0..n {
                let family = String::from_utf8(c.string()?).map_err(|e| e.to_string())?;
                let weight = c.u16()?;
                let style = c.u8()?;
                let cached = String::from_utf8(c.string()?).map_err(|e| e.to_string())?;
                o.push(v(Variant::Font(Font {
                    family,
                    weight: FontWeight::from_u16(weight).ok_or(format!("font weight {}", weight))?,
                    style: FontStyle::from_u8(style).ok_or(format!("font style {}", style))?,
                    cached_face_id: if cached.is_empty() { None } else { Some(cached) },
                })));
            }
            o
        }
        0x22 => {
            let types: Vec<i64> = if sw.content_impl {
                c.int32s(n)?.into_iter().map(|x| x as i64).collect()
            } else {
                c.be_u32s(n)?.into_iter().map(|x| x as i64).collect()
            };
            let uri_count = c.u32()? as usize;
            let mut uris = Vec::new();
            for _ in 0..uri_count {
                uris.push(String::from_utf8(c.string()?).map_err(|e| e.to_string())?);
            }
            let obj_count = c.u32()? as usize;
            let objs = c.referents(obj_count)?;
            let ext_count = c.u32()? as usize;
            let _ext = c.referents(ext_count)?;
            let (mut ui, mut oi) = (0usize, 0usize);
            let mut o = Vec::new();
            for t in types {
                match t {
                    0 => o.push(v(Variant::Content(Content::none()))),
                    1 => {
                        let u = uris.get(ui).ok_or("Content: fewer URIs than Uri entries")?;
                        ui += 1;
                        o.push(v(Variant::Content(Content::from_uri(u.clone()))));
                    }
                    2 => {
                        let r = *objs.get(oi).ok_or("Content: fewer object referents than Object entries")?;
                        oi += 1;
                        o.push(Wire::ContentObject(r));
                    }
                    other => return Err(format!("Content source type {}", other)),
                }
            }
            if ui != uris.len() || oi != objs.len() {
                return Err("Content: UriCount / ObjectCount do not match the SourceTypes".into());
            }
            o
        }
        _ => return Ok(None),
    };
    Ok(Some(out))
}

pub fn decode(bytes: &[u8], sw: Switches) -> Result<SpecFile, String> {
    let (class_count, instance_count, chunks, trailing, mut structure) = split_chunks(bytes)?;
    let mut f = SpecFile { class_count, instance_count, trailing, ..Default::default() };
    if trailing != 0 {
        structure.push(format!("{} bytes follow the END chunk", trailing));
    }
    let mut seen_prnt = 0;
    let mut seen_meta = 0;
    let mut seen_sstr = 0;
    for ch in &chunks {
        let mut c = Cur::new(&ch.data);
        match &ch.name {
            b"META" => {
                seen_meta += 1;
                let n = c.u32()?;
                for _ in 0..n {
                    let k = String::from_utf8(c.string()?).map_err(|e| e.to_string())?;
                    let v = String::from_utf8(c.string()?).map_err(|e| e.to_string())?;
                    f.meta.push((k, v));
                }
                if c.left() != 0 {
                    structure.push("META chunk has trailing bytes".into());
                }
            }
            b"SSTR" => {
                seen_sstr += 1;
                let ver = c.u32()?;
                if ver != 0 {
                    structure.push(format!("SSTR version {}", ver));
                }
                let n = c.u32()?;
                for _ in 0..n {
                    let _md5 = c.take(16)?;
                    f.sstr.push(c.string()?);
                }
                if c.left() != 0 {
                    structure.push("SSTR chunk has trailing bytes".into());
                }
            }
            b"INST" => {
                let id = c.u32()?;
                let name = String::from_utf8(c.string()?).map_err(|e| e.to_string())?;
                let format = c.u8()?;
                let n = c.u32()? as usize;
                let referents = c.referents(n)?;
                let markers = if format == 1 { c.take(n)?.to_vec() } else { vec![] };
                if format > 1 {
                    structure.push(format!("INST {}: object format {}", name, format));
                }
                if format == 1 && markers.iter().any(|m| *m != 1) {
                    structure.push(format!("INST {}: service markers are not all 1", name));
                }
                if c.left() != 0 {
                    structure.push(format!("INST {} has trailing bytes", name));
                }
                if f.classes.iter().any(|k| k.id == id) {
                    structure.push(format!("class id {} declared twice", id));
                }
                if f.classes.iter().any(|k| k.name == name) {
                    structure.push(format!("class {} has two INST chunks", name));
                }
                f.classes.push(ClassDecl { id, name, format, referents, markers });
            }
            b"PROP" => {
                let class_id = c.u32()?;
                let name = String::from_utf8(c.string()?).map_err(|e| e.to_string())?;
                let class = f.classes.iter().find(|k| k.id == class_id);
                let n = match class {
                    Some(k) => k.referents.len(),
                    None => {
                        structure.push(format!("PROP {} refers to undeclared class id {}", name, class_id));
                        continue;
                    }
                };
                if c.left() == 0 {
                    f.props.push(PropDecl { class_id, name, type_id: None, values: vec![], skipped: Some("no type id".into()) });
                    continue;
                }
                let type_id = c.u8()?;
                match decode_values(&mut c, type_id, n, sw) {
                    Ok(Some(values)) => {
                        if c.left() != 0 {
                            structure.push(format!("PROP {} (type {:#x}) does not consume its chunk exactly: {} bytes left", name, type_id, c.left()));
                        }
                        if values.len() != n {
                            structure.push(format!("PROP {} carries {} values for {} instances", name, values.len(), n));
                        }
                        f.props.push(PropDecl { class_id, name, type_id: Some(type_id), values, skipped: None });
                    }
                    Ok(None) => f.props.push(PropDecl { class_id, name, type_id: Some(type_id), values: vec![], skipped: Some(format!("type id {:#x} is not described by docs/binary.md", type_id)) }),
                    Err(e) => return Err(format!("PROP {} (type {:#x}): {}", name, type_id, e)),
                }
            }
            b"PRNT" => {
                seen_prnt += 1;
                let ver = c.u8()?;
                if ver != 0 {
                    structure.push(format!("PRNT version {}", ver));
                }
                let n = c.u32()? as usize;
                let kids = c.referents(n)?;
                let parents = c.referents(n)?;
                if c.left() != 0 {
                    structure.push("PRNT chunk has trailing bytes".into());
                }
                f.prnt = kids.into_iter().zip(parents).collect();
            }
            b"END\0" => {
                if ch.compression != Compression::None {
                    structure.push("END chunk is compressed".into());
                }
                if ch.data != b"</roblox>" {
                    structure.push("END chunk does not contain </roblox>".into());
                }
            }
            _ => {}
        }
    }
    if seen_prnt != 1 {
        structure.push(format!("{} PRNT chunks", seen_prnt));
    }
    if seen_meta > 1 || seen_sstr > 1 {
        structure.push("more than one META / SSTR chunk".into());
    }
    if chunks.last().map(|c| &c.name) != Some(b"END\0") {
        structure.push("last chunk is not END".into());
    }
    // header counts
    if f.class_count as usize != f.classes.len() {
        structure.push(format!("header declares {} classes, file has {} INST chunks", f.class_count, f.classes.len()));
    }
    let total: usize = f.classes.iter().map(|k| k.referents.len()).sum();
    if f.instance_count as usize != total {
        structure.push(format!("header declares {} instances, INST chunks declare {}", f.instance_count, total));
    }
    // referents unique
    let mut all: BTreeSet<i32> = BTreeSet::new();
    for k in &f.classes {
        for r in &k.referents {
            if !all.insert(*r) {
                structure.push(format!("referent {} declared twice", r));
            }
        }
    }
    // PRNT: every instance exactly once, children before parents
    let mut pos: BTreeMap<i32, usize> = BTreeMap::new();
    for (i, (k, _)) in f.prnt.iter().enumerate() {
        if pos.insert(*k, i).is_some() {
            structure.push(format!("instance {} appears twice in PRNT", k));
        }
        if !all.contains(k) {
            structure.push(format!("PRNT lists undeclared instance {}", k));
        }
    }
    for r in &all {
        if !pos.contains_key(r) {
            structure.push(format!("instance {} is missing from PRNT", r));
        }
    }
    if f.prnt.len() != f.instance_count as usize {
        structure.push(format!("PRNT has {} links, header declares {} instances", f.prnt.len(), f.instance_count));
    }
    for (i, (k, p)) in f.prnt.iter().enumerate() {
        if *p != -1 {
            match pos.get(p) {
                None => structure.push(format!("PRNT parent {} of {} is not a declared instance", p, k)),
                Some(pp) => {
                    if *pp < i {
                        structure.push(format!("PRNT lists parent {} before its child {}", p, k));
                    }
                }
            }
        }
    }
    // shared strings: distinct, indices in range
    let mut uniq: BTreeSet<&Vec<u8>> = BTreeSet::new();
    for s in &f.sstr {
        if !uniq.insert(s) {
            structure.push("a SharedString is stored twice in SSTR".into());
        }
    }
    for p in &f.props {
        for v in &p.values {
            if let Wire::Shared(i) = v {
                if *i as usize >= f.sstr.len() {
                    structure.push(format!("PROP {}: SharedString index {} out of range ({} entries)", p.name, i, f.sstr.len()));
                }
            }
        }
    }
    // one PROP per (class, name)
    let mut seen: BTreeSet<(u32, &str)> = BTreeSet::new();
    for p in &f.props {
        if !seen.insert((p.class_id, p.name.as_str())) {
            structure.push(format!("two PROP chunks for class {} property {}", p.class_id, p.name));
        }
    }
    f.chunks = chunks;
    f.structure = structure;
    Ok(f)
}

/// The forest described by a decoded file, with wire names and wire values.
pub fn wire_forest(f: &SpecFile, mode: crate::vals::FloatMode) -> Result<Vec<crate::plan::CNode>, String> {
    use crate::plan::CNode;
    // children per parent in PRNT order
    let mut kids: BTreeMap<i32, Vec<i32>> = BTreeMap::new();
    let mut roots: Vec<i32> = Vec::new();
    for (k, p) in &f.prnt {
        if *p == -1 {
            roots.push(*k);
        } else {
            kids.entry(*p).or_default().push(*k);
        }
    }
    // pre-order numbering
    let mut index: BTreeMap<i32, usize> = BTreeMap::new();
    fn number(r: i32, kids: &BTreeMap<i32, Vec<i32>>, index: &mut BTreeMap<i32, usize>, depth: usize) -> Result<(), String> {
        if depth > 100_000 {
            return Err("hierarchy too deep / cyclic".into());
        }
        let n = index.len();
        if index.insert(r, n).is_some() {
            return Err("cycle in PRNT".into());
        }
        if let Some(v) = kids.get(&r) {
            for c in v {
                number(*c, kids, index, depth + 1)?;
            }
        }
        Ok(())
    }
    for r in &roots {
        number(*r, &kids, &mut index, 0)?;
    }
    let class_of: BTreeMap<i32, &ClassDecl> = f.classes.iter().flat_map(|k| k.referents.iter().map(move |r| (*r, k))).collect();
    let refstr = |r: i32| -> String {
        if r == -1 {
            "null".into()
        } else {
            index.get(&r).map(|i| format!("#{}", i)).unwrap_or_else(|| "null".into())
        }
    };
    fn build(
        r: i32,
        f: &SpecFile,
        kids: &BTreeMap<i32, Vec<i32>>,
        class_of: &BTreeMap<i32, &ClassDecl>,
        refstr: &dyn Fn(i32) -> String,
        mode: crate::vals::FloatMode,
    ) -> Result<CNode, String> {
        let k = class_of.get(&r).ok_or(format!("instance {} has no class", r))?;
        let i = k.referents.iter().position(|x| *x == r).unwrap();
        let mut props = BTreeMap::new();
        let mut name = String::new();
        for p in f.props.iter().filter(|p| p.class_id == k.id) {
            let v = match p.values.get(i) {
                Some(v) => v,
                None => continue,
            };
            let rendered = match v {
                Wire::V(v) => crate::vals::render(v, mode, &|_| "?".into()),
                Wire::Ref(t) => format!("Ref:{}", refstr(*t)),
                Wire::ContentObject(t) => format!("Content:Object:{}", refstr(*t)),
                Wire::Shared(ix) => match f.sstr.get(*ix as usize) {
                    Some(b) => crate::vals::render(&Variant::SharedString(SharedString::new(b.clone())), mode, &|_| "?".into()),
                    None => "SharedString:<index out of range>".into(),
                },
            };
            if p.name == "Name" {
                if let Wire::V(Variant::BinaryString(b)) = v {
                    name = String::from_utf8_lossy(b.as_ref()).to_string();
                }
            } else {
                props.insert(p.name.clone(), rendered);
            }
        }
        let mut children = Vec::new();
        if let Some(v) = kids.get(&r) {
            for c in v {
                children.push(build(*c, f, kids, class_of, refstr, mode)?);
            }
        }
        Ok(CNode { class: k.name.clone(), name, props, children })
    }
    roots.iter().map(|r| build(*r, f, &kids, &class_of, &refstr, mode)).collect()
}

// ---------------------------------------------------------------------------
// Binding to the document: every worked example of docs/binary.md that states
// both bytes and values must decode to the stated values.

fn hexb(s: &str) -> Vec<u8> {
    s.split_whitespace().map(|b| u8::from_str_radix(b, 16).unwrap()).collect()
}

pub fn self_check() -> Result<usize, String> {
    use crate::vals::{render, FloatMode};
    let r = |v: &Variant| render(v, FloatMode::Exact, &|_| "?".into());
    let doc = Switches::default();
    let mut n = 0;
    let mut check = |what: &str, type_id: u8, count: usize, bytes: &str, want: Vec<Variant>| -> Result<(), String> {
        let b = hexb(bytes);
        let mut c = Cur::new(&b);
        let got = decode_values(&mut c, type_id, count, doc).map_err(|e| format!("{}: {}", what, e))?.ok_or(format!("{}: undocumented type", what))?;
        if c.left() != 0 {
            return Err(format!("{}: {} bytes left over", what, c.left()));
        }
        let got: Vec<String> = got
            .iter()
            .map(|w| match w {
                Wire::V(v) => r(v),
                other => format!("{:?}", other),
            })
            .collect();
        let want: Vec<String> = want.iter().map(|v| r(v)).collect();
        if got != want {
            return Err(format!("{}: decoded {:?}, document says {:?}", what, got, want));
        }
        n += 1;
        Ok(())
    };
    check("UDim", 0x06, 2, "7f 80 00 80 00 00 00 00 00 00 00 00 00 00 04 08", vec![Variant::UDim(UDim::new(1.0, 2)), Variant::UDim(UDim::new(3.0, 4))])?;
    check("UDim2", 0x07, 1, "7e 80 00 00 7f 80 00 01 00 00 00 3b 00 00 00 78", vec![Variant::UDim2(UDim2::new(UDim::new(0.75, -30), UDim::new(-1.5, 60)))])?;
    // Faces in the document's bit order: Front | Back,Top | Bottom,Left,Right  (rbx_types bits: Right=1 Top=2 Back=4 Left=8 Bottom=16 Front=32)
    check("Faces", 0x09, 3, "01 18 26", vec![Variant::Faces(Faces::from_bits(32).unwrap()), Variant::Faces(Faces::from_bits(4 | 2).unwrap()), Variant::Faces(Faces::from_bits(16 | 8 | 1).unwrap())])?;
    check("Axes", 0x0a, 3, "01 03 05", vec![Variant::Axes(Axes::from_bits(1).unwrap()), Variant::Axes(Axes::from_bits(3).unwrap()), Variant::Axes(Axes::from_bits(5).unwrap())])?;
    check(
        "BrickColor",
        0x0b,
        3,
        "00 00 00 00 00 00 03 00 03 EC 25 F2",
        vec![Variant::BrickColor(BrickColor::from_number(1004).unwrap()), Variant::BrickColor(BrickColor::from_number(37).unwrap()), Variant::BrickColor(BrickColor::from_number(1010).unwrap())],
    )?;
    check("Color3", 0x0c, 1, "7f 00 00 00 7e 69 69 6a 7b 41 41 42", vec![Variant::Color3(Color3::new(1.0, 180.0 / 255.0, 20.0 / 255.0))])?;
    check("Vector2", 0x0d, 2, "85 86 93 91 33 19 35 9a 86 85 91 93 19 33 9a 35", vec![Variant::Vector2(Vector2::new(-100.8, 200.55)), Variant::Vector2(Vector2::new(200.55, -100.8))])?;
    check(
        "Vector3",
        0x0e,
        2,
        "7F 7F 00 00 00 00 00 01 80 80 00 00 00 00 00 01 80 80 80 80 00 00 00 01",
        vec![Variant::Vector3(Vector3::new(1.0, 2.0, 3.0)), Variant::Vector3(Vector3::new(-1.0, -2.0, -3.0))],
    )?;
    let kp = |t: f32, v: f32, e: f32| NumberSequenceKeypoint::new(t, v, e);
    check(
        "NumberSequence",
        0x15,
        2,
        "03 00 00 00 00 00 00 00 00 00 00 00 00 00 00 00 00 00 00 3f 00 00 80 3f 00 00 00 00 00 00 80 3f 00 00 80 3f 00 00 00 3f 03 00 00 00 00 00 00 00 00 00 80 3f 00 00 00 00 00 00 00 3f 00 00 00 3f 00 00 00 3f 00 00 80 3f 00 00 00 3f 00 00 00 00",
        vec![
            Variant::NumberSequence(NumberSequence { keypoints: vec![kp(0.0, 0.0, 0.0), kp(0.5, 1.0, 0.0), kp(1.0, 1.0, 0.5)] }),
            Variant::NumberSequence(NumberSequence { keypoints: vec![kp(0.0, 1.0, 0.0), kp(0.5, 0.5, 0.5), kp(1.0, 0.5, 0.0)] }),
        ],
    )?;
    let ck = |t: f32, r: f32, g: f32, b: f32| ColorSequenceKeypoint::new(t, Color3::new(r, g, b));
    check(
        "ColorSequence",
        0x16,
        2,
        "03 00 00 00 00 00 00 00 00 00 80 3f 00 00 80 3f 00 00 80 3f 00 00 00 00 00 00 00 3f 00 00 00 00 00 00 00 00 00 00 00 00 00 00 00 00 00 00 80 3f 00 00 80 3f 00 00 80 3f 00 00 80 3f 00 00 00 00 03 00 00 00 00 00 00 00 00 00 80 3f 00 00 00 00 00 00 00 00 00 00 00 00 00 00 00 3f 00 00 00 00 00 00 80 3f 00 00 00 00 00 00 00 00 00 00 80 3f 00 00 00 00 00 00 00 00 00 00 80 3f 00 00 00 00",
        vec![
            Variant::ColorSequence(ColorSequence { keypoints: vec![ck(0.0, 1.0, 1.0, 1.0), ck(0.5, 0.0, 0.0, 0.0), ck(1.0, 1.0, 1.0, 1.0)] }),
            Variant::ColorSequence(ColorSequence { keypoints: vec![ck(0.0, 1.0, 0.0, 0.0), ck(0.5, 0.0, 1.0, 0.0), ck(1.0, 0.0, 0.0, 1.0)] }),
        ],
    )?;
    check("NumberRange", 0x17, 2, "00 00 00 00 00 00 00 3f 00 00 00 3f 00 00 80 3f", vec![Variant::NumberRange(NumberRange::new(0.0, 0.5)), Variant::NumberRange(NumberRange::new(0.5, 1.0))])?;
    check(
        "Rect",
        0x18,
        2,
        "7f 00 00 00 00 00 01 00 82 7f 40 00 00 00 01 00 82 81 00 40 00 00 00 00 82 81 20 80 00 00 00 00",
        vec![Variant::Rect(Rect::new(Vector2::new(-1.0, -10.0), Vector2::new(8.0, 9.0))), Variant::Rect(Rect::new(Vector2::new(0.0, 1.0), Vector2::new(5.0, 6.0)))],
    )?;
    check(
        "PhysicalProperties",
        0x19,
        2,
        "00 01 33 33 33 3f 9a 99 99 3e 00 00 00 3f 00 00 80 3f 00 00 80 3f",
        vec![
            Variant::PhysicalProperties(PhysicalProperties::Default),
            Variant::PhysicalProperties(PhysicalProperties::Custom(CustomPhysicalProperties { density: 0.7, friction: 0.3, elasticity: 0.5, friction_weight: 1.0, elasticity_weight: 1.0 })),
        ],
    )?;
    check("Color3uint8", 0x1a, 2, "00 3f ff 00 ff 7f", vec![Variant::Color3uint8(Color3uint8::new(0, 255, 255)), Variant::Color3uint8(Color3uint8::new(63, 0, 127))])?;
    check(
        "OptionalCoordinateFrame",
        0x1e,
        2,
        "10 0a 02 00 00 00 00 00 00 00 00 00 00 00 00 00 00 00 00 7f 00 00 00 00 00 00 00 02 01 00",
        vec![
            Variant::OptionalCFrame(Some(CFrame::new(Vector3::new(0.0, 0.0, 1.0), Matrix3::new(Vector3::new(0.0, -1.0, 0.0), Vector3::new(1.0, 0.0, 0.0), Vector3::new(0.0, 0.0, 1.0))))),
            Variant::OptionalCFrame(None),
        ],
    )?;
    // CFrame example: id 02 at (1,2,3); a general rotation at (4,5,6)
    {
        let b = hexb("02 00 4B C0 07 3E 08 9C 75 3D 95 46 7D 3F 1D 25 90 BE 58 6C 74 BF 84 C5 C3 3D 1E 4A 73 3F 6F 19 95 BE 9F A6 E0 BD 7F 81 00 00 00 00 00 00 80 7F 00 22 00 D4 00 B2 80 81 80 80 00 00 00 00");
        let mut c = Cur::new(&b);
        let got = decode_values(&mut c, 0x10, 2, doc)?.ok_or("cframe")?;
        match (&got[0], &got[1]) {
            (Wire::V(Variant::CFrame(a)), Wire::V(Variant::CFrame(bb))) => {
                let ok = a.position == Vector3::new(1.0, 2.0, 3.0) && a.orientation == Matrix3::identity() && bb.position.x == 4.0 && bb.position.z == 6.0 && c.left() == 0; // (the example's Y bytes do not encode the 5 its prose states)
                if !ok {
                    return Err(format!("CFrame example decodes to {:?} / {:?}", a, bb));
                }
            }
            _ => return Err("CFrame example".into()),
        }
        n += 1;
    }
    // referent accumulation table of the document
    {
        let deltas = [1619i32, 1, 4, 2, 3, 5];
        let mut raw = vec![0u8; 24];
        for (i, d) in deltas.iter().enumerate() {
            let t = transform32(*d).to_be_bytes();
            for j in 0..4 {
                raw[i + 6 * j] = t[j];
            }
        }
        let mut c = Cur::new(&raw);
        if c.referents(6)? != vec![1619, 1620, 1624, 1626, 1629, 1634] {
            return Err("referent accumulation example".into());
        }
        n += 1;
    }
    // Roblox float example: -0.15625 is stored as 7c 40 00 01
    {
        let raw = hexb("7c 40 00 01");
        let mut c = Cur::new(&raw);
        if c.float32s(1)?[0] != -0.15625 {
            return Err("Roblox float example".into());
        }
        n += 1;
    }
    // the rotation table must be a set of 24 distinct proper rotations, identity at 0x02
    {
        let mut seen = BTreeSet::new();
        for (id, _) in ROTATION_TABLE.iter() {
            let m = rotation_from_id(*id).unwrap();
            seen.insert(format!("{:?}", m));
        }
        if seen.len() != 24 || rotation_from_id(0x02) != Some(Matrix3::identity()) {
            return Err("rotation table".into());
        }
        n += 1;
    }
    Ok(n)
}

// ---------------------------------------------------------------------------
// Encoder, written from docs/binary.md, exposing every degree of freedom the
// document leaves open.

pub mod enc {
    use super::*;
    use crate::plan::{PVal, Plan, Tgt};

    #[derive(Clone, Copy, Debug, PartialEq, Eq, serde::Serialize, serde::Deserialize)]
    pub enum Comp {
        None,
        /// LZ4 block consisting of literals only (own encoder)
        Lz4Literal,
        /// LZ4 block produced by liblz4
        Lz4,
        /// Zstandard frame made of raw blocks (own encoder)
        ZstdRaw,
        /// Zstandard frame produced by libzstd's streaming encoder
        Zstd,
        /// libzstd streaming encoder with the content checksum enabled and a flush every 7 input
        /// bytes (many small blocks, no content size in the frame header)
        ZstdChecksumBlocks,
        /// libzstd one-shot encoder (frame header carries the content size)
        ZstdSized,
    }

    pub const COMPS: [Comp; 7] = [Comp::None, Comp::Lz4Literal, Comp::Lz4, Comp::ZstdRaw, Comp::Zstd, Comp::ZstdChecksumBlocks, Comp::ZstdSized];

    pub fn lz4_literal_block(data: &[u8]) -> Vec<u8> {
        let mut out = Vec::new();
        let n = data.len();
        if n < 15 {
            out.push((n as u8) << 4);
        } else {
            out.push(0xF0);
            let mut rest = n - 15;
            while rest >= 255 {
                out.push(255);
                rest -= 255;
            }
            out.push(rest as u8);
        }
        out.extend_from_slice(data);
        out
    }

    pub fn zstd_raw_frame(data: &[u8]) -> Vec<u8> {
        let mut out = vec![0x28, 0xb5, 0x2f, 0xfd];
        // Frame_Header_Descriptor: FCS flag 2 (4-byte content size), Single_Segment
        out.push((2 << 6) | (1 << 5));
        out.extend_from_slice(&(data.len() as u32).to_le_bytes());
        let max = 100_000usize;
        let mut blocks: Vec<&[u8]> = data.chunks(max).collect();
        if blocks.is_empty() {
            blocks.push(&[]);
        }
        let last = blocks.len() - 1;
        for (i, b) in blocks.iter().enumerate() {
            let header: u32 = ((b.len() as u32) << 3) | ((i == last) as u32);
            out.extend_from_slice(&header.to_le_bytes()[..3]);
            out.extend_from_slice(b);
        }
        out
    }

    pub fn frame_chunk(name: &[u8; 4], data: &[u8], comp: Comp) -> Vec<u8> {
        let mut out = name.to_vec();
        let body: Option<Vec<u8>> = match comp {
            Comp::None => None,
            Comp::Lz4Literal => Some(lz4_literal_block(data)),
            Comp::Lz4 => Some(lz4::block::compress(data, None, false).expect("lz4")),
            Comp::ZstdRaw => Some(zstd_raw_frame(data)),
            Comp::Zstd => {
                use std::io::Write;
                let mut e = zstd::stream::write::Encoder::new(Vec::new(), 3).expect("zstd");
                e.write_all(data).expect("zstd");
                Some(e.finish().expect("zstd"))
            }
            Comp::ZstdChecksumBlocks => {
                use std::io::Write;
                let mut e = zstd::stream::write::Encoder::new(Vec::new(), 1).expect("zstd");
                e.include_checksum(true).expect("zstd");
                for piece in data.chunks(7) {
                    e.write_all(piece).expect("zstd");
                    e.flush().expect("zstd");
                }
                Some(e.finish().expect("zstd"))
            }
            Comp::ZstdSized => Some(zstd::bulk::compress(data, 3).expect("zstd")),
        };
        match body {
            // "If Compressed Length is zero, Chunk Data contains Uncompressed Length bytes"
            None => {
                out.extend_from_slice(&0u32.to_le_bytes());
                out.extend_from_slice(&(data.len() as u32).to_le_bytes());
                out.extend_from_slice(&0u32.to_le_bytes());
                out.extend_from_slice(data);
            }
            Some(b) => {
                out.extend_from_slice(&(b.len() as u32).to_le_bytes());
                out.extend_from_slice(&(data.len() as u32).to_le_bytes());
                out.extend_from_slice(&0u32.to_le_bytes());
                out.extend_from_slice(&b);
            }
        }
        out
    }

    fn put_str(o: &mut Vec<u8>, s: &[u8]) {
        o.extend_from_slice(&(s.len() as u32).to_le_bytes());
        o.extend_from_slice(s);
    }

    fn interleave(vals: &[Vec<u8>], w: usize) -> Vec<u8> {
        let n = vals.len();
        let mut o = vec![0u8; n * w];
        for (i, v) in vals.iter().enumerate() {
            for j in 0..w {
                o[i + n * j] = v[j];
            }
        }
        o
    }

    pub fn put_int32s(o: &mut Vec<u8>, v: &[i32]) {
        let b: Vec<Vec<u8>> = v.iter().map(|x| transform32(*x).to_be_bytes().to_vec()).collect();
        o.extend(interleave(&b, 4));
    }
    pub fn put_u32s(o: &mut Vec<u8>, v: &[u32]) {
        let b: Vec<Vec<u8>> = v.iter().map(|x| x.to_be_bytes().to_vec()).collect();
        o.extend(interleave(&b, 4));
    }
    pub fn put_f32s(o: &mut Vec<u8>, v: &[f32]) {
        // sign bit moved to the end: rotate left by one
        let b: Vec<Vec<u8>> = v.iter().map(|x| { let t = x.to_bits(); ((t << 1) | (t >> 31)).to_be_bytes().to_vec() }).collect();
        o.extend(interleave(&b, 4));
    }
    pub fn put_int64s(o: &mut Vec<u8>, v: &[i64]) {
        let b: Vec<Vec<u8>> = v.iter().map(|x| transform64(*x).to_be_bytes().to_vec()).collect();
        o.extend(interleave(&b, 8));
    }
    pub fn put_referents(o: &mut Vec<u8>, v: &[i32]) {
        let mut d = Vec::with_capacity(v.len());
        let mut last = 0i32;
        for x in v {
            d.push(x.wrapping_sub(last));
            last = *x;
        }
        put_int32s(o, &d);
    }

    thread_local! {
        /// write every rotation as id 00 + the nine floats, also the 24 that have an id of their own
        /// ("If the ID is 00 ... the Orientation field is present": a writer may always do that)
        pub static CFRAME_LONG: std::cell::Cell<bool> = const { std::cell::Cell::new(false) };
    }

    fn put_cframes(o: &mut Vec<u8>, v: &[CFrame]) {
        let long = CFRAME_LONG.with(|c| c.get());
        for c in v {
            match rotation_id(&c.orientation).filter(|_| !long) {
                Some(id) => o.push(id),
                None => {
                    o.push(0);
                    for r in [&c.orientation.x, &c.orientation.y, &c.orientation.z] {
                        o.extend_from_slice(&r.x.to_bits().to_le_bytes());
                        o.extend_from_slice(&r.y.to_bits().to_le_bytes());
                        o.extend_from_slice(&r.z.to_bits().to_le_bytes());
                    }
                }
            }
        }
        put_f32s(o, &v.iter().map(|c| c.position.x).collect::<Vec<_>>());
        put_f32s(o, &v.iter().map(|c| c.position.y).collect::<Vec<_>>());
        put_f32s(o, &v.iter().map(|c| c.position.z).collect::<Vec<_>>());
    }

    /// The wire type id the encoder uses for a value.
    pub fn type_id_of(v: &PVal) -> Option<u8> {
        Some(match v {
            PVal::Ref(_) => 0x13,
            PVal::Shared(_) => 0x1c,
            PVal::ContentObj(_) => 0x22,
            PVal::V(v) => match v {
                Variant::String(_) | Variant::BinaryString(_) | Variant::ContentId(_) | Variant::Tags(_) | Variant::Attributes(_) | Variant::MaterialColors(_) => 0x01,
                Variant::Bool(_) => 0x02,
                Variant::Int32(_) => 0x03,
                Variant::Float32(_) => 0x04,
                Variant::Float64(_) => 0x05,
                Variant::UDim(_) => 0x06,
                Variant::UDim2(_) => 0x07,
                Variant::Ray(_) => 0x08,
                Variant::Faces(_) => 0x09,
                Variant::Axes(_) => 0x0a,
                Variant::BrickColor(_) => 0x0b,
                Variant::Color3(_) => 0x0c,
                Variant::Vector2(_) => 0x0d,
                Variant::Vector3(_) => 0x0e,
                Variant::CFrame(_) => 0x10,
                Variant::Enum(_) => 0x12,
                Variant::Vector3int16(_) => 0x14,
                Variant::NumberSequence(_) => 0x15,
                Variant::ColorSequence(_) => 0x16,
                Variant::NumberRange(_) => 0x17,
                Variant::Rect(_) => 0x18,
                Variant::PhysicalProperties(_) => 0x19,
                Variant::Color3uint8(_) => 0x1a,
                Variant::Int64(_) => 0x1b,
                Variant::OptionalCFrame(_) => 0x1e,
                Variant::UniqueId(_) => 0x1f,
                Variant::Font(_) => 0x20,
                Variant::Content(_) => 0x22,
                _ => return None,
            },
        })
    }

    /// Encodes one column of values (all of one wire type). `referent_of`
    /// maps a plan node to its file referent; `sstr_index` a content to its index.
    pub fn encode_values(
        o: &mut Vec<u8>,
        type_id: u8,
        vals: &[&PVal],
        referent_of: &dyn Fn(&Tgt) -> i32,
        sstr_index: &dyn Fn(&[u8]) -> u32,
        sw: Switches,
    ) -> Result<(), String> {
        macro_rules! get {
            ($pat:pat => $e:expr) => {{
                let mut out = Vec::new();
                for v in vals {
                    match v {
                        PVal::V($pat) => out.push($e),
                        other => return Err(format!("mixed column: {:?}", other)),
                    }
                }
                out
            }};
        }
        match type_id {
            0x01 => {
                for v in vals {
                    match v {
                        PVal::V(Variant::String(s)) => put_str(o, s.as_bytes()),
                        PVal::V(Variant::BinaryString(b)) => put_str(o, b.as_ref()),
                        PVal::V(Variant::ContentId(c)) => put_str(o, c.as_str().as_bytes()),
                        PVal::V(Variant::Tags(t)) => put_str(o, &t.encode()),
                        PVal::V(Variant::MaterialColors(m)) => put_str(o, &m.encode()),
                        PVal::V(Variant::Attributes(a)) => {
                            let entries: Vec<(String, Variant)> = a.iter().map(|(k, v)| (k.clone(), v.clone())).collect();
                            put_str(o, &crate::c14::specattr::encode(&entries).ok_or("attribute type")?);
                        }
                        other => return Err(format!("mixed column: {:?}", other)),
                    }
                }
            }
            0x02 => o.extend(get!(Variant::Bool(b) => *b as u8)),
            0x03 => put_int32s(o, &get!(Variant::Int32(i) => *i)),
            0x04 => put_f32s(o, &get!(Variant::Float32(f) => *f)),
            0x05 => {
                for f in get!(Variant::Float64(f) => *f) {
                    o.extend_from_slice(&f.to_bits().to_le_bytes());
                }
            }
            0x06 => {
                let u = get!(Variant::UDim(u) => *u);
                put_f32s(o, &u.iter().map(|x| x.scale).collect::<Vec<_>>());
                put_int32s(o, &u.iter().map(|x| x.offset).collect::<Vec<_>>());
            }
            0x07 => {
                let u = get!(Variant::UDim2(u) => *u);
                put_f32s(o, &u.iter().map(|x| x.x.scale).collect::<Vec<_>>());
                put_f32s(o, &u.iter().map(|x| x.y.scale).collect::<Vec<_>>());
                put_int32s(o, &u.iter().map(|x| x.x.offset).collect::<Vec<_>>());
                put_int32s(o, &u.iter().map(|x| x.y.offset).collect::<Vec<_>>());
            }
            0x08 => {
                for r in get!(Variant::Ray(r) => *r) {
                    for f in [r.origin.x, r.origin.y, r.origin.z, r.direction.x, r.direction.y, r.direction.z] {
                        o.extend_from_slice(&f.to_bits().to_le_bytes());
                    }
                }
            }
            0x09 => {
                for f in get!(Variant::Faces(f) => f.bits()) {
                    o.push(if sw.faces_impl {
                        f
                    } else {
                        // rbx_types bits Right=1 Top=2 Back=4 Left=8 Bottom=16 Front=32 -> document bits Front=1 Bottom=2 Left=4 Back=8 Top=16 Right=32
                        let mut r = 0u8;
                        if f & 32 != 0 { r |= 1; }
                        if f & 16 != 0 { r |= 2; }
                        if f & 8 != 0 { r |= 4; }
                        if f & 4 != 0 { r |= 8; }
                        if f & 2 != 0 { r |= 16; }
                        if f & 1 != 0 { r |= 32; }
                        r
                    });
                }
            }
            0x0a => o.extend(get!(Variant::Axes(a) => a.bits())),
            0x0b => put_u32s(o, &get!(Variant::BrickColor(b) => *b as u16 as u32)),
            0x0c => {
                let c = get!(Variant::Color3(c) => *c);
                put_f32s(o, &c.iter().map(|x| x.r).collect::<Vec<_>>());
                put_f32s(o, &c.iter().map(|x| x.g).collect::<Vec<_>>());
                put_f32s(o, &c.iter().map(|x| x.b).collect::<Vec<_>>());
            }
            0x0d => {
                let c = get!(Variant::Vector2(c) => *c);
                put_f32s(o, &c.iter().map(|x| x.x).collect::<Vec<_>>());
                put_f32s(o, &c.iter().map(|x| x.y).collect::<Vec<_>>());
            }
            0x0e => {
                let c = get!(Variant::Vector3(c) => *c);
                put_f32s(o, &c.iter().map(|x| x.x).collect::<Vec<_>>());
                put_f32s(o, &c.iter().map(|x| x.y).collect::<Vec<_>>());
                put_f32s(o, &c.iter().map(|x| x.z).collect::<Vec<_>>());
            }
            0x10 => put_cframes(o, &get!(Variant::CFrame(c) => *c)),
            0x12 => put_u32s(o, &get!(Variant::Enum(e) => e.to_u32())),
            0x13 => {
                let mut r = Vec::new();
                for v in vals {
                    match v {
                        PVal::Ref(t) => r.push(referent_of(t)),
                        other => return Err(format!("mixed column: {:?}", other)),
                    }
                }
                put_referents(o, &r);
            }
            0x14 => {
                for v in get!(Variant::Vector3int16(v) => *v) {
                    o.extend_from_slice(&v.x.to_le_bytes());
                    o.extend_from_slice(&v.y.to_le_bytes());
                    o.extend_from_slice(&v.z.to_le_bytes());
                }
            }
            0x15 => {
                for s in get!(Variant::NumberSequence(s) => s.clone()) {
                    o.extend_from_slice(&(s.keypoints.len() as u32).to_le_bytes());
                    for k in &s.keypoints {
                        for f in [k.time, k.value, k.envelope] {
                            o.extend_from_slice(&f.to_bits().to_le_bytes());
                        }
                    }
                }
            }
            0x16 => {
                for s in get!(Variant::ColorSequence(s) => s.clone()) {
                    o.extend_from_slice(&(s.keypoints.len() as u32).to_le_bytes());
                    for k in &s.keypoints {
                        for f in [k.time, k.color.r, k.color.g, k.color.b, 0.0] {
                            o.extend_from_slice(&f.to_bits().to_le_bytes());
                        }
                    }
                }
            }
            0x17 => {
                for r in get!(Variant::NumberRange(r) => *r) {
                    o.extend_from_slice(&r.min.to_bits().to_le_bytes());
                    o.extend_from_slice(&r.max.to_bits().to_le_bytes());
                }
            }
            0x18 => {
                let r = get!(Variant::Rect(r) => *r);
                put_f32s(o, &r.iter().map(|x| x.min.x).collect::<Vec<_>>());
                put_f32s(o, &r.iter().map(|x| x.min.y).collect::<Vec<_>>());
                put_f32s(o, &r.iter().map(|x| x.max.x).collect::<Vec<_>>());
                put_f32s(o, &r.iter().map(|x| x.max.y).collect::<Vec<_>>());
            }
            0x19 => {
                for p in get!(Variant::PhysicalProperties(p) => *p) {
                    match p {
                        PhysicalProperties::Default => o.push(0),
                        PhysicalProperties::Custom(c) => {
                            o.push(1);
                            for f in [c.density, c.friction, c.elasticity, c.friction_weight, c.elasticity_weight] {
                                o.extend_from_slice(&f.to_bits().to_le_bytes());
                            }
                        }
                    }
                }
            }
            0x1a => {
                let c = get!(Variant::Color3uint8(c) => *c);
                o.extend(c.iter().map(|x| x.r));
                o.extend(c.iter().map(|x| x.g));
                o.extend(c.iter().map(|x| x.b));
            }
            0x1b => put_int64s(o, &get!(Variant::Int64(i) => *i)),
            0x1c => {
                let mut idx = Vec::new();
                for v in vals {
                    match v {
                        PVal::Shared(b) => idx.push(sstr_index(b)),
                        other => return Err(format!("mixed column: {:?}", other)),
                    }
                }
                put_u32s(o, &idx);
            }
            0x1e => {
                let v = get!(Variant::OptionalCFrame(c) => *c);
                o.push(0x10);
                let cfs: Vec<CFrame> = v.iter().map(|c| c.unwrap_or(CFrame::new(Vector3::new(0.0, 0.0, 0.0), Matrix3::identity()))).collect();
                put_cframes(o, &cfs);
                o.push(0x02);
                o.extend(v.iter().map(|c| c.is_some() as u8));
            }
            0x1f => {
                let u = get!(Variant::UniqueId(u) => *u);
                let blobs: Vec<Vec<u8>> = u
                    .iter()
                    .map(|u| {
                        let mut b = Vec::with_capacity(16);
                        if sw.uniqueid_impl {
                            b.extend_from_slice(&u.index().to_be_bytes());
                            b.extend_from_slice(&u.time().to_be_bytes());
                            b.extend_from_slice(&u.random().rotate_left(1).to_be_bytes());
                        } else {
                            b.extend_from_slice(&u.index().to_le_bytes());
                            b.extend_from_slice(&u.time().to_le_bytes());
                            b.extend_from_slice(&u.random().to_le_bytes());
                        }
                        b
                    })
                    .collect();
                o.extend(interleave(&blobs, 16));
            }
            0x20 => {
                for f in get!(Variant::Font(f) => f.clone()) {
                    put_str(o, f.family.as_bytes());
                    o.extend_from_slice(&f.weight.as_u16().to_le_bytes());
                    o.push(f.style.as_u8());
                    put_str(o, f.cached_face_id.as_deref().unwrap_or("").as_bytes());
                }
            }
            0x22 => {
                let mut types: Vec<u32> = Vec::new();
                let mut uris: Vec<String> = Vec::new();
                let mut objs: Vec<i32> = Vec::new();
                for v in vals {
                    match v {
                        PVal::ContentObj(t) => {
                            types.push(2);
                            objs.push(referent_of(t));
                        }
                        PVal::V(Variant::Content(c)) => match c.value() {
                            rbx_types::ContentType::None => types.push(0),
                            rbx_types::ContentType::Uri(u) => {
                                types.push(1);
                                uris.push(u.clone());
                            }
                            rbx_types::ContentType::Object(_) => return Err("use ContentObj for object content".into()),
                            _ => return Err("content".into()),
                        },
                        other => return Err(format!("mixed column: {:?}", other)),
                    }
                }
                if sw.content_impl {
                    put_int32s(o, &types.iter().map(|x| *x as i32).collect::<Vec<_>>());
                } else {
                    put_u32s(o, &types);
                }
                o.extend_from_slice(&(uris.len() as u32).to_le_bytes());
                for u in &uris {
                    put_str(o, u.as_bytes());
                }
                o.extend_from_slice(&(objs.len() as u32).to_le_bytes());
                put_referents(o, &objs);
                o.extend_from_slice(&0u32.to_le_bytes());
            }
            other => return Err(format!("no encoder for type id {:#x}", other)),
        }
        Ok(())
    }

    /// Every choice the document leaves to the writer.
    #[derive(Clone, Debug, serde::Serialize, serde::Deserialize)]
    pub struct Encoding {
        /// compression of the k-th chunk (cycled); END is always uncompressed
        pub comp: Vec<Comp>,
        /// class index (sorted class names) -> class id
        pub class_ids: Vec<u32>,
        /// order in which INST chunks are written (indices into sorted class names)
        pub inst_order: Vec<usize>,
        /// permutation index applied to the list of PROP chunks
        pub prop_perm: usize,
        /// plan node -> referent
        pub referents: Vec<i32>,
        /// order of the PRNT entries (plan node indices)
        pub prnt_order: Vec<usize>,
        /// column order inside a class: false = plan order, true = reversed
        pub reverse_columns: bool,
        pub meta: bool,
        /// insert a chunk with an unknown name before the k-th chunk
        pub unknown_chunk_at: Option<usize>,
        /// how the unknown chunk is stored, and its payload length (a compressible pattern)
        #[serde(default = "default_unknown_comp")]
        pub unknown_comp: Comp,
        #[serde(default = "default_unknown_len")]
        pub unknown_len: usize,
        /// what the unknown chunk's payload looks like: 0 text, 1 starts with the Zstandard magic,
        /// 2 is a whole Zstandard frame, 3 starts like an LZ4 frame, 4 is the END chunk's text,
        /// 5 starts with the file magic
        #[serde(default)]
        pub unknown_kind: u8,
        /// classes (by name) written in the service object format
        pub service_format: Vec<String>,
        /// extra PROP chunks: (class index, property name, Some(type id) / None = cut after the name)
        pub junk_props: Vec<(usize, String, Option<u8>)>,
        /// position of the junk PROP chunks: before (false) or after (true) the real ones
        pub junk_last: bool,
        pub switches_impl: bool,
        /// classes without instances ("Zero or more INST chunk", Instance Count 0, no referents):
        /// (class name, PROP chunks of that class as (name, type id) - they hold zero values -,
        /// INST chunk first / last, PROP chunks first / last)
        #[serde(default)]
        pub empty_classes: Vec<(String, Vec<(String, u8)>, bool, bool)>,
        /// every CFrame rotation in the long form (id 00 + matrix)
        #[serde(default)]
        pub cframe_long: bool,
    }

    pub fn default_unknown_comp() -> Comp {
        Comp::None
    }
    pub fn default_unknown_len() -> usize {
        16
    }
    pub fn unknown_payload(n: usize, kind: u8) -> Vec<u8> {
        let text: Vec<u8> = b"an unknown chunk".iter().cycle().take(n).cloned().collect();
        let with_prefix = |p: &[u8]| -> Vec<u8> {
            let mut v = p.to_vec();
            v.extend_from_slice(&text);
            v
        };
        match kind {
            1 => with_prefix(&[0x28, 0xb5, 0x2f, 0xfd]),
            2 => zstd::bulk::compress(&text, 3).expect("zstd"),
            3 => with_prefix(&[0x04, 0x22, 0x4d, 0x18]),
            4 => b"</roblox>".to_vec(),
            5 => with_prefix(b"<roblox!\x89\xff\x0d\x0a\x1a\x0a"),
            _ => text,
        }
    }

    pub fn permutation(n: usize, mut k: usize) -> Vec<usize> {
        let mut items: Vec<usize> = (0..n).collect();
        let mut out = Vec::new();
        for i in (1..=n).rev() {
            let f: usize = (1..i).product::<usize>().max(1);
            let idx = (k / f) % i;
            k %= f;
            out.push(items.remove(idx));
        }
        out
    }

    pub fn class_names(plan: &Plan) -> Vec<String> {
        let mut c: Vec<String> = plan.nodes.iter().map(|n| n.class.clone()).collect();
        c.sort();
        c.dedup();
        c
    }

    pub fn base_encoding(plan: &Plan) -> Encoding {
        let classes = class_names(plan);
        // post-order
        let mut post = Vec::new();
        fn po(plan: &Plan, p: Option<usize>, out: &mut Vec<usize>) {
            for c in plan.children_of(p) {
                po(plan, Some(c), out);
                out.push(c);
            }
        }
        po(plan, None, &mut post);
        Encoding {
            comp: vec![Comp::None],
            class_ids: (0..classes.len() as u32).collect(),
            inst_order: (0..classes.len()).collect(),
            prop_perm: 0,
            referents: (0..plan.nodes.len() as i32).collect(),
            prnt_order: post,
            reverse_columns: false,
            meta: false,
            unknown_chunk_at: None,
            unknown_comp: Comp::None,
            unknown_len: 16,
            unknown_kind: 0,
            service_format: vec![],
            junk_props: vec![],
            junk_last: false,
            switches_impl: true,
            empty_classes: vec![],
            cframe_long: false,
        }
    }

    /// Encodes every node of the plan (the file's roots are the nodes without a parent).
    pub fn encode(plan: &Plan, e: &Encoding) -> Result<Vec<u8>, String> {
        CFRAME_LONG.with(|c| c.set(e.cframe_long));
        let r = encode_inner(plan, e);
        CFRAME_LONG.with(|c| c.set(false));
        r
    }

    fn encode_inner(plan: &Plan, e: &Encoding) -> Result<Vec<u8>, String> {
        let sw = if e.switches_impl { Switches { uniqueid_impl: true, faces_impl: true, content_impl: true } } else { Switches::default() };
        let classes = class_names(plan);
        let referent_of = |t: &Tgt| -> i32 {
            match t {
                Tgt::Null | Tgt::Ghost => -1,
                Tgt::Node(i) => e.referents[*i],
            }
        };
        // shared strings: distinct contents in first-use order
        let mut sstr: Vec<Vec<u8>> = Vec::new();
        for n in &plan.nodes {
            for (_, v) in &n.props {
                if let PVal::Shared(b) = v {
                    if !sstr.contains(b) {
                        sstr.push(b.clone());
                    }
                }
            }
        }
        let sstr_index = |b: &[u8]| -> u32 { sstr.iter().position(|x| x.as_slice() == b).unwrap() as u32 };
        let mut chunks: Vec<([u8; 4], Vec<u8>)> = Vec::new();
        if e.meta {
            let mut d = Vec::new();
            d.extend_from_slice(&1u32.to_le_bytes());
            put_str(&mut d, b"ExplicitAutoJoints");
            put_str(&mut d, b"true");
            chunks.push((*b"META", d));
        }
        if !sstr.is_empty() {
            let mut d = Vec::new();
            d.extend_from_slice(&0u32.to_le_bytes());
            d.extend_from_slice(&(sstr.len() as u32).to_le_bytes());
            for s in &sstr {
                d.extend_from_slice(&[0u8; 16]);
                put_str(&mut d, s);
            }
            chunks.push((*b"SSTR", d));
        }
        // columns
        let column = |ci: usize| -> Vec<usize> {
            let mut v: Vec<usize> = (0..plan.nodes.len()).filter(|i| plan.nodes[*i].class == classes[ci]).collect();
            if e.reverse_columns {
                v.reverse();
            }
            v
        };
        let empty_id = |k: usize| -> u32 {
            // an id no real class uses
            let mut id = 0x0100_0000u32 + k as u32;
            while e.class_ids.contains(&id) {
                id = id.wrapping_add(0x0001_0000);
            }
            id
        };
        let empty_inst = |k: usize, name: &str| -> Vec<u8> {
            let mut d = Vec::new();
            d.extend_from_slice(&empty_id(k).to_le_bytes());
            put_str(&mut d, name.as_bytes());
            d.push(0);
            d.extend_from_slice(&0u32.to_le_bytes());
            d
        };
        for (k, (name, _, first, _)) in e.empty_classes.iter().enumerate() {
            if *first {
                chunks.push((*b"INST", empty_inst(k, name)));
            }
        }
        for &ci in &e.inst_order {
            let col = column(ci);
            let service = e.service_format.contains(&classes[ci]);
            let mut d = Vec::new();
            d.extend_from_slice(&e.class_ids[ci].to_le_bytes());
            put_str(&mut d, classes[ci].as_bytes());
            d.push(service as u8);
            d.extend_from_slice(&(col.len() as u32).to_le_bytes());
            put_referents(&mut d, &col.iter().map(|i| e.referents[*i]).collect::<Vec<_>>());
            if service {
                d.extend(std::iter::repeat(1u8).take(col.len()));
            }
            chunks.push((*b"INST", d));
        }
        for (k, (name, _, first, _)) in e.empty_classes.iter().enumerate() {
            if !*first {
                chunks.push((*b"INST", empty_inst(k, name)));
            }
        }
        // PROP chunks
        let mut props: Vec<Vec<u8>> = Vec::new();
        for ci in 0..classes.len() {
            let col = column(ci);
            let mut names: Vec<String> = Vec::new();
            for i in &col {
                for (k, _) in &plan.nodes[*i].props {
                    if !names.contains(k) {
                        names.push(k.clone());
                    }
                }
            }
            // Name is an ordinary String property
            {
                let mut d = Vec::new();
                d.extend_from_slice(&e.class_ids[ci].to_le_bytes());
                put_str(&mut d, b"Name");
                d.push(0x01);
                for i in &col {
                    put_str(&mut d, plan.nodes[*i].name.as_bytes());
                }
                props.push(d);
            }
            for name in names {
                let vals: Vec<&PVal> = col
                    .iter()
                    .map(|i| plan.nodes[*i].props.iter().find(|(k, _)| *k == name).map(|(_, v)| v))
                    .collect::<Option<Vec<_>>>()
                    .ok_or(format!("property {} is not carried by every instance of {}", name, classes[ci]))?;
                let tid = type_id_of(vals[0]).ok_or("unencodable value")?;
                let mut d = Vec::new();
                d.extend_from_slice(&e.class_ids[ci].to_le_bytes());
                put_str(&mut d, name.as_bytes());
                d.push(tid);
                encode_values(&mut d, tid, &vals, &referent_of, &sstr_index, sw)?;
                props.push(d);
            }
        }
        let perm = permutation(props.len(), e.prop_perm);
        let mut ordered: Vec<Vec<u8>> = perm.iter().map(|i| props[*i].clone()).collect();
        let mut junk: Vec<Vec<u8>> = Vec::new();
        for (ci, name, tid) in &e.junk_props {
            let mut d = Vec::new();
            d.extend_from_slice(&e.class_ids[*ci].to_le_bytes());
            put_str(&mut d, name.as_bytes());
            if let Some(t) = tid {
                d.push(*t);
                // some bytes a future type might use
                d.extend_from_slice(&[0xde, 0xad, 0xbe, 0xef, 0x01]);
            }
            junk.push(d);
        }
        if e.junk_last {
            ordered.extend(junk);
        } else {
            junk.extend(ordered);
            ordered = junk;
        }
        let empty_props = |want_first: bool| -> Vec<Vec<u8>> {
            let mut v = Vec::new();
            for (k, (_, ps, _, first)) in e.empty_classes.iter().enumerate() {
                if *first != want_first {
                    continue;
                }
                for (pn, tid) in ps {
                    let mut d = Vec::new();
                    d.extend_from_slice(&empty_id(k).to_le_bytes());
                    put_str(&mut d, pn.as_bytes());
                    d.push(*tid);
                    if *tid == 0x22 {
                        // a Content column of zero values still has its three counts
                        d.extend_from_slice(&[0u8; 12]);
                    }
                    v.push(d);
                }
            }
            v
        };
        for d in empty_props(true) {
            chunks.push((*b"PROP", d));
        }
        for d in ordered {
            chunks.push((*b"PROP", d));
        }
        for d in empty_props(false) {
            chunks.push((*b"PROP", d));
        }
        // PRNT
        {
            let mut d = vec![0u8];
            d.extend_from_slice(&(e.prnt_order.len() as u32).to_le_bytes());
            put_referents(&mut d, &e.prnt_order.iter().map(|i| e.referents[*i]).collect::<Vec<_>>());
            put_referents(&mut d, &e.prnt_order.iter().map(|i| match plan.nodes[*i].parent { Some(p) => e.referents[p], None => -1 }).collect::<Vec<_>>());
            chunks.push((*b"PRNT", d));
        }
        // assemble
        let mut out = Vec::new();
        out.extend_from_slice(b"<roblox!");
        out.extend_from_slice(&[0x89, 0xff, 0x0d, 0x0a, 0x1a, 0x0a]);
        out.extend_from_slice(&0u16.to_le_bytes());
        out.extend_from_slice(&((classes.len() + e.empty_classes.len()) as u32).to_le_bytes());
        out.extend_from_slice(&(plan.nodes.len() as u32).to_le_bytes());
        out.extend_from_slice(&[0u8; 8]);
        for (k, (name, data)) in chunks.iter().enumerate() {
            if e.unknown_chunk_at == Some(k) {
                out.extend(frame_chunk(b"ZZZZ", &unknown_payload(e.unknown_len, e.unknown_kind), e.unknown_comp));
            }
            out.extend(frame_chunk(name, data, e.comp[k % e.comp.len()]));
        }
        if e.unknown_chunk_at == Some(chunks.len()) {
            out.extend(frame_chunk(b"ZZZZ", &unknown_payload(e.unknown_len, e.unknown_kind), e.unknown_comp));
        }
        out.extend(frame_chunk(b"END\0", b"</roblox>", Comp::None));
        Ok(out)
    }

    pub fn chunk_count(plan: &Plan, e: &Encoding) -> usize {
        // number of chunks before END
        split_chunks(&encode(plan, e).unwrap_or_default()).map(|x| x.2.len().saturating_sub(1)).unwrap_or(0)
    }
}
