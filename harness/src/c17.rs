//! C17: serde / text encodings of the value types and the Lua wire contract.

use std::collections::BTreeMap;
use std::str::FromStr;

use rbx_types::{
    Axes, BrickColor, Color3uint8, Content, Faces, MaterialColors, Ref, SharedString, Tags, TerrainMaterials, UniqueId,
    Variant, VariantType,
};
use serde::{Deserialize, Serialize};
use serde_json::{json, Value};

use crate::evidence::Run;
use crate::sweeps::{run_cases, SweepOut};
use crate::vals::{alphabet, render, Codec, FloatMode};

fn r(v: &Variant) -> String {
    render(v, FloatMode::Exact, &|x: Ref| x.to_string())
}

/// true when every float inside the rendered value is finite
fn all_finite(rendered: &str) -> bool {
    let b = rendered.as_bytes();
    let mut i = 0;
    while i + 2 < b.len() {
        if (b[i] == b'f' || b[i] == b'd') && b[i + 1] == b':' {
            let n = if b[i] == b'f' { 8 } else { 16 };
            if i + 2 + n <= b.len() {
                let hexs = &rendered[i + 2..i + 2 + n];
                if hexs.chars().all(|c| c.is_ascii_hexdigit()) && (i == 0 || !b[i - 1].is_ascii_alphanumeric()) {
                    if n == 8 {
                        let bits = u32::from_str_radix(hexs, 16).unwrap();
                        if !f32::from_bits(bits).is_finite() {
                            return false;
                        }
                    } else {
                        let bits = u64::from_str_radix(hexs, 16).unwrap();
                        if !f64::from_bits(bits).is_finite() {
                            return false;
                        }
                    }
                    i += 2 + n;
                    continue;
                }
            }
        }
        i += 1;
    }
    true
}

#[derive(Clone, Debug, Serialize, Deserialize)]
pub enum Case17 {
    Variant { ty: String, label: String },
    RefValue { value: String },
    ContentObject { value: String },
    Shared { hex: String },
    BrickRange { start: u32, end: u32 },
    BitSets,
    RefText { value: String },
    UniqueIdText { index: u32, time: u32, random: i64 },
    TagsList { tags: Vec<String> },
    Material { index: usize, rgb: (u8, u8, u8) },
    LuaSample { name: String },
    /// the alphabet value wrapped in a container value: an Attributes map (one entry, and next
    /// to a second entry of another type), and for CFrames an OptionalCFrame
    Nested { ty: String, label: String },
    /// blob -> value -> blob: every byte string of this length over the tag alphabet
    TagsBlobs { len: usize },
    /// blob -> value -> blob for MaterialColors: one blob length, several fillings
    MaterialBlob { len: usize },
}

pub fn all_types() -> Vec<VariantType> {
    let mut v = crate::vals::xml_types();
    v.push(VariantType::EnumItem);
    v.push(VariantType::Region3);
    v.push(VariantType::Region3int16);
    v
}

fn variant_of(ty: &str, label: &str) -> Variant {
    let vt = all_types().into_iter().find(|t| crate::vals::type_name(*t) == ty).expect("type");
    alphabet_ext(vt).into_iter().find(|(l, _)| l == label).expect("label").1
}

fn alphabet_ext(vt: VariantType) -> Vec<(String, Variant)> {
    use rbx_types::{Region3, Region3int16, Vector3, Vector3int16};
    match vt {
        VariantType::Region3 => vec![
            ("unit".into(), Variant::Region3(Region3::new(Vector3::new(0.0, 0.0, 0.0), Vector3::new(1.0, 2.0, 3.0)))),
            ("nan".into(), Variant::Region3(Region3::new(Vector3::new(f32::from_bits(0xffc12345), -0.0, f32::MIN), Vector3::new(f32::INFINITY, 2.0, 3.0)))),
        ],
        VariantType::Region3int16 => vec![
            ("unit".into(), Variant::Region3int16(Region3int16::new(Vector3int16::new(0, 0, 0), Vector3int16::new(1, 2, 3)))),
            ("minmax".into(), Variant::Region3int16(Region3int16::new(Vector3int16::new(i16::MIN, -1, 0), Vector3int16::new(i16::MAX, 1, 2)))),
        ],
        _ => alphabet(vt, Codec::Binary, true).into_iter().map(|l| (l.label, l.v)).collect(),
    }
}

/// JSON text of `v` with the members of every object in reverse order (a JSON object is an
/// unordered collection: a reader must not depend on the order its own writer uses).
fn json_reversed(v: &Value, out: &mut String) {
    match v {
        Value::Object(m) => {
            out.push('{');
            for (i, (k, x)) in m.iter().rev().enumerate() {
                if i > 0 {
                    out.push(',');
                }
                out.push_str(&serde_json::to_string(k).unwrap());
                out.push(':');
                json_reversed(x, out);
            }
            out.push('}');
        }
        Value::Array(a) => {
            out.push('[');
            for (i, x) in a.iter().enumerate() {
                if i > 0 {
                    out.push(',');
                }
                json_reversed(x, out);
            }
            out.push(']');
        }
        other => out.push_str(&serde_json::to_string(other).unwrap()),
    }
}

/// All serde entry points for one value; returns (key suffix, what) failures.
pub fn check_variant(v: &Variant) -> Vec<(String, String)> {
    let mut out = Vec::new();
    let want = r(v);
    let tyname = format!("{:?}", v.ty());
    // JSON (finite floats only)
    if all_finite(&want) {
        match serde_json::to_string(v) {
            Err(e) => out.push((format!("json-ser|{}", tyname), format!("serde_json::to_string failed: {}", e))),
            Ok(text) => {
                let mut check = |entry: &str, res: Result<Variant, String>| match res {
                    Err(e) => out.push((format!("json-{}|{}|err", entry, tyname), format!("{} of {} failed: {}", entry, text.chars().take(120).collect::<String>(), e))),
                    Ok(back) => {
                        if r(&back) != want {
                            out.push((format!("json-{}|{}|value", entry, tyname), format!("{}: {} came back as {}", entry, want.chars().take(120).collect::<String>(), r(&back).chars().take(120).collect::<String>())));
                        }
                    }
                };
                check("from_str", serde_json::from_str::<Variant>(&text).map_err(|e| e.to_string()));
                check("from_slice", serde_json::to_vec(v).map_err(|e| e.to_string()).and_then(|b| serde_json::from_slice::<Variant>(&b).map_err(|e| e.to_string())));
                check("from_reader", {
                    let mut buf = Vec::new();
                    serde_json::to_writer(&mut buf, v).map_err(|e| e.to_string()).and_then(|_| serde_json::from_reader::<_, Variant>(buf.as_slice()).map_err(|e| e.to_string()))
                });
                check("from_value", serde_json::to_value(v).map_err(|e| e.to_string()).and_then(|val| serde_json::from_value::<Variant>(val).map_err(|e| e.to_string())));
                // pretty-printed / escaped text is still the same JSON
                check("from_str_pretty", serde_json::to_string_pretty(v).map_err(|e| e.to_string()).and_then(|t| serde_json::from_str::<Variant>(&t).map_err(|e| e.to_string())));
                check("from_str_members_reversed", serde_json::to_value(v).map_err(|e| e.to_string()).and_then(|val| {
                    let mut t = String::new();
                    json_reversed(&val, &mut t);
                    serde_json::from_str::<Variant>(&t).map_err(|e| format!("{} [{}]", e, t.chars().take(100).collect::<String>()))
                }));
            }
        }
    }
    // serde's own contract, independent of any format: announced lengths are the real ones
    for e in crate::lencheck::check(v) {
        out.push((format!("serialize-contract|{}", tyname), format!("Serialize for {}: {} [{}]", tyname, e, want.chars().take(80).collect::<String>())));
    }
    // bincode
    match bincode::serialize(v) {
        Err(e) => out.push((format!("bincode-ser|{}", tyname), format!("bincode::serialize failed: {}", e))),
        Ok(bytes) => match bincode::deserialize::<Variant>(&bytes) {
            Err(e) => out.push((format!("bincode-de|{}|err", tyname), format!("bincode::deserialize failed: {}", e))),
            Ok(back) => {
                if r(&back) != want {
                    out.push((format!("bincode-de|{}|value", tyname), format!("bincode: {} came back as {}", want.chars().take(120).collect::<String>(), r(&back).chars().take(120).collect::<String>())));
                }
                // the same bytes through an io::Read (the deserializer cannot lend borrowed data)
                match bincode::deserialize_from::<_, Variant>(std::io::Cursor::new(&bytes)) {
                    Err(e) => out.push((format!("bincode-de-reader|{}|err", tyname), format!("bincode::deserialize_from (a reader) fails on bytes bincode::deserialize (a slice) accepts: {}", e))),
                    Ok(b2) => {
                        if r(&b2) != want {
                            out.push((format!("bincode-de-reader|{}|value", tyname), format!("bincode from a reader: {} came back as {}", want.chars().take(120).collect::<String>(), r(&b2).chars().take(120).collect::<String>())));
                        }
                    }
                }
            }
        },
    }
    // MessagePack, compact and named
    for (nm, ser) in [("rmp", rmp_serde::to_vec(v)), ("rmp-named", rmp_serde::to_vec_named(v))] {
        match ser {
            Err(e) => out.push((format!("{}-ser|{}", nm, tyname), format!("{} serialize failed: {}", nm, e))),
            Ok(bytes) => match rmp_serde::from_slice::<Variant>(&bytes) {
                Err(e) => out.push((format!("{}-de|{}|err", nm, tyname), format!("{} deserialize failed: {}", nm, e))),
                Ok(back) => {
                    if r(&back) != want {
                        out.push((format!("{}-de|{}|value", nm, tyname), format!("{}: {} came back as {}", nm, want.chars().take(120).collect::<String>(), r(&back).chars().take(120).collect::<String>())));
                    }
                    match rmp_serde::from_read::<_, Variant>(std::io::Cursor::new(&bytes)) {
                        Err(e) => out.push((format!("{}-de-reader|{}|err", nm, tyname), format!("{} from_read (a reader) fails on bytes from_slice accepts: {}", nm, e))),
                        Ok(b2) => {
                            if r(&b2) != want {
                                out.push((format!("{}-de-reader|{}|value", nm, tyname), format!("{} from a reader: {} came back as {}", nm, want.chars().take(120).collect::<String>(), r(&b2).chars().take(120).collect::<String>())));
                            }
                        }
                    }
                }
            },
        }
    }
    out
}

fn ref_values() -> Vec<u128> {
    let mut v = vec![0u128, 1, u128::MAX, u128::MAX - 1, 0x0123456789abcdef0fedcba987654321, 1 << 64, (1 << 64) - 1];
    for b in 0..128 {
        v.push(1u128 << b);
    }
    v
}

pub fn judge(c: &Case17) -> Vec<(String, String)> {
    let mut out: Vec<(String, String)> = Vec::new();
    match c {
        Case17::Variant { ty, label } => {
            let v = variant_of(ty, label);
            for (k, w) in check_variant(&v) {
                out.push((format!("serde|{}|{}", k, if label.len() < 40 { label.as_str() } else { "" }), w));
            }
        }
        Case17::RefValue { value } => {
            let x = Ref::from_str(value).expect("harness ref");
            for (k, w) in check_variant(&Variant::Ref(x)) {
                out.push((format!("serde|{}|{}", k, value), w));
            }
        }
        Case17::ContentObject { value } => {
            let x = Ref::from_str(value).expect("harness ref");
            for (k, w) in check_variant(&Variant::Content(Content::from_referent(x))) {
                out.push((format!("serde|{}|object:{}", k, value), w));
            }
        }
        Case17::Shared { hex } => {
            let bytes: Vec<u8> = (0..hex.len() / 2).map(|i| u8::from_str_radix(&hex[2 * i..2 * i + 2], 16).unwrap()).collect();
            for (k, w) in check_variant(&Variant::SharedString(SharedString::new(bytes))) {
                out.push((format!("serde|{}|{}", k, hex.chars().take(16).collect::<String>()), w));
            }
        }
        Case17::BrickRange { start, end } => {
            for n in *start..*end {
                let n = n as u16;
                if let Some(b) = BrickColor::from_number(n) {
                    if b as u16 != n {
                        out.push(("brickcolor|number".into(), format!("from_number({}) has number {}", n, b as u16)));
                    }
                    let name = b.to_string();
                    match BrickColor::from_name(&name) {
                        // Roblox's own table contains duplicate names (e.g. "Lilac"):
                        // the name must lead back to a colour of the same name
                        Some(b2) if b2 == b || b2.to_string() == name => {}
                        other => out.push(("brickcolor|name".into(), format!("from_name({:?}) of number {} gives {:?}", name, n, other.map(|x| x as u16)))),
                    }
                    for (k, w) in check_variant(&Variant::BrickColor(b)) {
                        out.push((format!("serde|{}|{}", k, n), w));
                    }
                    let _: Color3uint8 = b.to_color3uint8();
                }
            }
        }
        Case17::BitSets => {
            for bits in 0..=255u8 {
                match Faces::from_bits(bits) {
                    Some(f) => {
                        if bits >= 64 || f.bits() != bits {
                            out.push(("faces|bits".into(), format!("Faces::from_bits({}) -> bits {}", bits, f.bits())));
                        }
                    }
                    None => {
                        if bits < 64 {
                            out.push(("faces|bits".into(), format!("Faces::from_bits({}) is None", bits)));
                        }
                    }
                }
                match Axes::from_bits(bits) {
                    Some(a) => {
                        if bits >= 8 || a.bits() != bits {
                            out.push(("axes|bits".into(), format!("Axes::from_bits({}) -> bits {}", bits, a.bits())));
                        }
                    }
                    None => {
                        if bits < 8 {
                            out.push(("axes|bits".into(), format!("Axes::from_bits({}) is None", bits)));
                        }
                    }
                }
            }
        }
        Case17::RefText { value } => {
            let n = u128::from_str_radix(value, 16).unwrap();
            let x = Ref::from_str(value).expect("harness ref");
            let text = x.to_string();
            match Ref::from_str(&text) {
                Ok(y) if y == x => {}
                other => out.push((format!("ref-text|{}", value), format!("Ref {} prints {:?} which parses to {:?}", value, text, other))),
            }
            if u128::from_str_radix(&text, 16).ok() != Some(n) || text.len() != 32 {
                out.push((format!("ref-text-form|{}", value), format!("Ref {} prints {:?}", value, text)));
            }
        }
        Case17::UniqueIdText { index, time, random } => {
            let u = UniqueId::new(*index, *time, *random);
            let text = u.to_string();
            match UniqueId::from_str(&text) {
                Ok(y) if y == u => {}
                Ok(y) => out.push(("uniqueid-text|value".into(), format!("UniqueId({},{},{}) prints {:?} which parses to ({},{},{})", index, time, random, text, y.index(), y.time(), y.random()))),
                Err(e) => out.push((format!("uniqueid-text|err|{}", if *random < 0 { "negative-random" } else { "nonneg-random" }), format!("UniqueId({},{},{}) prints {:?} which does not parse: {}", index, time, random, text, e))),
            }
        }
        Case17::TagsList { tags } => {
            let mut t = Tags::new();
            for s in tags {
                t.push(s);
            }
            let enc = t.encode();
            match Tags::decode(&enc) {
                Ok(back) => {
                    let a: Vec<&str> = back.iter().collect();
                    let b: Vec<&str> = t.iter().collect();
                    if a != b {
                        out.push(("tags|roundtrip".into(), format!("Tags {:?} encode/decode to {:?}", b, a)));
                    }
                }
                Err(e) => out.push(("tags|decode-err".into(), format!("Tags {:?}: {}", tags, e))),
            }
            for (k, w) in check_variant(&Variant::Tags(t)) {
                out.push((format!("serde|{}|{:?}", k, tags), w));
            }
        }
        Case17::Material { index, rgb } => {
            let mats = materials();
            let m = mats[*index];
            let mut mc = MaterialColors::new();
            mc.set_color(m, Color3uint8::new(rgb.0, rgb.1, rgb.2));
            let enc = mc.encode();
            match MaterialColors::decode(&enc) {
                Ok(back) => {
                    // (structural equality differs: decode populates every material)
                    if back.encode() != enc || back.get_color(m) != Color3uint8::new(rgb.0, rgb.1, rgb.2) {
                        out.push(("materialcolors|roundtrip".into(), format!("MaterialColors with {:?}={:?} encodes/decodes differently", m, rgb)));
                    }
                    for other in &mats {
                        if *other != m && back.get_color(*other) != MaterialColors::new().get_color(*other) {
                            out.push(("materialcolors|bystander".into(), format!("setting {:?} changed {:?}", m, other)));
                        }
                    }
                }
                Err(e) => out.push(("materialcolors|decode-err".into(), format!("{:?}: {}", m, e))),
            }
            for (k, w) in check_variant(&Variant::MaterialColors(mc)) {
                out.push((format!("serde|{}|{:?}", k, m), w));
            }
        }
        Case17::Nested { ty, label } => {
            let v = variant_of(ty, label);
            let mut wrapped: Vec<(&str, Variant)> = Vec::new();
            wrapped.push(("attributes-1", Variant::Attributes(rbx_types::Attributes::new().with("k", v.clone()))));
            wrapped.push(("attributes-2", Variant::Attributes(rbx_types::Attributes::new().with("a", Variant::Bool(true)).with("k", v.clone()).with("z", Variant::String("s".into())))));
            wrapped.push(("attributes-nested", Variant::Attributes(rbx_types::Attributes::new().with("outer", Variant::Attributes(rbx_types::Attributes::new().with("k", v.clone()))))));
            // attribute names of any length and content are ordinary map keys
            for (how, key) in [("attributes-key-empty", String::new()), ("attributes-key-100", "n".repeat(100)), ("attributes-key-101", "n".repeat(101)), ("attributes-key-multibyte-102", "\u{20ac}".repeat(34)), ("attributes-key-4097", "k".repeat(4097)), ("attributes-key-odd", " \"\\\u{0}\u{85}\n".to_owned())] {
                if label == "nan" || ty != "Int32" && how != "attributes-key-101" {
                    continue;
                }
                wrapped.push((how, Variant::Attributes(rbx_types::Attributes::new().with(key, v.clone()))));
            }
            if let Variant::CFrame(c) = &v {
                wrapped.push(("optional-cframe", Variant::OptionalCFrame(Some(*c))));
            }
            for (how, w) in wrapped {
                for (k, what) in check_variant(&w) {
                    out.push((format!("serde-nested|{}|{}|{}|{}", how, ty, k, if label.len() < 40 { label.as_str() } else { "" }), what));
                }
            }
        }
        Case17::TagsBlobs { len } => {
            // NUL, ASCII, the two bytes of "é" (valid only as a pair), a lone invalid byte
            let alpha = [0u8, b'a', b' ', 0xC3, 0xA9, 0xFF];
            let mut idx = vec![0usize; *len];
            loop {
                let blob: Vec<u8> = idx.iter().map(|i| alpha[*i]).collect();
                let segs: Vec<&[u8]> = blob.split(|b| *b == 0).filter(|s| !s.is_empty()).collect();
                let valid = segs.iter().all(|s| std::str::from_utf8(s).is_ok());
                match Tags::decode(&blob) {
                    Ok(t) => {
                        let got: Vec<&[u8]> = t.iter().map(|s| s.as_bytes()).collect();
                        if !valid {
                            out.push(("tags-blob|accepts-invalid".into(), format!("Tags::decode({:02x?}) accepted bytes that are not UTF-8", blob)));
                        } else if got != segs {
                            out.push(("tags-blob|members".into(), format!("Tags::decode({:02x?}) has members {:02x?}, the blob lists {:02x?}", blob, got, segs)));
                        } else {
                            let want: Vec<u8> = segs.join(&0u8);
                            let enc = t.encode();
                            if enc != want {
                                out.push(("tags-blob|reencode".into(), format!("blob {:02x?} decodes and re-encodes to {:02x?} (its tags joined by NUL are {:02x?})", blob, enc, want)));
                            }
                        }
                    }
                    Err(_) => {
                        if valid {
                            out.push(("tags-blob|rejects-valid".into(), format!("Tags::decode({:02x?}) fails on valid UTF-8 tags", blob)));
                        }
                    }
                }
                let mut k = 0;
                while k < *len {
                    idx[k] += 1;
                    if idx[k] < alpha.len() {
                        break;
                    }
                    idx[k] = 0;
                    k += 1;
                }
                if k == *len {
                    break;
                }
            }
        }
        Case17::MaterialBlob { len } => {
            let fills: Vec<Box<dyn Fn(usize) -> u8>> = vec![
                Box::new(|_| 0u8),
                Box::new(|_| 0xFFu8),
                Box::new(|i| (i as u8).wrapping_mul(3).wrapping_add(1)),
                Box::new(|i| if i < 6 { 0 } else { 255 - i as u8 }),
            ];
            for (fi, f) in fills.iter().enumerate() {
                let blob: Vec<u8> = (0..*len).map(|i| f(i)).collect();
                if let Ok(mc) = MaterialColors::decode(&blob) {
                    let enc = mc.encode();
                    // docs/binary-strings.md: the two reserved rows are written as zero
                    let mut want = blob.clone();
                    for b in want.iter_mut().take(6) {
                        *b = 0;
                    }
                    if enc != want {
                        out.push((
                            format!("materialcolors-blob|reencode|{}", if *len == 69 { "len69" } else { "other-length" }),
                            format!("a {}-byte blob (filling {}) is accepted and re-encodes to {} bytes{}", len, fi, enc.len(), if enc.len() == want.len() { " with different colours" } else { "" }),
                        ));
                    }
                    for (i, m) in materials().iter().enumerate() {
                        let o = 6 + 3 * i;
                        if o + 2 < blob.len() && mc.get_color(*m) != Color3uint8::new(blob[o], blob[o + 1], blob[o + 2]) {
                            out.push(("materialcolors-blob|colour".into(), format!("blob filling {}: {:?} is {:?}, the blob says {:?}", fi, m, mc.get_color(*m), &blob[o..o + 3])));
                        }
                    }
                } else if *len == 69 {
                    out.push(("materialcolors-blob|rejects-69".into(), format!("a 69-byte blob (filling {}) is rejected", fi)));
                }
            }
        }
        Case17::LuaSample { name } => {
            let all = lua_samples();
            let entry = &all[name];
            let value = &entry["value"];
            let ty = entry["ty"].as_str().unwrap_or("");
            let text = serde_json::to_string(value).unwrap();
            let decoders: Vec<(&str, Result<Variant, String>)> = vec![
                ("from_str", serde_json::from_str::<Variant>(&text).map_err(|e| e.to_string())),
                ("from_reader", serde_json::from_reader::<_, Variant>(text.as_bytes()).map_err(|e| e.to_string())),
                ("from_value", serde_json::from_value::<Variant>(value.clone()).map_err(|e| e.to_string())),
            ];
            for (entry_pt, res) in decoders {
                match res {
                    Err(e) => out.push((format!("lua|{}|decode-err|{}", entry_pt, name), format!("allValues.json sample {} does not decode via {}: {}", name, entry_pt, e))),
                    Ok(v) => {
                        if format!("{:?}", v.ty()) != ty {
                            out.push((format!("lua|type|{}", name), format!("sample {} decodes to {:?}, stated type {}", name, v.ty(), ty)));
                        }
                        match serde_json::to_value(&v) {
                            Ok(back) if &back == value => {}
                            Ok(back) => out.push((format!("lua|reencode|{}", name), format!("sample {} re-encodes to {} instead of {}", name, back, value))),
                            Err(e) => out.push((format!("lua|reencode-err|{}", name), format!("sample {}: {}", name, e))),
                        }
                    }
                }
            }
        }
    }
    out
}

pub fn materials() -> Vec<TerrainMaterials> {
    use TerrainMaterials::*;
    vec![
        Grass, Slate, Concrete, Brick, Sand, WoodPlanks, Rock, Glacier, Snow, Sandstone, Mud, Basalt, Ground, CrackedLava,
        Asphalt, Cobblestone, Ice, LeafyGrass, Salt, Limestone, Pavement,
    ]
}

pub fn lua_samples() -> BTreeMap<String, Value> {
    let text = std::fs::read_to_string("/repo/rbx_dom_lua/src/allValues.json")
        .unwrap_or_else(|e| crate::evidence::machinery_failure(&format!("cannot read allValues.json: {}", e)));
    let v: Value = serde_json::from_str(&text).unwrap_or_else(|e| crate::evidence::machinery_failure(&format!("allValues.json: {}", e)));
    v.as_object().unwrap().iter().map(|(k, v)| (k.clone(), v.clone())).collect()
}

pub fn cases() -> Vec<Case17> {
    let mut out = Vec::new();
    for t in all_types() {
        for (l, _) in alphabet_ext(t) {
            out.push(Case17::Variant { ty: crate::vals::type_name(t), label: l });
        }
    }
    for t in all_types() {
        for (l, _) in alphabet_ext(t) {
            out.push(Case17::Nested { ty: crate::vals::type_name(t), label: l });
        }
    }
    for v in ref_values() {
        out.push(Case17::RefValue { value: format!("{:032x}", v) });
        out.push(Case17::RefText { value: format!("{:032x}", v) });
    }
    for v in [0u128, 1, u128::MAX] {
        out.push(Case17::ContentObject { value: format!("{:032x}", v) });
    }
    for (_, b) in crate::vals::bytes_alphabet(true) {
        out.push(Case17::Shared { hex: b.iter().map(|x| format!("{:02x}", x)).collect() });
    }
    for s in 0..64u32 {
        out.push(Case17::BrickRange { start: s * 1024, end: (s + 1) * 1024 });
    }
    out.push(Case17::BitSets);
    for idx in [0u32, 1, 0x7fffffff, 0x80000000, u32::MAX] {
        for t in [0u32, 1, u32::MAX] {
            for rnd in [0i64, 1, -1, i64::MAX, i64::MIN, 0x0123456789abcdef, -0x0123456789abcdef] {
                out.push(Case17::UniqueIdText { index: idx, time: t, random: rnd });
            }
        }
    }
    let tagw = ["a", "b c", "é"];
    out.push(Case17::TagsList { tags: vec![] });
    for a in tagw {
        out.push(Case17::TagsList { tags: vec![a.into()] });
        for b in tagw {
            out.push(Case17::TagsList { tags: vec![a.into(), b.into()] });
            for c in tagw {
                out.push(Case17::TagsList { tags: vec![a.into(), b.into(), c.into()] });
            }
        }
    }
    for i in 0..materials().len() {
        for rgb in [(0u8, 0u8, 0u8), (255, 255, 255), (1, 2, 3)] {
            out.push(Case17::Material { index: i, rgb });
        }
    }
    for len in 0..=6 {
        out.push(Case17::TagsBlobs { len });
    }
    for len in 0..=300 {
        out.push(Case17::MaterialBlob { len });
    }
    for name in lua_samples().keys() {
        out.push(Case17::LuaSample { name: name.clone() });
    }
    out
}

pub fn check(run: &Run) -> Value {
    let cs = cases();
    let seed = run.seed;
    let total: SweepOut = run_cases(&cs, &|i, c, out| {
        out.nontrivial += 1;
        out.executions += 1;
        let vs = judge(c);
        out.outcome(if vs.is_empty() { "ok" } else { "violation" });
        for (k, w) in vs {
            out.violation(k, w, || serde_json::to_value(c).unwrap());
        }
        if out.samples.len() < 2 && (i as u64 + seed) % 211 == 5 {
            out.samples.push(serde_json::to_string(c).unwrap());
        }
    });
    total.report(run);
    println!("C17 sweep: cases={} outcomes={:?}", total.cases, total.outcomes);
    json!({
        "states": total.cases,
        "transitions": total.executions * 9,
        "traces_validated_against_impl": total.executions,
        "evaluations": total.executions,
        "distinct_nontrivial": total.nontrivial,
        "outcomes": total.outcomes,
        "samples": total.samples.iter().map(|s| serde_json::from_str::<Value>(s).unwrap()).collect::<Vec<_>>(),
        "exhaustive": true,
        "exhaustive_subdomains": ["all 65536 u16 BrickColor numbers", "all 256 Faces and Axes bit sets", "every entry of rbx_dom_lua/src/allValues.json"],
        "rule": "every alphabet value of every Variant type, bare and wrapped in Attributes maps (one entry, three entries, a map inside a map) and OptionalCFrame, against serde's length contract (a counting serializer, both is_human_readable answers) and through serde_json (from_str, from_slice, from_reader, from_value, pretty text; finite floats), bincode and MessagePack (compact and named); all u16 through BrickColor number/name/serde; all 256 bit sets; Ref Display/FromStr over 0, MAX and every single-bit value; UniqueId Display/FromStr over the boundary product incl. negative random parts; Tags and MaterialColors value -> blob -> value, and blob -> value -> blob for every byte string of length <= 6 over {NUL, 'a', ' ', C3, A9, FF} (Tags) and blobs of every length 0..=300 in four fillings (MaterialColors: an accepted blob must re-encode to itself, reserved rows zeroed); every allValues.json sample decoded through three entry points and re-encoded",
    })
}

pub fn replay(case: &Value) -> Vec<(String, String)> {
    let c: Case17 = serde_json::from_value(case.clone()).unwrap_or_else(|e| crate::evidence::machinery_failure(&format!("bad replay: {}", e)));
    let a = judge(&c);
    let b = judge(&c);
    if a != b {
        crate::evidence::machinery_failure("replay gave two different observations");
    }
    a
}
