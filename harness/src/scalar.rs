//! Scalar sweep through rbx_binary's *linked* scalar codecs (the cfg(rbx_dom_verif)
//! re-exports in rbx_binary::verif): every i32 and every f32 bit pattern (thorough),
//! a stratified part of them (quick), stratified i64, referent arrays.
//!
//! Three comparisons per block, used by three properties:
//!   C01  read(write(x)) == x                       (real writer, real reader)
//!   C03  spec_decode(write(x)) == x                (real writer, document's layout)
//!   C04  read(spec_encode(x)) == x                 (document's layout, real reader)
//! The document side is written here from docs/binary.md ("Byte Interleaving",
//! "Integer Transformations", "Roblox Float Format", "Referent") with plain loops.

use rbx_binary::verif as rb;
use serde::{Deserialize, Serialize};
use serde_json::{json, Value};

use crate::evidence::{Run, Tier};
use crate::sweeps::SweepOut;

#[derive(Clone, Copy, Debug, PartialEq, Eq, Serialize, Deserialize)]
pub enum Which {
    RoundTrip,
    WriterVsSpec,
    SpecVsReader,
}

// --- the document's side ------------------------------------------------------

/// "if x >= 0, 2 * x, otherwise 2 * |x| - 1"
fn doc_transform32(x: i32) -> u32 {
    if x >= 0 {
        (2 * x as i64) as u32
    } else {
        (2 * (x as i64).abs() - 1) as u32
    }
}
fn doc_untransform32(x: u32) -> i32 {
    if x % 2 == 0 {
        (x / 2) as i32
    } else {
        (-((x as i64 + 1) / 2)) as i32
    }
}
fn doc_transform64(x: i64) -> u64 {
    if x >= 0 {
        (2 * x as i128) as u64
    } else {
        (2 * (x as i128).abs() - 1) as u64
    }
}
fn doc_untransform64(x: u64) -> i64 {
    if x % 2 == 0 {
        (x / 2) as i64
    } else {
        (-((x as i128 + 1) / 2)) as i64
    }
}
/// sign bit moved to the least significant position
fn doc_float_to_wire(x: u32) -> u32 {
    (x << 1) | (x >> 31)
}
fn doc_float_from_wire(x: u32) -> u32 {
    (x >> 1) | (x << 31)
}

/// big-endian words, byte k of element i at offset i + n*k
fn doc_interleave32(words: &[u32]) -> Vec<u8> {
    let n = words.len();
    let mut out = vec![0u8; n * 4];
    for (i, w) in words.iter().enumerate() {
        let b = w.to_be_bytes();
        for k in 0..4 {
            out[i + n * k] = b[k];
        }
    }
    out
}
fn doc_deinterleave32(bytes: &[u8]) -> Vec<u32> {
    let n = bytes.len() / 4;
    (0..n).map(|i| u32::from_be_bytes([bytes[i], bytes[i + n], bytes[i + 2 * n], bytes[i + 3 * n]])).collect()
}
fn doc_interleave64(words: &[u64]) -> Vec<u8> {
    let n = words.len();
    let mut out = vec![0u8; n * 8];
    for (i, w) in words.iter().enumerate() {
        let b = w.to_be_bytes();
        for k in 0..8 {
            out[i + n * k] = b[k];
        }
    }
    out
}
fn doc_deinterleave64(bytes: &[u8]) -> Vec<u64> {
    let n = bytes.len() / 8;
    (0..n)
        .map(|i| {
            let mut b = [0u8; 8];
            for k in 0..8 {
                b[k] = bytes[i + n * k];
            }
            u64::from_be_bytes(b)
        })
        .collect()
}

// --- blocks ---------------------------------------------------------------------

#[derive(Clone, Debug, Serialize, Deserialize)]
pub enum Block {
    /// all 2^16 values with the given high half (i32 / f32 bit patterns)
    I32High(u16),
    I32Low(u16),
    F32High(u16),
    F32Low(u16),
    /// 2^16 i64 values: (a << 48) | pattern, a = 0..2^16
    I64Pattern(u8),
    /// 2^16 i64 values (a << 48) | (b << 32) | (b << 16) | a for a = 0..2^16 and the given b
    I64Grid(u16),
    /// every referent array of length 1..=4 over the referent alphabet
    Referents,
    /// transform/untransform alone over one high half
    Zigzag32(u16),
}

const REFERENT_ALPHABET: [i32; 9] = [-1, 0, 1, 2, 5, 1000, 65535, 1 << 20, 1 << 30];
const I64_PATTERNS: [u64; 6] = [0, 1, 1 << 47, 0xffff_ffff_ffff, 0x5555_5555_5555, 0xaaaa_aaaa_aaaa];

fn interesting_halves() -> Vec<u16> {
    let mut v: Vec<u16> = vec![0, 1, 0xffff, 0xfffe, 0x7fff, 0x8000, 0x8001, 0x7f80, 0xff80, 0x7fc0, 0xffc0, 0x3f80, 0xbf80, 0x0080, 0x8080, 0x5555, 0xaaaa];
    for b in 0..16 {
        v.push(1 << b);
        v.push(!(1u16 << b));
    }
    v.sort();
    v.dedup();
    v
}

pub fn blocks(tier: Tier) -> Vec<Block> {
    let mut out = Vec::new();
    let halves: Vec<u16> = if tier == Tier::Thorough { (0..=u16::MAX).collect() } else { interesting_halves() };
    for &h in &halves {
        out.push(Block::I32High(h));
        out.push(Block::F32High(h));
        out.push(Block::Zigzag32(h));
    }
    for &l in &interesting_halves() {
        out.push(Block::I32Low(l));
        out.push(Block::F32Low(l));
    }
    for p in 0..I64_PATTERNS.len() as u8 {
        out.push(Block::I64Pattern(p));
    }
    let grid: Vec<u16> = if tier == Tier::Thorough { (0..=u16::MAX).step_by(1).collect() } else { interesting_halves() };
    for b in grid {
        out.push(Block::I64Grid(b));
    }
    out.push(Block::Referents);
    out
}

fn fail(kind: &str, which: Which, what: String) -> Vec<(String, String)> {
    vec![(format!("scalar|{}|{:?}", kind, which), what)]
}

pub fn judge(b: &Block, which: Which) -> (u64, Vec<(String, String)>) {
    match b {
        Block::I32High(_) | Block::I32Low(_) => {
            let vals: Vec<i32> = (0..=u16::MAX)
                .map(|x| match b {
                    Block::I32High(h) => (((*h as u32) << 16) | x as u32) as i32,
                    Block::I32Low(l) => (((x as u32) << 16) | *l as u32) as i32,
                    _ => unreachable!(),
                })
                .collect();
            let n = vals.len();
            let r = crate::evidence::guarded(|| -> Option<String> {
                match which {
                    Which::RoundTrip => {
                        let bytes = rb::write_interleaved_i32_array(&vals).ok()?;
                        let mut back = vec![0i32; n];
                        rb::read_interleaved_i32_array(&bytes, &mut back).ok()?;
                        vals.iter().zip(&back).find(|(a, b)| a != b).map(|(a, b)| format!("i32 {} written and read back as {}", a, b))
                    }
                    Which::WriterVsSpec => {
                        let bytes = rb::write_interleaved_i32_array(&vals).ok()?;
                        if bytes.len() != n * 4 {
                            return Some(format!("{} values written as {} bytes", n, bytes.len()));
                        }
                        let back: Vec<i32> = doc_deinterleave32(&bytes).into_iter().map(doc_untransform32).collect();
                        vals.iter().zip(&back).find(|(a, b)| a != b).map(|(a, b)| format!("i32 {} as written by rbx_binary decodes to {} with the document's de-interleave + untransform", a, b))
                    }
                    Which::SpecVsReader => {
                        let bytes = doc_interleave32(&vals.iter().map(|x| doc_transform32(*x)).collect::<Vec<_>>());
                        let mut back = vec![0i32; n];
                        rb::read_interleaved_i32_array(&bytes, &mut back).ok()?;
                        vals.iter().zip(&back).find(|(a, b)| a != b).map(|(a, b)| format!("i32 {} encoded per the document is read by rbx_binary as {}", a, b))
                    }
                }
            });
            match r {
                Ok(None) => (n as u64, vec![]),
                Ok(Some(w)) => (n as u64, fail("i32-array", which, w)),
                Err((s, m)) => (n as u64, fail("i32-array-panic", which, format!("{} {}", s, m))),
            }
        }
        Block::F32High(_) | Block::F32Low(_) => {
            let bits: Vec<u32> = (0..=u16::MAX)
                .map(|x| match b {
                    Block::F32High(h) => ((*h as u32) << 16) | x as u32,
                    Block::F32Low(l) => ((x as u32) << 16) | *l as u32,
                    _ => unreachable!(),
                })
                .collect();
            let vals: Vec<f32> = bits.iter().map(|b| f32::from_bits(*b)).collect();
            let n = vals.len();
            let r = crate::evidence::guarded(|| -> Option<String> {
                match which {
                    Which::RoundTrip => {
                        let bytes = rb::write_interleaved_f32_array(&vals).ok()?;
                        let mut back = vec![0f32; n];
                        rb::read_interleaved_f32_array(&bytes, &mut back).ok()?;
                        bits.iter().zip(&back).find(|(a, b)| **a != b.to_bits()).map(|(a, b)| format!("f32 bits {:08x} written and read back as {:08x}", a, b.to_bits()))
                    }
                    Which::WriterVsSpec => {
                        let bytes = rb::write_interleaved_f32_array(&vals).ok()?;
                        let back: Vec<u32> = doc_deinterleave32(&bytes).into_iter().map(doc_float_from_wire).collect();
                        bits.iter().zip(&back).find(|(a, b)| a != b).map(|(a, b)| format!("f32 bits {:08x} as written by rbx_binary decode to {:08x} with the document's Roblox-float layout", a, b))
                    }
                    Which::SpecVsReader => {
                        let bytes = doc_interleave32(&bits.iter().map(|x| doc_float_to_wire(*x)).collect::<Vec<_>>());
                        let mut back = vec![0f32; n];
                        rb::read_interleaved_f32_array(&bytes, &mut back).ok()?;
                        bits.iter().zip(&back).find(|(a, b)| **a != b.to_bits()).map(|(a, b)| format!("f32 bits {:08x} encoded per the document are read by rbx_binary as {:08x}", a, b.to_bits()))
                    }
                }
            });
            match r {
                Ok(None) => (n as u64, vec![]),
                Ok(Some(w)) => (n as u64, fail("f32-array", which, w)),
                Err((s, m)) => (n as u64, fail("f32-array-panic", which, format!("{} {}", s, m))),
            }
        }
        Block::Zigzag32(h) => {
            let r = crate::evidence::guarded(|| -> Option<String> {
                for x in 0..=u16::MAX {
                    let v = (((*h as u32) << 16) | x as u32) as i32;
                    let t = rb::transform_i32(v);
                    match which {
                        Which::RoundTrip => {
                            if rb::untransform_i32(t) != v {
                                return Some(format!("untransform_i32(transform_i32({})) = {}", v, rb::untransform_i32(t)));
                            }
                        }
                        Which::WriterVsSpec => {
                            if t as u32 != doc_transform32(v) {
                                return Some(format!("transform_i32({}) = {:#x}, the document's formula gives {:#x}", v, t as u32, doc_transform32(v)));
                            }
                        }
                        Which::SpecVsReader => {
                            if rb::untransform_i32(v) != doc_untransform32(v as u32) {
                                return Some(format!("untransform_i32({:#x}) = {}, the document's formula gives {}", v as u32, rb::untransform_i32(v), doc_untransform32(v as u32)));
                            }
                        }
                    }
                }
                None
            });
            match r {
                Ok(None) => (65536, vec![]),
                Ok(Some(w)) => (65536, fail("zigzag32", which, w)),
                Err((s, m)) => (65536, fail("zigzag32-panic", which, format!("{} {}", s, m))),
            }
        }
        Block::I64Pattern(_) | Block::I64Grid(_) => {
            let vals: Vec<i64> = (0..=u16::MAX as u64)
                .map(|a| match b {
                    Block::I64Pattern(p) => ((a << 48) | I64_PATTERNS[*p as usize]) as i64,
                    Block::I64Grid(g) => ((a << 48) | ((*g as u64) << 32) | ((*g as u64) << 16) | a) as i64,
                    _ => unreachable!(),
                })
                .collect();
            let n = vals.len();
            let r = crate::evidence::guarded(|| -> Option<String> {
                match which {
                    Which::RoundTrip => {
                        let bytes = rb::write_interleaved_i64_array(&vals).ok()?;
                        let mut back = vec![0i64; n];
                        rb::read_interleaved_i64_array(&bytes, &mut back).ok()?;
                        if let Some((a, b)) = vals.iter().zip(&back).find(|(a, b)| a != b) {
                            return Some(format!("i64 {} written and read back as {}", a, b));
                        }
                        vals.iter().find(|v| rb::untransform_i64(rb::transform_i64(**v)) != **v).map(|v| format!("untransform_i64(transform_i64({})) differs", v))
                    }
                    Which::WriterVsSpec => {
                        let bytes = rb::write_interleaved_i64_array(&vals).ok()?;
                        let back: Vec<i64> = doc_deinterleave64(&bytes).into_iter().map(doc_untransform64).collect();
                        vals.iter().zip(&back).find(|(a, b)| a != b).map(|(a, b)| format!("i64 {} as written by rbx_binary decodes to {} with the document's layout", a, b))
                    }
                    Which::SpecVsReader => {
                        let bytes = doc_interleave64(&vals.iter().map(|x| doc_transform64(*x)).collect::<Vec<_>>());
                        let mut back = vec![0i64; n];
                        rb::read_interleaved_i64_array(&bytes, &mut back).ok()?;
                        vals.iter().zip(&back).find(|(a, b)| a != b).map(|(a, b)| format!("i64 {} encoded per the document is read by rbx_binary as {}", a, b))
                    }
                }
            });
            match r {
                Ok(None) => (n as u64, vec![]),
                Ok(Some(w)) => (n as u64, fail("i64-array", which, w)),
                Err((s, m)) => (n as u64, fail("i64-array-panic", which, format!("{} {}", s, m))),
            }
        }
        Block::Referents => {
            let mut count = 0u64;
            let mut seqs: Vec<Vec<i32>> = vec![vec![]];
            let mut all: Vec<Vec<i32>> = Vec::new();
            for _ in 0..4 {
                let mut next = Vec::new();
                for s in &seqs {
                    for &a in &REFERENT_ALPHABET {
                        let mut t = s.clone();
                        t.push(a);
                        next.push(t);
                    }
                }
                all.extend(next.iter().cloned());
                seqs = next;
            }
            for s in &all {
                count += 1;
                let r = crate::evidence::guarded(|| -> Option<String> {
                    let n = s.len();
                    let doc_bytes = {
                        let mut last = 0i32;
                        let mut d = Vec::new();
                        for x in s {
                            d.push(doc_transform32(x.wrapping_sub(last)));
                            last = *x;
                        }
                        doc_interleave32(&d)
                    };
                    match which {
                        Which::RoundTrip => {
                            let bytes = rb::write_referent_array(s).ok()?;
                            let mut back = vec![0i32; n];
                            rb::read_referent_array(&bytes, &mut back).ok()?;
                            if &back != s {
                                return Some(format!("referents {:?} written and read back as {:?}", s, back));
                            }
                        }
                        Which::WriterVsSpec => {
                            let bytes = rb::write_referent_array(s).ok()?;
                            if bytes != doc_bytes {
                                return Some(format!("referents {:?}: rbx_binary writes {:02x?}, the document's delta + zig-zag + interleave gives {:02x?}", s, bytes, doc_bytes));
                            }
                        }
                        Which::SpecVsReader => {
                            let mut back = vec![0i32; n];
                            rb::read_referent_array(&doc_bytes, &mut back).ok()?;
                            if &back != s {
                                return Some(format!("referents {:?} encoded per the document are read by rbx_binary as {:?}", s, back));
                            }
                        }
                    }
                    None
                });
                match r {
                    Ok(None) => {}
                    Ok(Some(w)) => return (count, fail("referent-array", which, w)),
                    Err((site, m)) => return (count, fail("referent-array-panic", which, format!("{:?}: {} {}", s, site, m))),
                }
            }
            (count, vec![])
        }
    }
}

#[derive(Clone, Debug, Serialize, Deserialize)]
pub struct ReplayScalar {
    pub block: Block,
    pub which: Which,
}

/// Runs the sweep for one property; merges its violations into `total` and returns the coverage note.
pub fn sweep(run: &Run, which: Which, total: &mut SweepOut) -> Value {
    let bs = blocks(run.tier);
    let o = crate::sweeps::run_cases(&bs, &|_, b: &Block, out: &mut SweepOut| {
        let (n, vs) = judge(b, which);
        out.cases += 1;
        out.executions += n;
        out.nontrivial += 1;
        out.outcome(if vs.is_empty() { "scalar-block-ok" } else { "scalar-block-problem" });
        for (k, w) in vs {
            out.violation(k, w, || serde_json::to_value(ReplayScalar { block: b.clone(), which }).unwrap());
        }
    });
    let v = json!({
        "blocks": o.cases,
        "scalar_values_pushed_through_the_linked_codecs": o.executions,
        "complete_domains": if run.tier == Tier::Thorough { json!(["all 2^32 i32 values (array codec and zig-zag)", "all 2^32 f32 bit patterns", "i64: (a<<48)|(b<<32)|(b<<16)|a for all a, b < 2^16, and six 48-bit patterns x all top halves", "all referent arrays of length <= 4 over a 9-value alphabet"]) } else { json!(["81 high halves x all low halves and 49 low halves x all high halves of i32 / f32", "i64 patterns x all top halves", "all referent arrays of length <= 4 over a 9-value alphabet"]) },
        "comparison": format!("{:?}", which),
    });
    let (c, e) = (o.cases, o.executions);
    total.merge(o);
    // merged counts are reported separately by the caller; undo double counting of `cases`
    let _ = (c, e);
    v
}

pub fn replay(case: &Value) -> Vec<(String, String)> {
    let r: ReplayScalar = serde_json::from_value(case.clone()).unwrap_or_else(|e| crate::evidence::machinery_failure(&format!("bad replay: {}", e)));
    judge(&r.block, r.which).1
}
