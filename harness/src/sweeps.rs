//! Sweep drivers for the codec properties: run every case of an enumeration
//! through a judge in forked workers and aggregate violations / coverage.

use std::collections::BTreeMap;

use serde::{Deserialize, Serialize};
use serde_json::{json, Value};

use crate::codec::*;
use crate::evidence::{Run, Tier};
use crate::plan::*;
use crate::vals::{Codec, FloatMode};

#[derive(Serialize, Deserialize, Default)]
pub struct SweepOut {
    pub cases: u64,
    pub executions: u64,
    pub nontrivial: u64,
    pub outcomes: BTreeMap<String, u64>,
    /// key -> (count, what, replay json)
    pub violations: BTreeMap<String, (u64, String, String)>,
    pub samples: Vec<String>,
}

impl SweepOut {
    pub fn merge(&mut self, o: SweepOut) {
        self.cases += o.cases;
        self.executions += o.executions;
        self.nontrivial += o.nontrivial;
        for (k, v) in o.outcomes {
            *self.outcomes.entry(k).or_insert(0) += v;
        }
        for (k, (c, w, r)) in o.violations {
            let e = self.violations.entry(k).or_insert((0, w, r));
            e.0 += c;
        }
        for s in o.samples {
            if self.samples.len() < 4 {
                self.samples.push(s);
            }
        }
    }

    pub fn report(&self, run: &Run) {
        for (key, (count, what, case)) in &self.violations {
            run.violation_n(key, what, *count, || serde_json::from_str(case).unwrap_or(Value::Null));
        }
    }

    pub fn violation(&mut self, key: String, what: String, replay: impl FnOnce() -> Value) {
        let e = self.violations.entry(key).or_insert_with(|| (0, what, replay().to_string()));
        e.0 += 1;
    }

    pub fn outcome(&mut self, k: &str) {
        *self.outcomes.entry(k.to_owned()).or_insert(0) += 1;
    }
}

/// Runs `judge` over all `cases`, sharded over forked worker processes.
pub fn run_cases<C: Sync>(cases: &[C], judge: &(dyn Fn(usize, &C, &mut SweepOut) + Sync)) -> SweepOut {
    let procs = crate::forkpool::default_procs().min((cases.len() / 64).max(1));
    let outs = crate::forkpool::fork_map(procs, |w| {
        let mut out = SweepOut::default();
        for (i, c) in cases.iter().enumerate() {
            if i % procs != w {
                continue;
            }
            out.cases += 1;
            judge(i, c, &mut out);
        }
        out
    });
    let mut total = SweepOut::default();
    for o in outs {
        total.merge(o);
    }
    total
}

fn short(s: &str) -> String {
    if s.len() > 160 {
        format!("{}…({} chars)", &s[..s.char_indices().nth(150).map(|x| x.0).unwrap_or(s.len())], s.len())
    } else {
        s.to_owned()
    }
}

fn diff_what(desc: &CaseDesc, d: &Diff) -> String {
    format!(
        "{} {} at {} {}.{}: expected {} got {} [case {}]",
        d.kind,
        if d.prop.is_empty() { "" } else { "of property" },
        d.path,
        d.class,
        d.prop,
        short(&d.expected),
        short(&d.actual),
        short(&label_of(desc))
    )
}

#[derive(Serialize, Deserialize, Clone, Debug)]
pub struct BinReplay {
    pub desc: CaseDesc,
    pub compression: Compression,
}

#[derive(Serialize, Deserialize, Clone, Debug)]
pub struct XmlReplay {
    pub desc: CaseDesc,
    pub mode: XmlMode,
}

/// Judges one binary round trip; returns (key, what) pairs.
pub fn judge_binary(desc: &CaseDesc, c: Compression) -> (String, Vec<(String, String)>) {
    let plan = build_plan(desc, Codec::Binary);
    let how = how_of(desc);
    let cls = class_of(desc);
    let mut v = Vec::new();
    match binary_roundtrip(&plan, how, c, FloatMode::Exact) {
        Outcome::EncodeErr(e) => {
            // outside the domain ("for which serialization returns Ok")
            return (format!("encode-err:{}", e.chars().take(40).collect::<String>()), v);
        }
        Outcome::EncodePanic(site, msg) => {
            v.push((
                format!("bin|encode-panic|{}", crate::evidence::panic_signature(&site, &msg)),
                format!("binary serializer panicked at {}: {} [case {}]", site, msg, label_of(desc)),
            ));
            ("encode-panic".into(), v)
        }
        Outcome::DecodeErr(e) => {
            let labels = match desc {
                CaseDesc::Value { labels, .. } => labels[0].clone(),
                _ => String::new(),
            };
            v.push((
                format!("bin|{}|decode-err|{}", cls, if labels.len() < 60 { labels } else { String::new() }),
                format!("rbx_binary rejects its own output: {} [case {}]", e, label_of(desc)),
            ));
            ("decode-err".into(), v)
        }
        Outcome::DecodePanic(site, msg) => {
            v.push((
                format!("bin|decode-panic|{}", crate::evidence::panic_signature(&site, &msg)),
                format!("rbx_binary panicked reading its own output at {}: {} [case {}]", site, msg, label_of(desc)),
            ));
            ("decode-panic".into(), v)
        }
        Outcome::Ok { forest, entry_points, .. } => {
            for e in entry_points {
                v.push((format!("bin|entry-points|{}", e.split(' ').next().unwrap_or("")), format!("{} [case {}]", e, label_of(desc))));
            }
            let expected = expected_for(&plan, Codec::Binary, XmlMode::Default, FloatMode::Exact);
            if std::env::var("VERIF_DEBUG").is_ok() {
                println!("expected: {:?}\nread back: {:?}", expected, forest);
            }
            let gain = binary_gain_rule(&plan, FloatMode::Exact);
            let diffs = diff_forest(&expected, &forest, &gain);
            if !diffs.is_empty() {
                let culprits = culprit_labels(desc, &diffs);
                let d = &diffs[0];
                v.push((
                    format!("bin|{}|{}|{}|{}", cls, d.kind, d.prop, culprits),
                    diff_what(desc, d),
                ));
            }
            ("ok".into(), v)
        }
    }
}

pub fn judge_xml(desc: &CaseDesc, mode: XmlMode) -> (String, Vec<(String, String)>) {
    let plan = build_plan(desc, Codec::Xml);
    let how = how_of(desc);
    let cls = class_of(desc);
    let mut v = Vec::new();
    match xml_roundtrip(&plan, how, mode, FloatMode::NanClass) {
        Outcome::EncodeErr(e) => (format!("encode-err:{}", e.chars().take(40).collect::<String>()), v),
        Outcome::EncodePanic(site, msg) => {
            v.push((
                format!("xml|encode-panic|{}", crate::evidence::panic_signature(&site, &msg)),
                format!("XML serializer panicked at {}: {} [case {}, {:?}]", site, msg, label_of(desc), mode),
            ));
            ("encode-panic".into(), v)
        }
        Outcome::DecodeErr(e) => {
            let labels = match desc {
                CaseDesc::Value { labels, .. } => labels[0].clone(),
                _ => String::new(),
            };
            v.push((
                format!("xml|{}|decode-err|{}", cls, if labels.len() < 60 { labels } else { String::new() }),
                format!("rbx_xml rejects its own output: {} [case {}, {:?}]", e, label_of(desc), mode),
            ));
            ("decode-err".into(), v)
        }
        Outcome::DecodePanic(site, msg) => {
            v.push((
                format!("xml|decode-panic|{}", crate::evidence::panic_signature(&site, &msg)),
                format!("rbx_xml panicked reading its own output at {}: {} [case {}]", site, msg, label_of(desc)),
            ));
            ("decode-panic".into(), v)
        }
        Outcome::Ok { forest, entry_points, .. } => {
            for e in entry_points {
                v.push((format!("xml|entry-points|{}", e.split(' ').next().unwrap_or("")), format!("{} [case {}, {:?}]", e, label_of(desc), mode)));
            }
            let expected = expected_for(&plan, Codec::Xml, mode, FloatMode::NanClass);
            let diffs = diff_forest(&expected, &forest, &|_, _, _| false);
            if !diffs.is_empty() {
                let culprits = culprit_labels(desc, &diffs);
                let d = &diffs[0];
                v.push((
                    format!("xml|{}|{}|{}|{}", cls, d.kind, d.prop, culprits),
                    format!("{} [{:?}]", diff_what(desc, d), mode),
                ));
            }
            ("ok".into(), v)
        }
    }
}

pub fn nontrivial(desc: &CaseDesc) -> bool {
    match desc {
        CaseDesc::Value { .. } => true,
        CaseDesc::Topo { parents, .. } => parents.len() >= 1,
        _ => true,
    }
}

pub struct Bounds {
    pub topo_nodes: usize,
    pub topo_classes: u8,
    pub k3: bool,
    pub large: bool,
}

pub fn bounds(tier: Tier) -> Bounds {
    let n = std::env::var("VERIF_TOPO_NODES").ok().and_then(|s| s.parse().ok());
    match tier {
        Tier::Quick => Bounds {
            topo_nodes: n.unwrap_or(3),
            topo_classes: 3,
            k3: true,
            large: true,
        },
        Tier::Thorough => Bounds {
            // binary sweeps (C01, C03): forests of up to 5 nodes (20 M cases, ~9 min); the XML
            // sweeps cap this at 4 in c02_cases (the XML codec is ~4x slower per round trip)
            topo_nodes: n.unwrap_or(5),
            topo_classes: 3,
            k3: true,
            large: true,
        },
    }
}

/// forest shapes whose topology cases are enumerated one shape at a time (sizes above 4)
pub fn c01_late_forests(b: &Bounds) -> Vec<Vec<Option<usize>>> {
    let mut out = Vec::new();
    for n in 5..=b.topo_nodes {
        out.extend(crate::plan::forests(n));
    }
    out
}

pub fn c01_cases(b: &Bounds) -> Vec<CaseDesc> {
    let mut cases = value_cases(Codec::Binary, &crate::vals::binary_types(), b.k3, b.large);
    cases.extend(topo_cases(b.topo_nodes.min(4), b.topo_classes));
    cases.extend(crate::codec::service_topo_cases(b.topo_nodes));
    for l in crate::vals::text_alphabet(b.large) {
        cases.push(CaseDesc::Name { label: l.0 });
    }
    cases.extend(crate::codec::near_name_cases());
    cases.extend(crate::codec::text_cases());
    cases.extend(crate::codec::position_cases(&crate::vals::binary_types()));
    cases.extend(crate::codec::every_class_cases());
    cases.extend(crate::codec::same_name_cases());
    cases.extend(crate::codec::known_and_unknown_ref_cases());
    cases.extend(crate::codec::forbidden_char_cases());
    cases.extend(crate::codec::count_cases());
    for n in [255usize, 256, 257, 300, 1000] {
        cases.push(CaseDesc::Wide { n });
    }
    for d in [50usize, 300] {
        cases.push(CaseDesc::Chain { depth: d });
    }
    for (kind, n) in [("classes", 300usize), ("classes", 4200), ("props", 300), ("props", 4200), ("sstr", 300), ("sstr", 4200), ("instances", 70_000), ("oddnames", 0), ("namelens", 0), ("widetypes", 4100), ("hugeblob", 17_000_000), ("hugeblob", 16_800_000)] {
        cases.push(CaseDesc::Many { kind: kind.to_owned(), n });
    }
    cases
}

pub fn c02_cases(b: &Bounds) -> Vec<CaseDesc> {
    let mut cases = value_cases(Codec::Xml, &crate::vals::xml_types(), b.k3, b.large);
    cases.extend(topo_cases(b.topo_nodes.min(4), b.topo_classes));
    cases.extend(crate::codec::service_topo_cases(b.topo_nodes.min(4)));
    for l in crate::vals::text_alphabet(b.large) {
        cases.push(CaseDesc::Name { label: l.0 });
    }
    cases.extend(crate::codec::near_name_cases());
    cases.extend(crate::codec::text_cases());
    cases.extend(crate::codec::position_cases(&crate::vals::xml_types()));
    cases.extend(crate::codec::every_class_cases());
    cases.extend(crate::codec::same_name_cases());
    cases.extend(crate::codec::known_and_unknown_ref_cases());
    cases.extend(crate::codec::forbidden_char_cases());
    cases.extend(crate::codec::count_cases());
    for d in [1usize, 2, 3, 10, 100, 300] {
        cases.push(CaseDesc::Chain { depth: d });
    }
    for n in [255usize, 256, 257, 300, 1000] {
        cases.push(CaseDesc::Wide { n });
    }
    for (kind, n) in [("classes", 300usize), ("classes", 4200), ("props", 300), ("props", 4200), ("sstr", 300), ("sstr", 4200), ("instances", 70_000), ("oddnames", 0), ("namelens", 0), ("widetypes", 4100), ("hugetext", 17_000_000)] {
        cases.push(CaseDesc::Many { kind: kind.to_owned(), n });
    }
    cases
}

pub fn check_c01(run: &Run) -> Value {
    let b = bounds(run.tier);
    let cases = c01_cases(&b);
    let seed = run.seed;
    let mut total = run_cases(&cases, &|i, desc, out| {
        if nontrivial(desc) {
            out.nontrivial += 1;
        }
        for c in Compression::all() {
            out.executions += 1;
            let (o, vs) = judge_binary(desc, c);
            out.outcome(if o.starts_with("encode-err") { "encode-err (outside domain)" } else { &o });
            // which part of the enumeration actually went through the codec (a type whose cases
            // are all refused by the writer would otherwise look covered)
            if c == Compression::None {
                out.outcome(&format!("{}:{}", if o == "ok" { "covered" } else { "not-written" }, class_of(desc)));
            }
            for (key, what) in vs {
                out.violation(key, what, || serde_json::to_value(BinReplay { desc: desc.clone(), compression: c }).unwrap());
            }
        }
        if out.samples.len() < 2 && (i as u64 + seed) % 4099 == 7 {
            out.samples.push(serde_json::to_string(desc).unwrap());
        }
    });
    for parents in c01_late_forests(&b) {
        let chunk = crate::codec::topo_cases_for_forest(&parents, b.topo_classes);
        let o = run_cases(&chunk, &|_, desc, out| {
            out.nontrivial += 1;
            for c in Compression::all() {
                out.executions += 1;
                let (o, vs) = judge_binary(desc, c);
                out.outcome(if o.starts_with("encode-err") { "encode-err (outside domain)" } else { &o });
                for (key, what) in vs {
                    out.violation(key, what, || serde_json::to_value(BinReplay { desc: desc.clone(), compression: c }).unwrap());
                }
            }
        });
        total.merge(o);
    }
    let (c0, e0) = (total.cases, total.executions);
    let scalar = crate::scalar::sweep(run, crate::scalar::Which::RoundTrip, &mut total);
    let mixed = crate::mixed::sweep(run, "C01", &mut total);
    total.report(run);
    println!(
        "C01 sweep: cases={} roundtrips={} outcomes={:?} scalar={}",
        c0, e0, total.outcomes, scalar
    );
    json!({
        "scalar_sweep": scalar,
        "mixed_type_columns": mixed,
        "states": total.cases,
        "transitions": total.executions,
        "traces_validated_against_impl": total.executions,
        "evaluations": total.executions,
        "distinct_nontrivial": total.nontrivial,
        "outcomes": total.outcomes,
        "samples": total.samples.iter().map(|s| serde_json::from_str::<Value>(s).unwrap()).collect::<Vec<_>>(),
        "bounds": {"topology_max_nodes": b.topo_nodes, "classes": b.topo_classes, "column_triples": b.k3, "large_blobs": b.large, "compressions": ["Lz4","None","Zstd"]},
        "exhaustive": true,
        "rule": "every case of the bounded enumeration (value alphabets x positions in 1/2/3-instance columns x {unknown class, unknown property, database-known property}; every forest <= N nodes x class assignment x non-overlapping ordered root selection x Ref/Content-object/SharedString placement; name alphabet) is written by rbx_binary under each compression mode, read back and compared bit-exactly with the plan's expected canonical form; a case is distinct by its descriptor",
    })
}

pub fn check_c02(run: &Run) -> Value {
    let b = bounds(run.tier);
    let cases = c02_cases(&b);
    let seed = run.seed;
    let total = run_cases(&cases, &|i, desc, out| {
        if nontrivial(desc) {
            out.nontrivial += 1;
        }
        let modes: &[XmlMode] = match desc {
            CaseDesc::Value { mode: PropMode::Known, .. } => &[XmlMode::Default, XmlMode::Unknown],
            CaseDesc::Value { .. } => &[XmlMode::Unknown, XmlMode::NoReflection],
            _ => &[XmlMode::Unknown, XmlMode::NoReflection, XmlMode::Default],
        };
        for &m in modes {
            out.executions += 1;
            let (o, vs) = judge_xml(desc, m);
            out.outcome(if o.starts_with("encode-err") { "encode-err (outside domain)" } else { &o });
            for (key, what) in vs {
                out.violation(key, what, || serde_json::to_value(XmlReplay { desc: desc.clone(), mode: m }).unwrap());
            }
        }
        if out.samples.len() < 2 && (i as u64 + seed) % 4099 == 7 {
            out.samples.push(serde_json::to_string(desc).unwrap());
        }
    });
    total.report(run);
    println!(
        "C02 sweep: cases={} roundtrips={} outcomes={:?}",
        total.cases, total.executions, total.outcomes
    );
    json!({
        "states": total.cases,
        "transitions": total.executions,
        "traces_validated_against_impl": total.executions,
        "evaluations": total.executions,
        "distinct_nontrivial": total.nontrivial,
        "outcomes": total.outcomes,
        "samples": total.samples.iter().map(|s| serde_json::from_str::<Value>(s).unwrap()).collect::<Vec<_>>(),
        "bounds": {"topology_max_nodes": b.topo_nodes.min(4), "classes": b.topo_classes, "column_triples": b.k3, "large_blobs": b.large, "depths": [1,2,3,10,100,300],
                   "option_pairings": ["default/default", "WriteUnknown/ReadUnknown", "NoReflection/NoReflection"]},
        "exhaustive": true,
        "rule": "every case of the bounded enumeration (as C01, XML type set, text alphabet in names and values, chains to depth 300) is written by rbx_xml and read back under every option pairing that keeps the property; floats compared bit-exactly except NaN (as a class)",
    })
}

pub fn replay_bin(case: &Value) -> Vec<(String, String)> {
    let r: BinReplay = serde_json::from_value(case.clone())
        .unwrap_or_else(|e| crate::evidence::machinery_failure(&format!("bad replay: {}", e)));
    let a = judge_binary(&r.desc, r.compression);
    let b = judge_binary(&r.desc, r.compression);
    println!("outcome: {}", a.0);
    if a.1 != b.1 {
        crate::evidence::machinery_failure("replay gave two different observations");
    }
    a.1
}

pub fn replay_xml(case: &Value) -> Vec<(String, String)> {
    let r: XmlReplay = serde_json::from_value(case.clone())
        .unwrap_or_else(|e| crate::evidence::machinery_failure(&format!("bad replay: {}", e)));
    let a = judge_xml(&r.desc, r.mode);
    let b = judge_xml(&r.desc, r.mode);
    if a.1 != b.1 {
        crate::evidence::machinery_failure("replay gave two different observations");
    }
    a.1
}
