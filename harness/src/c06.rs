//! C06: the binary and the XML encoding of the same database-known DOM decode
//! to equivalent DOMs, and converting between the formats loses nothing.

use std::collections::{BTreeMap, BTreeSet};

use rbx_dom_weak::{InstanceBuilder, WeakDom};
use rbx_types::{Ref, SharedString, Variant, VariantType};
use serde::{Deserialize, Serialize};
use serde_json::{json, Value};

use crate::evidence::{Run, Tier};
use crate::specdb::{self, db, Lookup, Ser};
use crate::sweeps::{run_cases, SweepOut};
use crate::vals::{alphabet, render, Codec, FloatMode};

#[derive(Clone, Debug, Serialize, Deserialize)]
pub enum Case06 {
    /// one instance carrying one property
    Single { class: String, prop: String, value: usize },
    /// one instance carrying every serializable, non-migrating canonical property of the class (value index i mod alphabet)
    AllAtOnce { class: String, i: usize },
    /// two known-class instances with a Ref between them and a SharedString
    Topology { variant: usize },
    /// one instance of `class` whose Ref-typed property `prop` (any spelling) points at 0 = a later sibling,
    /// 1 = an earlier sibling, 2 = itself, 3 = its child
    RefProp { class: String, prop: String, target: u8 },
    /// a value of a narrower numeric type than the property declares (Int32 for Int64, Float32 for
    /// Float64): both crates widen (rbx_xml tests it as `number_widening`), and the widening is
    /// exact, so the two read-backs must still agree. This goes beyond the quantifier's "values of
    /// the declared type" and is restricted to the conversions both crates implement.
    Widen { class: String, prop: String, value: usize },
    /// one instance carrying two properties (any two reachable spellings that are not the same
    /// property); value indices follow `i`
    Pair { class: String, p: String, q: String, i: usize },
    /// three same-class siblings that all carry `prop` (any spelling), with three different values
    /// where the alphabet has them, the middle one nested under the first when `nested`
    Siblings { class: String, prop: String, nested: bool },
    /// one instance carrying a property under its canonical name *and* under an alias, with
    /// different values (both insertion orders): which one counts is the implementation's
    /// choice, but it is one DOM and the two formats must read it back alike
    Two { class: String, alias: String, alias_first: bool },
}

pub fn value_alphabet(ty: VariantType) -> Vec<Variant> {
    match ty {
        VariantType::Ref => vec![Variant::Ref(Ref::none())],
        VariantType::SharedString => vec![
            Variant::SharedString(SharedString::new(b"c06-shared".to_vec())),
            Variant::SharedString(SharedString::new(vec![])),
        ],
        other => alphabet(other, Codec::Xml, false).into_iter().map(|l| l.v).collect(),
    }
}

/// declared (canonical) value type of a reachable property name, if it
/// serializes and does not migrate
pub fn declared_type(class: &str, prop: &str) -> Option<VariantType> {
    match specdb::lookup(class, prop) {
        Lookup::Known(k) => match k.ser {
            Ser::Serializes | Ser::As { .. } => k.canonical_ty.variant_type(),
            _ => None,
        },
        _ => None,
    }
}

fn pick(len: usize, tier: Tier) -> Vec<usize> {
    // every alphabet value in both tiers (the quick tier used to take 4 of them; the whole sweep is ~2 s)
    let _ = tier;
    (0..len).collect()
}

fn props_of(dom: &WeakDom, mode: FloatMode) -> Result<Vec<(String, String, BTreeMap<String, String>)>, String> {
    // pre-order list of (class, name, props) below the root
    let mut index: std::collections::HashMap<Ref, usize> = std::collections::HashMap::new();
    let mut order: Vec<Ref> = Vec::new();
    fn walk(dom: &WeakDom, r: Ref, order: &mut Vec<Ref>) {
        order.push(r);
        if let Some(i) = dom.get_by_ref(r) {
            for &c in i.children() {
                walk(dom, c, order);
            }
        }
    }
    for &c in dom.root().children() {
        walk(dom, c, &mut order);
    }
    for (i, r) in order.iter().enumerate() {
        index.insert(*r, i);
    }
    let resolve = |r: Ref| {
        if r.is_none() {
            "null".to_owned()
        } else {
            index.get(&r).map(|i| format!("#{}", i)).unwrap_or_else(|| "dangling".into())
        }
    };
    let mut out = Vec::new();
    for r in &order {
        let i = dom.get_by_ref(*r).ok_or("missing instance")?;
        let depth_parent = index.get(&i.parent()).map(|p| format!("^{}", p)).unwrap_or_else(|| "^root".into());
        out.push((
            format!("{}{}", i.class, depth_parent),
            i.name.clone(),
            i.properties.iter().map(|(k, v)| (k.to_string(), render(&snapped(v), mode, &resolve))).collect(),
        ));
    }
    Ok(out)
}

/// The binary format's documented normalisation (a rotation within
/// f32::EPSILON of an axis-aligned basis snaps to it, see C01) is applied to
/// both sides, so that it is not reported as a difference between the formats.
fn snapped(v: &Variant) -> Variant {
    use rbx_types::CFrame;
    match v {
        Variant::CFrame(c) => Variant::CFrame(CFrame::new(c.position, crate::vals::snap_rotation(&c.orientation))),
        Variant::OptionalCFrame(Some(c)) => Variant::OptionalCFrame(Some(CFrame::new(c.position, crate::vals::snap_rotation(&c.orientation)))),
        o => o.clone(),
    }
}

type Shape = Vec<(String, String, BTreeMap<String, String>)>;

fn bin_rt(dom: &WeakDom) -> Result<Result<WeakDom, String>, (String, String)> {
    let roots = dom.root().children().to_vec();
    crate::evidence::guarded(|| {
        let mut buf = Vec::new();
        rbx_binary::to_writer(&mut buf, dom, &roots).map_err(|e| format!("encode-err: {}", e))?;
        rbx_binary::from_reader(buf.as_slice()).map_err(|e| format!("decode-err: {}", e))
    })
}

fn xml_rt(dom: &WeakDom) -> Result<Result<WeakDom, String>, (String, String)> {
    let roots = dom.root().children().to_vec();
    crate::evidence::guarded(|| {
        let mut buf = Vec::new();
        rbx_xml::to_writer_default(&mut buf, dom, &roots).map_err(|e| format!("encode-err: {}", e))?;
        rbx_xml::from_reader_default(buf.as_slice()).map_err(|e| format!("decode-err: {}", e))
    })
}

fn first_diff(a: &Shape, b: &Shape) -> Option<String> {
    if a.len() != b.len() {
        return Some(format!("{} instances vs {}", a.len(), b.len()));
    }
    for (x, y) in a.iter().zip(b.iter()) {
        if x.0 != y.0 || x.1 != y.1 {
            return Some(format!("instance {}:{:?} vs {}:{:?}", x.0, x.1, y.0, y.1));
        }
        let keys: BTreeSet<&String> = x.2.keys().chain(y.2.keys()).collect();
        for k in keys {
            if x.2.get(k) != y.2.get(k) {
                return Some(format!(
                    "property {}: {} vs {}",
                    k,
                    x.2.get(k).map(|s| s.chars().take(90).collect::<String>()).unwrap_or_else(|| "absent".into()),
                    y.2.get(k).map(|s| s.chars().take(90).collect::<String>()).unwrap_or_else(|| "absent".into())
                ));
            }
        }
    }
    None
}

/// `set` = canonical names of explicitly set properties (defaults that only the
/// binary format fills in are ignored by restricting the comparison to them).
fn restrict(s: &Shape, set: &BTreeSet<String>) -> Shape {
    s.iter()
        .map(|(c, n, p)| (c.clone(), n.clone(), p.iter().filter(|(k, _)| set.contains(*k)).map(|(k, v)| (k.clone(), v.clone())).collect()))
        .collect()
}

fn judge_dom(dom: &WeakDom, set: &BTreeSet<String>, tag: &str, what: &str) -> Vec<(String, String)> {
    let mut out = Vec::new();
    let b = bin_rt(dom);
    let x = xml_rt(dom);
    let (db_, dx_) = match (b, x) {
        (Err((s, m)), _) => {
            out.push((format!("c06|binary-panic|{}", crate::evidence::panic_signature(&s, &m)), format!("rbx_binary panicked at {}: {} [{}]", s, m, what)));
            return out;
        }
        (_, Err((s, m))) => {
            out.push((format!("c06|xml-panic|{}", crate::evidence::panic_signature(&s, &m)), format!("rbx_xml panicked at {}: {} [{}]", s, m, what)));
            return out;
        }
        (Ok(b), Ok(x)) => (b, x),
    };
    let (db_, dx_) = match (db_, dx_) {
        (Ok(b), Ok(x)) => (b, x),
        (Err(eb), Err(ex)) => {
            // neither format can carry it: nothing to compare
            let _ = (eb, ex);
            return out;
        }
        (Err(e), Ok(_)) => {
            if e.starts_with("decode-err") {
                out.push((format!("c06|binary-rejects-own-output|{}", tag), format!("{} [{}]", e, what)));
            } else {
                out.push((format!("c06|only-xml-can-write|{}", tag), format!("rbx_binary: {} while rbx_xml round-trips it [{}]", e.chars().take(200).collect::<String>(), what)));
            }
            return out;
        }
        (Ok(_), Err(e)) => {
            if e.starts_with("decode-err") {
                out.push((format!("c06|xml-rejects-own-output|{}", tag), format!("{} [{}]", e, what)));
            } else {
                out.push((format!("c06|only-binary-can-write|{}", tag), format!("rbx_xml: {} while rbx_binary round-trips it [{}]", e.chars().take(200).collect::<String>(), what)));
            }
            return out;
        }
    };
    let sb = match props_of(&db_, FloatMode::NanClass) {
        Ok(s) => s,
        Err(e) => {
            out.push((format!("c06|binary-dom|{}", tag), e));
            return out;
        }
    };
    let sx = match props_of(&dx_, FloatMode::NanClass) {
        Ok(s) => s,
        Err(e) => {
            out.push((format!("c06|xml-dom|{}", tag), e));
            return out;
        }
    };
    if std::env::var("VERIF_DEBUG").is_ok() {
        println!("set={:?}\nbinary read-back: {:?}\nxml read-back: {:?}", set, sb, sx);
    }
    // compared on the explicitly set names plus everything the XML read-back shows: rbx_xml fills
    // in no defaults, so whatever it shows was explicitly written (possibly under another canonical
    // name, e.g. Sound.MaxDistance is stored as an alias of RollOffMaxDistance) and binary must agree
    let mut set = set.clone();
    for x in &sx {
        set.extend(x.2.keys().cloned());
    }
    let set = &set;
    if let Some(d) = first_diff(&restrict(&sb, set), &restrict(&sx, set)) {
        out.push((format!("c06|binary-vs-xml|{}", tag), format!("binary and XML read-backs differ: {} [{}]", d, what)));
    }
    // conversion closure: bin -> xml -> read equals the first read; xml -> bin -> read equals the first read
    match xml_rt(&db_) {
        Ok(Ok(d2)) => {
            if let Ok(s2) = props_of(&d2, FloatMode::NanClass) {
                let keys: BTreeSet<String> = sb.iter().flat_map(|x| x.2.keys().cloned()).collect();
                if let Some(d) = first_diff(&restrict(&sb, &keys), &restrict(&s2, &keys)) {
                    out.push((format!("c06|bin-to-xml-loses|{}", tag), format!("converting the binary read-back to XML and back changes it: {} [{}]", d, what)));
                }
            }
        }
        Ok(Err(e)) => out.push((format!("c06|bin-to-xml-fails|{}", tag), format!("the DOM read from binary cannot be converted to XML: {} [{}]", e.chars().take(200).collect::<String>(), what))),
        Err((s, m)) => out.push((format!("c06|xml-panic|{}", crate::evidence::panic_signature(&s, &m)), format!("rbx_xml panicked at {}: {}", s, m))),
    }
    match bin_rt(&dx_) {
        Ok(Ok(d2)) => {
            if let Ok(s2) = props_of(&d2, FloatMode::NanClass) {
                let keys: BTreeSet<String> = sx.iter().flat_map(|x| x.2.keys().cloned()).collect();
                if let Some(d) = first_diff(&restrict(&sx, &keys), &restrict(&s2, &keys)) {
                    out.push((format!("c06|xml-to-bin-loses|{}", tag), format!("converting the XML read-back to binary and back changes it: {} [{}]", d, what)));
                }
            }
        }
        Ok(Err(e)) => out.push((format!("c06|xml-to-bin-fails|{}", tag), format!("the DOM read from XML cannot be converted to binary: {} [{}]", e.chars().take(200).collect::<String>(), what))),
        Err((s, m)) => out.push((format!("c06|binary-panic|{}", crate::evidence::panic_signature(&s, &m)), format!("rbx_binary panicked at {}: {}", s, m))),
    }
    out
}

pub fn canonical_of(class: &str, prop: &str) -> String {
    match specdb::lookup(class, prop) {
        Lookup::Known(k) => k.canonical,
        _ => prop.to_owned(),
    }
}

pub fn judge(c: &Case06) -> Vec<(String, String)> {
    match c {
        Case06::Two { class, alias, alias_first } => {
            let ty = match declared_type(class, alias) {
                Some(t) => t,
                None => return vec![],
            };
            let a = value_alphabet(ty);
            let canonical = canonical_of(class, alias);
            let (v0, v1) = match (a.first(), a.iter().find(|v| Some(*v) != a.first())) {
                (Some(x), Some(y)) => (x.clone(), y.clone()),
                _ => return vec![],
            };
            let mut b = InstanceBuilder::new(class.as_str()).with_name("two");
            if *alias_first {
                b = b.with_property(alias.as_str(), v1).with_property(canonical.as_str(), v0);
            } else {
                b = b.with_property(canonical.as_str(), v0).with_property(alias.as_str(), v1);
            }
            let dom = WeakDom::new(InstanceBuilder::new("DataModel").with_child(b));
            let mut set = BTreeSet::new();
            set.insert(canonical.clone());
            judge_dom(&dom, &set, &format!("{:?}|two-spellings", ty), &format!("{} carrying {} and its alias {} with different values", class, canonical, alias))
        }
        Case06::Single { class, prop, value } => {
            let ty = match declared_type(class, prop) {
                Some(t) => t,
                None => return vec![],
            };
            let a = value_alphabet(ty);
            let v = match a.get(*value) {
                Some(v) => v.clone(),
                None => return vec![],
            };
            let dom = WeakDom::new(InstanceBuilder::new("DataModel").with_child(InstanceBuilder::new(class.as_str()).with_name("s").with_property(prop.as_str(), v)));
            let mut set = BTreeSet::new();
            set.insert(canonical_of(class, prop));
            let spelling = if canonical_of(class, prop) == *prop { "canonical" } else { "alias" };
            judge_dom(&dom, &set, &format!("{:?}|{}", ty, spelling), &format!("{}.{} value #{} of {:?}", class, prop, value, ty))
        }
        Case06::AllAtOnce { class, i } => {
            let mut b = InstanceBuilder::new(class.as_str()).with_name("all");
            let mut set = BTreeSet::new();
            let mut names: BTreeSet<String> = BTreeSet::new();
            if let Some(chain) = specdb::class_chain(class) {
                for cc in chain {
                    for (p, d) in cc.properties.iter() {
                        if matches!(d.kind, rbx_reflection::PropertyKind::Canonical { .. }) {
                            names.insert(p.to_string());
                        }
                    }
                }
            }
            for (ordinal, p) in names.into_iter().enumerate() {
                if p == "UniqueId" || p == "Name" {
                    continue;
                }
                if let Some(ty) = declared_type(class, &p) {
                    // only canonical spellings here, and only where the name is its own canonical
                    if canonical_of(class, &p) != p {
                        continue;
                    }
                    let a = value_alphabet(ty);
                    if a.is_empty() {
                        continue;
                    }
                    // odd rounds give every property another value of its type (two canonical
                    // properties may share one serialized name: equal values would hide a mix-up)
                    let k = if i % 2 == 0 { *i / 2 } else { *i / 2 + ordinal };
                    b = b.with_property(p.as_str(), a[k % a.len()].clone());
                    set.insert(p);
                }
            }
            let dom = WeakDom::new(InstanceBuilder::new("DataModel").with_child(b));
            judge_dom(&dom, &set, "all-at-once", &format!("{} with all properties, value index {}", class, i))
        }
        Case06::Widen { class, prop, value } => {
            let narrow = match declared_type(class, prop) {
                Some(VariantType::Int64) => VariantType::Int32,
                Some(VariantType::Float64) => VariantType::Float32,
                _ => return vec![],
            };
            let a = value_alphabet(narrow);
            let v = match a.get(*value) {
                Some(v) => v.clone(),
                None => return vec![],
            };
            let dom = WeakDom::new(InstanceBuilder::new("DataModel").with_child(InstanceBuilder::new(class.as_str()).with_name("w").with_property(prop.as_str(), v)));
            let mut set = BTreeSet::new();
            set.insert(canonical_of(class, prop));
            judge_dom(&dom, &set, &format!("widen|{:?}", narrow), &format!("{}.{} given value #{} of {:?}", class, prop, value, narrow))
        }
        Case06::Pair { class, p, q, i } => {
            let (tp, tq) = match (declared_type(class, p), declared_type(class, q)) {
                (Some(a), Some(b)) => (a, b),
                _ => return vec![],
            };
            let (cp, cq) = (canonical_of(class, p), canonical_of(class, q));
            if cp == cq || tp == VariantType::Ref || tq == VariantType::Ref {
                return vec![];
            }
            let (ap, aq) = (value_alphabet(tp), value_alphabet(tq));
            if ap.is_empty() || aq.is_empty() {
                return vec![];
            }
            let b = InstanceBuilder::new(class.as_str()).with_name("pair").with_property(p.as_str(), ap[*i % ap.len()].clone()).with_property(q.as_str(), aq[(*i + 1) % aq.len()].clone());
            let dom = WeakDom::new(InstanceBuilder::new("DataModel").with_child(b));
            let set: BTreeSet<String> = [cp, cq].into_iter().collect();
            judge_dom(&dom, &set, &{
                let (a, b) = (format!("{:?}", tp), format!("{:?}", tq));
                if a <= b { format!("pair|{}+{}", a, b) } else { format!("pair|{}+{}", b, a) }
            }, &format!("{} carrying {} and {} (value index {})", class, p, q, i))
        }
        Case06::Siblings { class, prop, nested } => {
            let ty = match declared_type(class, prop) {
                Some(t) if t != VariantType::Ref => t,
                _ => return vec![],
            };
            let a = value_alphabet(ty);
            if a.is_empty() {
                return vec![];
            }
            let mk = |k: usize| InstanceBuilder::new(class.as_str()).with_name(format!("s{}", k)).with_property(prop.as_str(), a[(a.len() - 1 - k % a.len()) % a.len()].clone());
            let dom = if *nested {
                WeakDom::new(InstanceBuilder::new("DataModel").with_child(mk(0).with_child(mk(1))).with_child(mk(2)))
            } else {
                WeakDom::new(InstanceBuilder::new("DataModel").with_child(mk(0)).with_child(mk(1)).with_child(mk(2)))
            };
            let mut set = BTreeSet::new();
            set.insert(canonical_of(class, prop));
            judge_dom(&dom, &set, &format!("siblings|{:?}", ty), &format!("three {} carrying {} with the last three values of {:?}{}", class, prop, ty, if *nested { ", one nested" } else { "" }))
        }
        Case06::RefProp { class, prop, target } => {
            if declared_type(class, prop) != Some(VariantType::Ref) {
                return vec![];
            }
            let x = InstanceBuilder::new(class.as_str()).with_name("x");
            let t = InstanceBuilder::new("Folder").with_name("t");
            let (xr, tr) = (x.referent(), t.referent());
            let dom = match target {
                0 => WeakDom::new(InstanceBuilder::new("DataModel").with_child(x.with_property(prop.as_str(), tr)).with_child(t)),
                1 => WeakDom::new(InstanceBuilder::new("DataModel").with_child(t).with_child(x.with_property(prop.as_str(), tr))),
                2 => WeakDom::new(InstanceBuilder::new("DataModel").with_child(x.with_property(prop.as_str(), xr)).with_child(t)),
                _ => WeakDom::new(InstanceBuilder::new("DataModel").with_child(x.with_property(prop.as_str(), tr).with_child(t))),
            };
            let mut set = BTreeSet::new();
            set.insert(canonical_of(class, prop));
            let spelling = if canonical_of(class, prop) == *prop { "canonical" } else { "alias" };
            let serialized_differs = match specdb::lookup(class, prop) {
                Lookup::Known(k) => matches!(k.ser, Ser::As { .. }),
                _ => false,
            };
            judge_dom(&dom, &set, &format!("ref-target|{}{}", spelling, if serialized_differs { "|serialized-under-other-name" } else { "" }), &format!("{}.{} -> {}", class, prop, ["later sibling", "earlier sibling", "itself", "its child"][*target as usize]))
        }
        Case06::Topology { variant } => {
            // ObjectValue.Value (Ref) and SharedString-typed known property
            let a = InstanceBuilder::new("Model").with_name("a");
            let bb = InstanceBuilder::new("ObjectValue").with_name("b");
            let cc = InstanceBuilder::new("Part").with_name("c");
            let (ar, br, cr) = (a.referent(), bb.referent(), cc.referent());
            let target = match variant % 4 {
                0 => Ref::none(),
                1 => ar,
                2 => br,
                _ => cr,
            };
            let a = a.with_property("PrimaryPart", if variant / 4 % 2 == 0 { cr } else { Ref::none() });
            let bb = bb.with_property("Value", target);
            let dom = if variant / 8 % 2 == 0 {
                WeakDom::new(InstanceBuilder::new("DataModel").with_child(a.with_child(cc)).with_child(bb))
            } else {
                WeakDom::new(InstanceBuilder::new("DataModel").with_child(bb).with_child(a.with_child(cc)))
            };
            let set: BTreeSet<String> = ["PrimaryPart", "Value"].iter().map(|s| s.to_string()).collect();
            judge_dom(&dom, &set, "topology", &format!("Ref topology variant {}", variant))
        }
    }
}

pub fn cases(tier: Tier) -> Vec<Case06> {
    let d = db();
    let mut classes: Vec<String> = d.classes.keys().map(|k| k.to_string()).collect();
    classes.sort();
    let mut out = Vec::new();
    for c in &classes {
        let mut names: BTreeSet<String> = BTreeSet::new();
        if let Some(chain) = specdb::class_chain(c) {
            for cc in chain {
                for p in cc.properties.keys() {
                    names.insert(p.to_string());
                }
            }
        }
        for p in names {
            if p == "UniqueId" || p == "Name" {
                continue;
            }
            if let Some(ty) = declared_type(c, &p) {
                let n = value_alphabet(ty).len();
                for v in pick(n, tier) {
                    out.push(Case06::Single { class: c.clone(), prop: p.clone(), value: v });
                }
            }
        }
        let k = if tier == Tier::Quick { 4 } else { 24 };
        for i in 0..k {
            out.push(Case06::AllAtOnce { class: c.clone(), i });
        }
    }
    for v in 0..16 {
        out.push(Case06::Topology { variant: v });
    }
    // every Ref-typed property spelling of every class with a target inside the file
    let mut extra = Vec::new();
    for c in &out {
        if let Case06::Single { class, prop, value: 0 } = c {
            if declared_type(class, prop) == Some(VariantType::Ref) {
                for target in 0..4u8 {
                    extra.push(Case06::RefProp { class: class.clone(), prop: prop.clone(), target });
                }
            }
        }
    }
    // two spellings of one property on one instance
    for c in &out {
        if let Case06::Single { class, prop, value: 0 } = c {
            if canonical_of(class, prop) != *prop && declared_type(class, prop) != Some(VariantType::Ref) {
                for alias_first in [false, true] {
                    extra.push(Case06::Two { class: class.clone(), alias: prop.clone(), alias_first });
                }
            }
        }
    }
    for c in &out {
        if let Case06::Single { class, prop, value: 0 } = c {
            let narrow = match declared_type(class, prop) {
                Some(VariantType::Int64) => Some(VariantType::Int32),
                Some(VariantType::Float64) => Some(VariantType::Float32),
                _ => None,
            };
            if let Some(n) = narrow {
                for value in 0..value_alphabet(n).len() {
                    extra.push(Case06::Widen { class: class.clone(), prop: prop.clone(), value });
                }
            }
        }
    }
    for c in &out {
        if let Case06::Single { class, prop, value: 0 } = c {
            for nested in [false, true] {
                extra.push(Case06::Siblings { class: class.clone(), prop: prop.clone(), nested });
            }
        }
    }
    // pairs of properties on one instance: quick = every pair in which at least one spelling is
    // declared by the class itself, thorough = every pair of reachable spellings
    for c in &classes {
        let own: BTreeSet<String> = d.classes.get(c.as_str()).map(|cd| cd.properties.keys().map(|k| k.to_string()).collect()).unwrap_or_default();
        let mut names: BTreeSet<String> = BTreeSet::new();
        if let Some(chain) = specdb::class_chain(c) {
            for cc in chain {
                for p in cc.properties.keys() {
                    names.insert(p.to_string());
                }
            }
        }
        let names: Vec<String> = names.into_iter().filter(|p| p != "UniqueId" && p != "Name" && declared_type(c, p).map(|t| t != VariantType::Ref).unwrap_or(false)).collect();
        for (x, p) in names.iter().enumerate() {
            for q in names.iter().skip(x + 1) {
                if tier == Tier::Quick && !(own.contains(p) || own.contains(q)) {
                    continue;
                }
                if canonical_of(c, p) == canonical_of(c, q) {
                    continue;
                }
                extra.push(Case06::Pair { class: c.clone(), p: p.clone(), q: q.clone(), i: x });
            }
        }
    }
    out.extend(extra);
    out
}

pub fn check(run: &Run) -> Value {
    let cs = cases(run.tier);
    let seed = run.seed;
    let total: SweepOut = run_cases(&cs, &|i, c, out| {
        out.nontrivial += 1;
        out.executions += 4;
        let vs = judge(c);
        out.outcome(if vs.is_empty() { "ok" } else { "violation" });
        for (k, w) in vs {
            out.violation(k, w, || serde_json::to_value(c).unwrap());
        }
        if out.samples.len() < 2 && (i as u64 + seed) % 9973 == 17 {
            out.samples.push(serde_json::to_string(c).unwrap());
        }
    });
    total.report(run);
    println!("C06 sweep: cases={} codec-roundtrips={} outcomes={:?}", total.cases, total.executions, total.outcomes);
    json!({
        "states": total.cases,
        "transitions": total.executions,
        "traces_validated_against_impl": total.executions,
        "evaluations": total.executions,
        "distinct_nontrivial": total.nontrivial,
        "outcomes": total.outcomes,
        "samples": total.samples.iter().map(|s| serde_json::from_str::<Value>(s).unwrap()).collect::<Vec<_>>(),
        "exhaustive": true,
        "rule": "every class of the database x every reachable serializable, non-migrating property name (canonical and alias spellings) x alphabet values of its declared type as a single-property instance; all-properties instances per class; every pair of property spellings on one instance (quick: pairs with at least one spelling declared by the class itself; thorough: all reachable pairs); three same-class siblings (flat and nested) carrying each spelling with different values; Ref topologies on known classes. Each DOM is written and read by rbx_binary and by rbx_xml, the two read-backs are compared (NaN as a class, restricted to explicitly set properties), and each read-back is converted to the other format and back",
    })
}

pub fn replay(case: &Value) -> Vec<(String, String)> {
    let c: Case06 = serde_json::from_value(case.clone()).unwrap_or_else(|e| crate::evidence::machinery_failure(&format!("bad replay: {}", e)));
    let a = judge(&c);
    let b = judge(&c);
    if a != b {
        crate::evidence::machinery_failure("replay gave two different observations");
    }
    a
}
