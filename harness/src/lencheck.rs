//! A serde `Serializer` that produces nothing and checks one clause of serde's contract that
//! self-describing text formats never look at: a sequence, tuple, map or struct announced with
//! a length must then hold exactly that many elements. (Length-prefixed formats trust it.)

use serde::ser::{self, Serialize};
use std::fmt;

#[derive(Debug)]
pub struct LenError(pub String);

impl fmt::Display for LenError {
    fn fmt(&self, f: &mut fmt::Formatter<'_>) -> fmt::Result {
        f.write_str(&self.0)
    }
}
impl std::error::Error for LenError {}
impl ser::Error for LenError {
    fn custom<T: fmt::Display>(msg: T) -> Self {
        LenError(msg.to_string())
    }
}

#[derive(Clone, Copy)]
pub struct Checker {
    pub human_readable: bool,
}

pub struct Counted {
    c: Checker,
    what: &'static str,
    announced: Option<usize>,
    seen: usize,
}

impl Counted {
    fn item<T: ?Sized + Serialize>(&mut self, v: &T) -> Result<(), LenError> {
        self.seen += 1;
        v.serialize(self.c)
    }
    fn finish(self) -> Result<(), LenError> {
        match self.announced {
            Some(n) if n != self.seen => Err(LenError(format!("a {} announced with length {} held {} element(s)", self.what, n, self.seen))),
            _ => Ok(()),
        }
    }
}

macro_rules! prim {
    ($($f:ident: $t:ty),*) => { $( fn $f(self, _v: $t) -> Result<(), LenError> { Ok(()) } )* };
}

impl ser::Serializer for Checker {
    type Ok = ();
    type Error = LenError;
    type SerializeSeq = Counted;
    type SerializeTuple = Counted;
    type SerializeTupleStruct = Counted;
    type SerializeTupleVariant = Counted;
    type SerializeMap = Counted;
    type SerializeStruct = Counted;
    type SerializeStructVariant = Counted;

    prim!(serialize_bool: bool, serialize_i8: i8, serialize_i16: i16, serialize_i32: i32, serialize_i64: i64, serialize_u8: u8, serialize_u16: u16, serialize_u32: u32, serialize_u64: u64, serialize_i128: i128, serialize_u128: u128, serialize_f32: f32, serialize_f64: f64, serialize_char: char, serialize_str: &str, serialize_bytes: &[u8]);

    fn serialize_none(self) -> Result<(), LenError> {
        Ok(())
    }
    fn serialize_some<T: ?Sized + Serialize>(self, v: &T) -> Result<(), LenError> {
        v.serialize(self)
    }
    fn serialize_unit(self) -> Result<(), LenError> {
        Ok(())
    }
    fn serialize_unit_struct(self, _n: &'static str) -> Result<(), LenError> {
        Ok(())
    }
    fn serialize_unit_variant(self, _n: &'static str, _i: u32, _v: &'static str) -> Result<(), LenError> {
        Ok(())
    }
    fn serialize_newtype_struct<T: ?Sized + Serialize>(self, _n: &'static str, v: &T) -> Result<(), LenError> {
        v.serialize(self)
    }
    fn serialize_newtype_variant<T: ?Sized + Serialize>(self, _n: &'static str, _i: u32, _v: &'static str, v: &T) -> Result<(), LenError> {
        v.serialize(self)
    }
    fn serialize_seq(self, len: Option<usize>) -> Result<Counted, LenError> {
        Ok(Counted { c: self, what: "sequence", announced: len, seen: 0 })
    }
    fn serialize_tuple(self, len: usize) -> Result<Counted, LenError> {
        Ok(Counted { c: self, what: "tuple", announced: Some(len), seen: 0 })
    }
    fn serialize_tuple_struct(self, _n: &'static str, len: usize) -> Result<Counted, LenError> {
        Ok(Counted { c: self, what: "tuple struct", announced: Some(len), seen: 0 })
    }
    fn serialize_tuple_variant(self, _n: &'static str, _i: u32, _v: &'static str, len: usize) -> Result<Counted, LenError> {
        Ok(Counted { c: self, what: "tuple variant", announced: Some(len), seen: 0 })
    }
    fn serialize_map(self, len: Option<usize>) -> Result<Counted, LenError> {
        Ok(Counted { c: self, what: "map", announced: len, seen: 0 })
    }
    fn serialize_struct(self, _n: &'static str, len: usize) -> Result<Counted, LenError> {
        Ok(Counted { c: self, what: "struct", announced: Some(len), seen: 0 })
    }
    fn serialize_struct_variant(self, _n: &'static str, _i: u32, _v: &'static str, len: usize) -> Result<Counted, LenError> {
        Ok(Counted { c: self, what: "struct variant", announced: Some(len), seen: 0 })
    }
    fn is_human_readable(&self) -> bool {
        self.human_readable
    }
}

impl ser::SerializeSeq for Counted {
    type Ok = ();
    type Error = LenError;
    fn serialize_element<T: ?Sized + Serialize>(&mut self, v: &T) -> Result<(), LenError> {
        self.item(v)
    }
    fn end(self) -> Result<(), LenError> {
        self.finish()
    }
}
impl ser::SerializeTuple for Counted {
    type Ok = ();
    type Error = LenError;
    fn serialize_element<T: ?Sized + Serialize>(&mut self, v: &T) -> Result<(), LenError> {
        self.item(v)
    }
    fn end(self) -> Result<(), LenError> {
        self.finish()
    }
}
impl ser::SerializeTupleStruct for Counted {
    type Ok = ();
    type Error = LenError;
    fn serialize_field<T: ?Sized + Serialize>(&mut self, v: &T) -> Result<(), LenError> {
        self.item(v)
    }
    fn end(self) -> Result<(), LenError> {
        self.finish()
    }
}
impl ser::SerializeTupleVariant for Counted {
    type Ok = ();
    type Error = LenError;
    fn serialize_field<T: ?Sized + Serialize>(&mut self, v: &T) -> Result<(), LenError> {
        self.item(v)
    }
    fn end(self) -> Result<(), LenError> {
        self.finish()
    }
}
impl ser::SerializeMap for Counted {
    type Ok = ();
    type Error = LenError;
    fn serialize_key<T: ?Sized + Serialize>(&mut self, k: &T) -> Result<(), LenError> {
        self.seen += 1;
        k.serialize(self.c)
    }
    fn serialize_value<T: ?Sized + Serialize>(&mut self, v: &T) -> Result<(), LenError> {
        v.serialize(self.c)
    }
    fn end(self) -> Result<(), LenError> {
        self.finish()
    }
}
impl ser::SerializeStruct for Counted {
    type Ok = ();
    type Error = LenError;
    fn serialize_field<T: ?Sized + Serialize>(&mut self, _k: &'static str, v: &T) -> Result<(), LenError> {
        self.item(v)
    }
    fn skip_field(&mut self, _k: &'static str) -> Result<(), LenError> {
        // a skipped field was not announced either way by derive; count it as seen to stay neutral
        self.seen += 1;
        Ok(())
    }
    fn end(self) -> Result<(), LenError> {
        self.finish()
    }
}
impl ser::SerializeStructVariant for Counted {
    type Ok = ();
    type Error = LenError;
    fn serialize_field<T: ?Sized + Serialize>(&mut self, _k: &'static str, v: &T) -> Result<(), LenError> {
        self.item(v)
    }
    fn skip_field(&mut self, _k: &'static str) -> Result<(), LenError> {
        self.seen += 1;
        Ok(())
    }
    fn end(self) -> Result<(), LenError> {
        self.finish()
    }
}

pub fn check<T: Serialize>(v: &T) -> Vec<String> {
    let mut out = Vec::new();
    for hr in [true, false] {
        if let Err(e) = v.serialize(Checker { human_readable: hr }) {
            out.push(format!("{} form: {}", if hr { "human-readable" } else { "compact" }, e));
        }
    }
    out
}
