//! Process-level parallel map. The subject takes a global shard lock on every
//! `ustr("UniqueId")` (inside `WeakDom::inner_insert`/`inner_remove`), which
//! serialises worker *threads*; forked worker *processes* each own a private
//! copy of that cache and share the parent's data copy-on-write.
//!
//! Must be called while the process is single-threaded.

use serde::{de::DeserializeOwned, Serialize};
use std::io::Write;

pub fn default_procs() -> usize {
    std::env::var("VERIF_PROCS")
        .ok()
        .and_then(|s| s.parse::<usize>().ok())
        .unwrap_or_else(|| std::thread::available_parallelism().map(|n| n.get()).unwrap_or(4))
        .max(1)
}

fn tmp_dir() -> std::path::PathBuf {
    let d = crate::evidence::verif_root().join("target").join("tmp");
    let _ = std::fs::create_dir_all(&d);
    d
}

/// Runs `f(i)` for `i in 0..procs` in forked children and returns the results
/// in index order. A child that dies abnormally is a machinery failure.
pub fn fork_map<T, F>(procs: usize, f: F) -> Vec<T>
where
    T: Serialize + DeserializeOwned,
    F: Fn(usize) -> T,
{
    if procs <= 1 {
        return vec![f(0)];
    }
    let dir = tmp_dir();
    let me = std::process::id();
    static ROUND: std::sync::atomic::AtomicU64 = std::sync::atomic::AtomicU64::new(0);
    let round = ROUND.fetch_add(1, std::sync::atomic::Ordering::SeqCst);
    let _ = std::io::stdout().flush();
    let _ = std::io::stderr().flush();
    let mut pids = Vec::new();
    for i in 0..procs {
        let path = dir.join(format!("fm.{}.{}.{}.bin", me, round, i));
        let pid = unsafe { libc::fork() };
        if pid < 0 {
            crate::evidence::machinery_failure("fork failed");
        }
        if pid == 0 {
            // child
            let res = std::panic::catch_unwind(std::panic::AssertUnwindSafe(|| f(i)));
            let code = match res {
                Ok(v) => {
                    let bytes = bincode::serialize(&v).expect("bincode serialize");
                    match std::fs::write(&path, bytes) {
                        Ok(()) => 0,
                        Err(_) => 3,
                    }
                }
                Err(_) => 4,
            };
            let _ = std::io::stdout().flush();
            unsafe { libc::_exit(code) };
        }
        pids.push((pid, path));
    }
    let mut out = Vec::with_capacity(procs);
    let mut failed = None;
    for (pid, path) in pids {
        let mut status: libc::c_int = 0;
        let r = unsafe { libc::waitpid(pid, &mut status, 0) };
        let ok = r == pid && libc::WIFEXITED(status) && libc::WEXITSTATUS(status) == 0;
        if !ok {
            failed = Some(format!("worker process {} ended abnormally (status {:#x})", pid, status));
            let _ = std::fs::remove_file(&path);
            continue;
        }
        let bytes = std::fs::read(&path).unwrap_or_default();
        let _ = std::fs::remove_file(&path);
        match bincode::deserialize::<T>(&bytes) {
            Ok(v) => out.push(v),
            Err(e) => failed = Some(format!("cannot decode worker result: {}", e)),
        }
    }
    if let Some(msg) = failed {
        crate::evidence::machinery_failure(&msg);
    }
    out
}


/// Runs `f()` in a forked child and returns its result, or `None` when the child has not
/// finished after `secs` seconds (it is killed) or died abnormally.
pub fn fork_timeout<T, F>(secs: u64, f: F) -> Option<T>
where
    T: Serialize + DeserializeOwned,
    F: FnOnce() -> T,
{
    let dir = tmp_dir();
    static ROUND: std::sync::atomic::AtomicU64 = std::sync::atomic::AtomicU64::new(0);
    let round = ROUND.fetch_add(1, std::sync::atomic::Ordering::SeqCst);
    let path = dir.join(format!("ft.{}.{}.bin", std::process::id(), round));
    let _ = std::io::stdout().flush();
    let _ = std::io::stderr().flush();
    let pid = unsafe { libc::fork() };
    if pid < 0 {
        crate::evidence::machinery_failure("fork failed");
    }
    if pid == 0 {
        let res = std::panic::catch_unwind(std::panic::AssertUnwindSafe(f));
        let code = match res {
            Ok(v) => match std::fs::write(&path, bincode::serialize(&v).expect("bincode serialize")) {
                Ok(()) => 0,
                Err(_) => 3,
            },
            Err(_) => 4,
        };
        unsafe { libc::_exit(code) };
    }
    let start = std::time::Instant::now();
    let mut status: libc::c_int = 0;
    loop {
        let r = unsafe { libc::waitpid(pid, &mut status, libc::WNOHANG) };
        if r == pid {
            break;
        }
        if start.elapsed().as_secs() >= secs {
            unsafe {
                libc::kill(pid, libc::SIGKILL);
                libc::waitpid(pid, &mut status, 0);
            }
            let _ = std::fs::remove_file(&path);
            return None;
        }
        std::thread::sleep(std::time::Duration::from_millis(2));
    }
    let ok = libc::WIFEXITED(status) && libc::WEXITSTATUS(status) == 0;
    let bytes = std::fs::read(&path).unwrap_or_default();
    let _ = std::fs::remove_file(&path);
    if !ok {
        return None;
    }
    bincode::deserialize::<T>(&bytes).ok()
}
