//! Deep and wide shapes beyond the explorer's node cap: one operation each on a chain of depth
//! `d` and on a star of `d` children, executed in a subprocess (a stack overflow aborts it) and
//! checked against what the operation documents.

use rbx_dom_weak::{InstanceBuilder, WeakDom};
use rbx_dom_weak::types::Ref;

fn chain(depth: usize) -> (WeakDom, Vec<Ref>) {
    let mut dom = WeakDom::new(InstanceBuilder::new("DataModel"));
    let mut refs = Vec::new();
    let mut parent = dom.root_ref();
    for i in 0..depth {
        parent = dom.insert(parent, InstanceBuilder::new("Folder").with_name(format!("d{}", i)));
        refs.push(parent);
    }
    (dom, refs)
}

fn star(n: usize) -> (WeakDom, Vec<Ref>) {
    let mut dom = WeakDom::new(InstanceBuilder::new("DataModel"));
    let hub = dom.insert(dom.root_ref(), InstanceBuilder::new("Folder").with_name("hub"));
    let mut refs = vec![hub];
    for i in 0..n {
        refs.push(dom.insert(hub, InstanceBuilder::new("Folder").with_name(format!("s{}", i))));
    }
    (dom, refs)
}

fn count_reachable(dom: &WeakDom, from: Ref) -> usize {
    // iterative, through the public API
    let mut stack = vec![from];
    let mut n = 0;
    while let Some(r) = stack.pop() {
        if let Some(i) = dom.get_by_ref(r) {
            n += 1;
            stack.extend(i.children().iter().copied());
        }
    }
    n
}

/// Builders made on `threads` worker threads (three each, one of them with a child) are inserted
/// into a DOM made on the main thread: referents must not depend on where they were generated.
fn threads_probe(threads: usize) -> String {
    let mut dom = WeakDom::new(InstanceBuilder::new("DataModel"));
    let root = dom.root_ref();
    let handles: Vec<_> = (0..threads)
        .map(|t| {
            std::thread::spawn(move || {
                (0..3).map(|k| {
                    let b = InstanceBuilder::new("Folder").with_name(format!("t{}k{}", t, k));
                    if k == 2 { b.with_child(InstanceBuilder::new("Folder").with_name(format!("t{}leaf", t))) } else { b }
                }).collect::<Vec<_>>()
            })
        })
        .collect();
    let mut expected_children = Vec::new();
    for h in handles {
        for b in h.join().expect("builder thread") {
            let want = b.referent();
            let got = dom.insert(root, b);
            if got != want {
                return format!("insert returned {} for a builder whose referent is {}", got, want);
            }
            expected_children.push(got);
        }
    }
    if dom.root_ref() != root || dom.root().parent().is_some() {
        return "the root changed or gained a parent".into();
    }
    if dom.root().children() != expected_children.as_slice() {
        return format!("the root lists {} children, {} builders were inserted under it (builders from different threads share referents?)", dom.root().children().len(), expected_children.len());
    }
    let mut seen = std::collections::HashSet::new();
    seen.insert(root);
    for &c in &expected_children {
        if !seen.insert(c) {
            return format!("referent {} was handed out twice", c);
        }
        match dom.get_by_ref(c) {
            Some(i) if i.parent() == root => {
                for &g in i.children() {
                    if !seen.insert(g) {
                        return format!("referent {} was handed out twice", g);
                    }
                    if dom.get_by_ref(g).map(|x| x.parent()) != Some(c) {
                        return "a grandchild does not name its parent".into();
                    }
                }
            }
            _ => return "an inserted instance is missing or names another parent".into(),
        }
    }
    let total = dom.descendants().count();
    if total != seen.len() {
        return format!("descendants yields {} instances, {} were inserted", total, seen.len());
    }
    "ok".into()
}

/// Returns "ok" or a description of what went wrong.
pub fn probe(size: usize, what: &str) -> String {
    if what == "threads" {
        return threads_probe(size);
    }
    let deep = !what.starts_with("star-");
    let (mut dom, refs) = if deep { chain(size) } else { star(size) };
    let total = refs.len();
    let top = refs[0];
    match what.trim_start_matches("star-") {
        "descendants" => {
            let n = dom.descendants_of(top).count();
            if n != total {
                return format!("descendants_of yields {} of {} instances", n, total);
            }
            let all = dom.descendants().count();
            if all != total + 1 {
                return format!("descendants yields {} of {} instances", all, total + 1);
            }
        }
        "destroy" => {
            dom.destroy(top);
            if refs.iter().any(|r| dom.get_by_ref(*r).is_some()) {
                return "destroy left descendants behind".into();
            }
            if count_reachable(&dom, dom.root_ref()) != 1 {
                return "destroy left the root with children".into();
            }
        }
        "clone_within" => {
            let c = dom.clone_within(top);
            if count_reachable(&dom, c) != total {
                return format!("clone has {} of {} instances", count_reachable(&dom, c), total);
            }
            if count_reachable(&dom, top) != total {
                return "clone_within changed the source".into();
            }
        }
        "clone_into_external" => {
            let mut other = WeakDom::new(InstanceBuilder::new("DataModel"));
            let c = dom.clone_into_external(top, &mut other);
            if count_reachable(&other, c) != total {
                return format!("external clone has {} of {} instances", count_reachable(&other, c), total);
            }
        }
        "transfer" => {
            let mut other = WeakDom::new(InstanceBuilder::new("DataModel"));
            let dest = other.root_ref();
            dom.transfer(top, &mut other, dest);
            if count_reachable(&other, dest) != total + 1 {
                return format!("transfer moved {} of {} instances", count_reachable(&other, dest) - 1, total);
            }
            if refs.iter().any(|r| dom.get_by_ref(*r).is_some()) {
                return "transfer left instances in the source".into();
            }
        }
        "nested_insert" => {
            // the same shape as one nested builder
            let mut b = InstanceBuilder::new("Folder").with_name("leaf");
            if deep {
                for i in 0..size {
                    b = InstanceBuilder::new("Folder").with_name(format!("n{}", i)).with_child(b);
                }
            } else {
                let mut hub = InstanceBuilder::new("Folder").with_name("hub");
                for i in 0..size {
                    hub = hub.with_child(InstanceBuilder::new("Folder").with_name(format!("s{}", i)));
                }
                b = hub;
            }
            let mut d2 = WeakDom::new(InstanceBuilder::new("DataModel"));
            let root = d2.root_ref();
            let r = d2.insert(root, b);
            let want = size + 1;
            if count_reachable(&d2, r) != want {
                return format!("nested insert produced {} of {} instances", count_reachable(&d2, r), want);
            }
            if !deep {
                let names: Vec<String> = d2.get_by_ref(r).unwrap().children().iter().map(|c| d2.get_by_ref(*c).unwrap().name.clone()).collect();
                let expect: Vec<String> = (0..size).map(|i| format!("s{}", i)).collect();
                if names != expect {
                    return "nested insert reordered the children".into();
                }
            }
        }
        "into_raw" => {
            let (root, map) = dom.into_raw();
            if map.len() != total + 1 {
                return format!("into_raw holds {} of {} instances", map.len(), total + 1);
            }
            let d2 = WeakDom::from_raw(root, map);
            if count_reachable(&d2, d2.root_ref()) != total + 1 {
                return "from_raw lost instances".into();
            }
        }
        other => return format!("unknown probe {}", other),
    }
    // star order must be kept by every operation that leaves the hub in place
    "ok".into()
}

pub const PROBES: [&str; 7] = ["descendants", "destroy", "clone_within", "clone_into_external", "transfer", "nested_insert", "into_raw"];

/// Runs every probe at every size in subprocesses; returns (key, what) problems and the count.
pub fn run_all() -> (Vec<(String, String, serde_json::Value)>, u64) {
    let exe = std::env::current_exe().unwrap_or_else(|e| crate::evidence::machinery_failure(&format!("current_exe: {}", e)));
    let mut out = Vec::new();
    let mut n = 0u64;
    for size in [12usize, 40, 1000, 100_000, 600_000] {
        // the deepest size only for chains (a subprocess main thread has an 8 MiB stack)
        for shape in ["", "star-"] {
            if size > 100_000 && !shape.is_empty() {
                continue;
            }
            for p in PROBES {
                let what = format!("{}{}", shape, p);
                n += 1;
                let res = std::process::Command::new(&exe).arg("DEEPDOM").arg(size.to_string()).arg(&what).output();
                let case = serde_json::json!({"deepdom": {"size": size, "probe": what}});
                match res {
                    Err(e) => crate::evidence::machinery_failure(&format!("cannot start probe: {}", e)),
                    Ok(o) => {
                        let text = String::from_utf8_lossy(&o.stdout);
                        let last = text.lines().last().unwrap_or("").to_owned();
                        if !o.status.success() {
                            let err = String::from_utf8_lossy(&o.stderr);
                            let cause = if err.contains("overflowed its stack") { "stack overflow" } else if err.contains("panicked") { "panic" } else { "abnormal exit" };
                            out.push((format!("deepdom|{}|{}", what, cause), format!("{} on a {} of {} instances ends the process ({}): {}", p, if shape.is_empty() { "chain" } else { "star" }, size, cause, err.lines().find(|l| l.contains("panicked") || l.contains("overflow")).unwrap_or("").chars().take(160).collect::<String>()), case));
                        } else if last != "ok" {
                            out.push((format!("deepdom|{}|wrong-effect", what), format!("{} on a {} of {} instances: {}", p, if shape.is_empty() { "chain" } else { "star" }, size, last), case));
                        }
                    }
                }
            }
        }
    }
    // construction spread over threads (1..4 builder threads)
    for t in 1..=4usize {
        n += 1;
        let res = std::process::Command::new(&exe).arg("DEEPDOM").arg(t.to_string()).arg("threads").output();
        let case = serde_json::json!({"deepdom": {"size": t, "probe": "threads"}});
        match res {
            Err(e) => crate::evidence::machinery_failure(&format!("cannot start probe: {}", e)),
            Ok(o) => {
                let text = String::from_utf8_lossy(&o.stdout);
                let last = text.lines().last().unwrap_or("").to_owned();
                if !o.status.success() {
                    let err = String::from_utf8_lossy(&o.stderr);
                    out.push(("deepdom|threads|abnormal exit".to_owned(), format!("inserting builders made on {} threads ends the process: {}", t, err.lines().find(|l| l.contains("panicked") || l.contains("overflow")).unwrap_or("").chars().take(160).collect::<String>()), case));
                } else if last != "ok" {
                    out.push(("deepdom|threads|forest".to_owned(), format!("builders made on {} threads inserted into one DOM: {}", t, last), case));
                }
            }
        }
    }
    (out, n)
}
