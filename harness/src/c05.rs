//! C05: XML written by rbx_xml is spec-conformant (checked by expat + a value
//! decoder written from docs/xml.md, in py/xmlspec.py), and spec-conformant
//! documents produced by an independent generator are read correctly.

use std::collections::BTreeMap;
use std::io::{BufRead, Write};
use std::path::PathBuf;

use rbx_dom_weak::types::{BinaryString, Color3uint8, SharedString, Variant, VariantType};
use serde::{Deserialize, Serialize};
use serde_json::{json, Value};

use crate::codec::*;
use crate::evidence::{Run, Tier};
use crate::plan::*;
use crate::specdb;
use crate::sweeps::SweepOut;
use crate::vals::{render, Codec, FloatMode};

fn python() -> String {
    for p in ["/usr/bin/python3", "python3"] {
        if std::process::Command::new(p).arg("-c").arg("import pyexpat").status().map(|s| s.success()).unwrap_or(false) {
            return p.to_owned();
        }
    }
    crate::evidence::machinery_failure("no python3 with pyexpat available");
}

fn script() -> PathBuf {
    crate::evidence::verif_root().join("py").join("xmlspec.py")
}

fn tmp() -> PathBuf {
    let d = crate::evidence::verif_root().join("target").join("tmp").join(format!("c05.{}", std::process::id()));
    let _ = std::fs::create_dir_all(&d);
    d
}

fn quantise(c: &rbx_dom_weak::types::Color3) -> Color3uint8 {
    let q = |x: f32| (x.clamp(0.0, 1.0) * 255.0).round() as u8;
    Color3uint8::new(q(c.r), q(c.g), q(c.b))
}

/// XML wire form of a value (what docs/xml.md says the element holds)
fn xml_wire(v: &Variant, wire: Option<VariantType>) -> Variant {
    let bytes = |b: Vec<u8>| Variant::BinaryString(BinaryString::from(b));
    match v {
        Variant::BrickColor(b) => Variant::Int32(*b as u16 as i32),
        Variant::Tags(t) => bytes(t.encode()),
        Variant::MaterialColors(m) => bytes(m.encode()),
        Variant::Attributes(a) => {
            let mut b = Vec::new();
            let _ = a.to_writer(&mut b);
            bytes(b)
        }
        Variant::Color3(c) if wire == Some(VariantType::Color3uint8) => Variant::Color3uint8(quantise(c)),
        other => other.clone(),
    }
}

fn wire_target(class: &str, prop: &str, mode: XmlMode) -> Option<(String, Option<VariantType>)> {
    if mode == XmlMode::NoReflection {
        return Some((prop.to_owned(), None));
    }
    match specdb::expect(class, prop) {
        None => {
            if mode == XmlMode::Default {
                None
            } else {
                Some((prop.to_owned(), None))
            }
        }
        Some(e) => {
            if !e.serializes || e.migrate.is_some() {
                None
            } else {
                Some((e.wire_name, e.wire_ty))
            }
        }
    }
}

pub fn expected_xml_wire(plan: &Plan, mode: XmlMode) -> Vec<CNode> {
    expected_forest(plan, &|node, prop, v, refstr| match wire_target(&node.class, prop, mode) {
        None => vec![],
        Some((name, wire)) => {
            let rendered = match v {
                PVal::V(val) => render(&xml_wire(val, wire), FloatMode::NanClass, &|_| "?".into()),
                PVal::Ref(t) => format!("Ref:{}", refstr(t)),
                PVal::ContentObj(t) => format!("Content:Object:{}", refstr(t)),
                PVal::Shared(b) => render(&Variant::SharedString(SharedString::new(b.clone())), FloatMode::NanClass, &|_| "?".into()),
            };
            vec![(name, rendered)]
        }
    })
}

fn cnode_json(n: &CNode) -> Value {
    json!({"class": n.class, "name": n.name, "props": n.props, "children": n.children.iter().map(cnode_json).collect::<Vec<_>>()})
}

fn cnode_from(v: &Value) -> CNode {
    CNode {
        class: v["class"].as_str().unwrap_or("").to_owned(),
        name: v["name"].as_str().unwrap_or("").to_owned(),
        props: v["props"].as_object().map(|m| m.iter().map(|(k, v)| (k.clone(), v.as_str().unwrap_or("").to_owned())).collect()).unwrap_or_default(),
        children: v["children"].as_array().map(|a| a.iter().map(cnode_from).collect()).unwrap_or_default(),
    }
}

#[derive(Serialize, Deserialize, Clone, Debug)]
pub struct ReplayW {
    pub desc: CaseDesc,
    pub mode: XmlMode,
}

fn doc_types_ok(desc: &CaseDesc) -> bool {
    // types docs/xml.md does not describe cannot be judged against it
    match desc {
        CaseDesc::Value { ty, .. } => ty != "Vector2int16" && ty != "SecurityCapabilities",
        _ => true,
    }
}

fn modes_for(desc: &CaseDesc) -> &'static [XmlMode] {
    match desc {
        CaseDesc::Value { mode: PropMode::Known, .. } => &[XmlMode::Default],
        CaseDesc::Value { .. } => &[XmlMode::Unknown],
        _ => &[XmlMode::Unknown, XmlMode::Default],
    }
}

/// writes the batch of one shard; returns the (desc index, mode) of every record
fn write_shard(path: &PathBuf, cases: &[CaseDesc], shard: usize, shards: usize) -> Vec<(usize, XmlMode)> {
    let mut f = std::io::BufWriter::new(std::fs::File::create(path).unwrap_or_else(|e| crate::evidence::machinery_failure(&format!("{}: {}", path.display(), e))));
    let mut index = Vec::new();
    for (i, desc) in cases.iter().enumerate() {
        if i % shards != shard || !doc_types_ok(desc) {
            continue;
        }
        let plan = build_plan(desc, Codec::Xml);
        for &mode in modes_for(desc) {
            let r = plan.realise(how_of(desc), None);
            let roots = plan.root_refs(&r);
            let bytes = match xml_encode(&r, &roots, mode) {
                Ok(Ok(b)) => b,
                _ => continue, // encoder refuses / panics: C02's business
            };
            let expected: Vec<Value> = expected_xml_wire(&plan, mode).iter().map(cnode_json).collect();
            let rec = json!({"id": index.len(), "xml": base64::encode(&bytes), "expected": expected});
            writeln!(f, "{}", rec).unwrap();
            index.push((i, mode));
        }
    }
    index
}

fn value_label(desc: &CaseDesc) -> String {
    match desc {
        CaseDesc::Value { ty, labels, .. } => format!("{}:{}", ty, labels[0]),
        CaseDesc::Name { label } => format!("name:{}", label),
        _ => String::new(),
    }
}

pub fn writer_direction(run: &Run, total: &mut SweepOut) {
    let b = crate::sweeps::bounds(run.tier);
    // singles, names, chains and topology (pairs add nothing at the XML level: no columns)
    let cases: Vec<CaseDesc> = crate::sweeps::c02_cases(&b)
        .into_iter()
        .filter(|c| match c {
            CaseDesc::Value { labels, .. } => labels.len() == 1,
            // a literal CR in character data is a listed finding (the `cr` / `crlf` labels keep
            // showing it): a conforming parser normalises it, so texts that combine CR with other
            // fragments cannot be compared beyond that and are left to C02's own-reader round trip
            CaseDesc::Text { frags } => !frags.iter().any(|f| crate::codec::TEXT_FRAGMENTS[*f as usize] == "\r"),
            // the position sweep adds nothing for the types the value sweep already sets aside
            // (UniqueId: a listed document-vs-implementation finding; two types the document
            // does not describe)
            CaseDesc::Position { ty, .. } => !["UniqueId", "SecurityCapabilities", "Vector2int16"].contains(&ty.as_str()),
            _ => true,
        })
        .collect();
    let shards = crate::forkpool::default_procs();
    let dir = tmp();
    let py = python();
    let cases_ref = &cases;
    let dir_ref = &dir;
    // write shards in forked workers
    let indices: Vec<Vec<(usize, u8)>> = crate::forkpool::fork_map(shards, |s| {
        let idx = write_shard(&dir_ref.join(format!("w{}.jsonl", s)), cases_ref, s, shards);
        idx.into_iter().map(|(i, m)| (i, match m { XmlMode::Default => 0u8, XmlMode::Unknown => 1, XmlMode::NoReflection => 2 })).collect()
    });
    let mut children = Vec::new();
    for s in 0..shards {
        let c = std::process::Command::new(&py)
            .arg(script())
            .arg("check-writer")
            .arg(dir.join(format!("w{}.jsonl", s)))
            .arg(dir.join(format!("w{}.out", s)))
            .spawn()
            .unwrap_or_else(|e| crate::evidence::machinery_failure(&format!("cannot start python: {}", e)));
        children.push(c);
    }
    for (s, c) in children.into_iter().enumerate() {
        let st = c.wait_with_output().unwrap_or_else(|e| crate::evidence::machinery_failure(&format!("python wait: {}", e)));
        if !st.status.success() {
            crate::evidence::machinery_failure(&format!("xmlspec.py check-writer failed on shard {}: {}", s, String::from_utf8_lossy(&st.stderr)));
        }
        let f = std::fs::File::open(dir.join(format!("w{}.out", s))).unwrap_or_else(|e| crate::evidence::machinery_failure(&format!("missing python output: {}", e)));
        let mut n = 0usize;
        for line in std::io::BufReader::new(f).lines() {
            let line = line.unwrap();
            let rec: Value = serde_json::from_str(&line).unwrap_or_else(|e| crate::evidence::machinery_failure(&format!("python output: {}", e)));
            let id = rec["id"].as_u64().unwrap() as usize;
            let (ci, m) = indices[s][id];
            let mode = [XmlMode::Default, XmlMode::Unknown, XmlMode::NoReflection][m as usize];
            let desc = &cases[ci];
            total.executions += 1;
            n += 1;
            let probs = rec["problems"].as_array().cloned().unwrap_or_default();
            total.outcome(if probs.is_empty() { "writer-ok" } else { "writer-problem" });
            for p in probs {
                let key = p[0].as_str().unwrap_or("?");
                if key.starts_with("color3uint8-high-byte") {
                    // a SHOULD of the document, and the value reads back the same: noted, not judged
                    total.outcome("writer-note:Color3uint8 high byte not FF (SHOULD)");
                    continue;
                }
                let what = p[1].as_str().unwrap_or("?");
                let lab = value_label(desc);
                let vkey = if key.starts_with("value|") || key.starts_with("missing-prop") {
                    format!("xmlw|{}|{}|{}", key, class_of(desc), lab)
                } else {
                    format!("xmlw|{}|{}", key, match desc { CaseDesc::Value { ty, .. } => ty.clone(), CaseDesc::Name { .. } => lab.clone(), other => class_of(other) })
                };
                total.violation(vkey, format!("{} [case {}, {:?}]", what, label_of(desc), mode), || serde_json::to_value(ReplayW { desc: desc.clone(), mode }).unwrap());
            }
        }
        if n != indices[s].len() {
            crate::evidence::machinery_failure("python returned fewer records than were sent");
        }
        total.cases += n as u64;
    }
    let _ = std::fs::remove_dir_all(&dir);
}

fn dbmap() -> Value {
    let mut m = serde_json::Map::new();
    for (class, prop) in [("Part", "size"), ("Part", "Color3uint8"), ("Part", "Anchored"), ("ModuleScript", "Source"), ("WeldConstraint", "Part0Internal"), ("WeldConstraint", "Part1Internal")] {
        let canonical = specdb::expect(class, prop).map(|e| e.name).unwrap_or_else(|| prop.to_owned());
        m.insert(format!("{}.{}", class, prop), json!(canonical));
    }
    Value::Object(m)
}

#[derive(Serialize, Deserialize, Clone, Debug)]
pub struct ReplayR {
    pub xml: String,
    pub expected: Value,
    pub dim: String,
    pub mode: String,
}

pub fn judge_reader(rec: &ReplayR) -> Vec<(String, String)> {
    let mut out = Vec::new();
    let bytes = base64::decode(&rec.xml).unwrap_or_default();
    let xmode = if rec.mode == "default" { XmlMode::Default } else { XmlMode::Unknown };
    let res = crate::evidence::guarded(|| rbx_xml::from_reader(bytes.as_slice(), xml_options(xmode).1).map_err(|e| e.to_string()));
    let dimclass = rec.dim.split(':').next().unwrap_or("").to_owned();
    match res {
        Err((site, msg)) => out.push((format!("xmlr|panic|{}", crate::evidence::panic_signature(&site, &msg)), format!("rbx_xml panicked on a spec-conformant document ({}): {} {}", rec.dim, site, msg))),
        Ok(Err(e)) => out.push((format!("xmlr|rejected|{}", rec.dim), format!("rbx_xml rejects a spec-conformant document ({}): {}", rec.dim, e.chars().take(240).collect::<String>()))),
        Ok(Ok(dom)) => {
            let forest = canon_forest(&dom, dom.root().children(), FloatMode::NanClass);
            let expected: Vec<CNode> = rec.expected.as_array().map(|a| a.iter().map(cnode_from).collect()).unwrap_or_default();
            let diffs = diff_forest(&expected, &forest, &|_, _, _| false);
            if let Some(d) = diffs.first() {
                let key = if rec.dim.starts_with("float-spelling") || rec.dim.starts_with("string-form") || rec.dim.contains("uniqueid") {
                    format!("xmlr|{}|{}", rec.dim, d.kind)
                } else {
                    format!("xmlr|{}|{}|{}", dimclass, d.kind, d.prop)
                };
                out.push((key, format!("spec-conformant document ({}) decodes to something else: {} at {} {}.{}: expected {} got {}", rec.dim, d.kind, d.path, d.class, d.prop, d.expected.chars().take(120).collect::<String>(), d.actual.chars().take(120).collect::<String>())));
            }
        }
    }
    out
}

pub fn reader_direction(run: &Run, total: &mut SweepOut) {
    let dir = tmp();
    let py = python();
    let map_path = dir.join("dbmap.json");
    std::fs::write(&map_path, dbmap().to_string()).unwrap();
    let docs = dir.join("docs.jsonl");
    let st = std::process::Command::new(&py)
        .arg(script())
        .arg("gen-reader")
        .arg(&map_path)
        .arg(&docs)
        .arg(run.tier.as_str())
        .output()
        .unwrap_or_else(|e| crate::evidence::machinery_failure(&format!("cannot start python: {}", e)));
    if !st.status.success() {
        crate::evidence::machinery_failure(&format!("xmlspec.py gen-reader failed: {}", String::from_utf8_lossy(&st.stderr)));
    }
    let f = std::fs::File::open(&docs).unwrap_or_else(|e| crate::evidence::machinery_failure(&format!("docs: {}", e)));
    for line in std::io::BufReader::new(f).lines() {
        let v: Value = serde_json::from_str(&line.unwrap()).unwrap_or_else(|e| crate::evidence::machinery_failure(&format!("docs.jsonl: {}", e)));
        let rec = ReplayR {
            xml: v["xml"].as_str().unwrap_or("").to_owned(),
            expected: v["expected"].clone(),
            dim: v["dim"].as_str().unwrap_or("").to_owned(),
            mode: v["mode"].as_str().unwrap_or("unknown").to_owned(),
        };
        total.cases += 1;
        total.executions += 1;
        total.nontrivial += 1;
        let vs = judge_reader(&rec);
        total.outcome(if vs.is_empty() { "reader-ok" } else { "reader-problem" });
        *total.outcomes.entry(format!("reader-dim:{}", rec.dim.split(':').next().unwrap_or(""))).or_insert(0) += 1;
        for (k, w) in vs {
            total.violation(k, w, || serde_json::to_value(&rec).unwrap());
        }
        if total.samples.len() < 3 && total.cases % 37 == 1 {
            total.samples.push(json!({"direction": "reader", "dim": rec.dim, "document": String::from_utf8_lossy(&base64::decode(&rec.xml).unwrap_or_default()).chars().take(300).collect::<String>()}).to_string());
        }
    }
    let _ = std::fs::remove_dir_all(&dir);
}

pub fn check(run: &Run) -> Value {
    let py = python();
    let st = std::process::Command::new(&py).arg(script()).arg("self-check").output().unwrap_or_else(|e| crate::evidence::machinery_failure(&format!("python: {}", e)));
    if !st.status.success() {
        crate::evidence::machinery_failure(&format!("xmlspec.py does not reproduce a worked example of docs/xml.md: {}", String::from_utf8_lossy(&st.stdout)));
    }
    let mut total = SweepOut::default();
    writer_direction(run, &mut total);
    let writer_docs = total.cases;
    total.nontrivial += writer_docs;
    total.samples.push(json!({"direction": "writer", "case": "every document rbx_xml writes for the C02 enumeration (single-value, name, chain and topology cases)"}).to_string());
    reader_direction(run, &mut total);
    total.report(run);
    println!("C05: writer-direction documents={} reader-direction documents={} outcomes={:?}", writer_docs, total.cases - writer_docs, total.outcomes);
    json!({
        "states": total.cases,
        "transitions": total.executions,
        "traces_validated_against_impl": total.executions,
        "evaluations": total.executions,
        "distinct_nontrivial": total.nontrivial,
        "writer_direction_documents": writer_docs,
        "reader_direction_documents": total.cases - writer_docs,
        "outcomes": total.outcomes,
        "independent_parser": "expat via python3 xml.etree.ElementTree; value decoder py/xmlspec.py written from docs/xml.md and checked against its worked examples",
        "samples": total.samples.iter().map(|s| serde_json::from_str::<Value>(s).unwrap()).collect::<Vec<_>>(),
        "exhaustive": true,
        "rule": "writer direction: every document rbx_xml writes for C02's bounded enumeration (single-value columns, names, chains, topologies; default options for known properties, WriteUnknown otherwise) is parsed by expat and checked for structure (roblox/version, Items with class and unique non-null referent, one Properties per Item, SharedStrings dictionary defining every used hash) and for values (element names and child layouts of docs/xml.md, floats compared by bit pattern); reader direction: for three logical DOMs the independent generator emits every variation of referent naming, property order, indentation, optional elements, SharedStrings position, base64 wrapping, float spellings, string forms (escaped / CDATA, string / ProtectedString) and the listed special cases, and rbx_xml must decode each to the DOM it describes",
    })
}

pub fn replay(case: &Value) -> Vec<(String, String)> {
    if case.get("xml").is_some() {
        let r: ReplayR = serde_json::from_value(case.clone()).unwrap_or_else(|e| crate::evidence::machinery_failure(&format!("bad replay: {}", e)));
        return judge_reader(&r);
    }
    let r: ReplayW = serde_json::from_value(case.clone()).unwrap_or_else(|e| crate::evidence::machinery_failure(&format!("bad replay: {}", e)));
    // one-document batch through the python checker
    let dir = tmp();
    let plan = build_plan(&r.desc, Codec::Xml);
    let real = plan.realise(how_of(&r.desc), None);
    let roots = plan.root_refs(&real);
    let bytes = match xml_encode(&real, &roots, r.mode) {
        Ok(Ok(b)) => b,
        _ => return vec![],
    };
    let expected: Vec<Value> = expected_xml_wire(&plan, r.mode).iter().map(cnode_json).collect();
    std::fs::write(dir.join("r.jsonl"), format!("{}\n", json!({"id": 0, "xml": base64::encode(&bytes), "expected": expected}))).unwrap();
    let st = std::process::Command::new(python()).arg(script()).arg("check-writer").arg(dir.join("r.jsonl")).arg(dir.join("r.out")).output().unwrap();
    if !st.status.success() {
        crate::evidence::machinery_failure("python failed");
    }
    let out = std::fs::read_to_string(dir.join("r.out")).unwrap_or_default();
    let _ = std::fs::remove_dir_all(&dir);
    let rec: Value = serde_json::from_str(out.lines().next().unwrap_or("{}")).unwrap_or(Value::Null);
    println!("document:\n{}", String::from_utf8_lossy(&bytes));
    rec["problems"].as_array().cloned().unwrap_or_default().iter().map(|p| (p[0].as_str().unwrap_or("").to_owned(), p[1].as_str().unwrap_or("").to_owned())).collect()
}

#[allow(dead_code)]
fn unused(_: BTreeMap<String, String>, _: Tier) {}
