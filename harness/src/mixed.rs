//! Mixed-type columns (C01 / C03). Same-class instances may carry one property name with values
//! of *different* types (an unknown property, or a value of a neighbouring type on a declared one).
//! rbx_binary stores a column under one wire type and is lenient in places (an Int64 column takes
//! Int32 values, Float64 takes Float32, a String column takes every byte-string-like type, a
//! BrickColor column takes Int32): whenever such a DOM is written successfully, each instance must
//! read back - through rbx_binary and through the independent decoder - as what it reads back
//! as when it is written alone, up to the widening the column implies.

use rbx_dom_weak::{InstanceBuilder, WeakDom};
use rbx_types::{Variant, VariantType};
use serde::{Deserialize, Serialize};

use crate::evidence::Tier;
use crate::vals::{alphabet, render, type_name, Codec, FloatMode};

#[derive(Clone, Debug, Serialize, Deserialize)]
pub struct MixedCase {
    pub class: String,
    pub prop: String,
    /// (type name, label) per instance, in sibling order
    pub values: Vec<(String, String)>,
}

fn r(v: &Variant) -> String {
    render(v, FloatMode::Exact, &|_| "?".into())
}

fn mixed_types() -> Vec<VariantType> {
    crate::vals::binary_types().into_iter().filter(|t| !matches!(t, VariantType::UniqueId)).collect()
}

fn group(t: VariantType) -> u8 {
    use VariantType::*;
    match t {
        Int32 | Int64 | BrickColor | Enum | SecurityCapabilities => 1,
        Float32 | Float64 => 2,
        String | BinaryString | ContentId | Tags | MaterialColors | Attributes | Content => 3,
        Color3 | Color3uint8 => 4,
        CFrame | OptionalCFrame => 5,
        Vector3 | Vector3int16 | Vector2 => 6,
        NumberRange | NumberSequence | ColorSequence => 7,
        _ => 0,
    }
}

fn lookup(ty: &str, label: &str) -> Variant {
    let vt = mixed_types().into_iter().find(|t| type_name(*t) == ty).expect("mixed type");
    alphabet(vt, Codec::Binary, false).into_iter().find(|l| l.label == label).unwrap_or_else(|| panic!("label {} of {}", label, ty)).v
}

fn bytes_like(v: &Variant) -> Option<Vec<u8>> {
    match v {
        Variant::String(s) => Some(s.as_bytes().to_vec()),
        Variant::BinaryString(b) => {
            let s: &[u8] = b.as_ref();
            Some(s.to_vec())
        }
        Variant::ContentId(c) => Some(c.as_str().as_bytes().to_vec()),
        Variant::Tags(t) => Some(t.encode()),
        Variant::MaterialColors(m) => Some(m.encode()),
        Variant::Attributes(a) => {
            let mut b = Vec::new();
            a.to_writer(&mut b).ok()?;
            Some(b)
        }
        _ => None,
    }
}

fn int_like(v: &Variant) -> Option<i64> {
    match v {
        Variant::Int32(n) => Some(*n as i64),
        Variant::Int64(n) => Some(*n),
        _ => None,
    }
}

/// `alone`: what the value reads back as from a file of its own; `mixed`: from the mixed column.
fn equivalent(alone: &Variant, mixed: &Variant) -> bool {
    if r(alone) == r(mixed) {
        return true;
    }
    if let (Some(a), Some(b)) = (bytes_like(alone), bytes_like(mixed)) {
        return a == b;
    }
    if let (Some(a), Some(b)) = (int_like(alone), int_like(mixed)) {
        return a == b;
    }
    match (alone, mixed) {
        (Variant::Float32(a), Variant::Float64(b)) => (*a as f64).to_bits() == b.to_bits(),
        (Variant::Int32(a), Variant::BrickColor(b)) => *a as u32 == *b as u32,
        // C01: "Color3 stored in a byte-colour property is quantised to 8 bits"
        (Variant::Color3(a), Variant::Color3uint8(b)) => {
            let q = |x: f32| (x.clamp(0.0, 1.0) * 255.0).round() as u8;
            (q(a.r), q(a.g), q(a.b)) == (b.r, b.g, b.b)
        }
        _ => false,
    }
}

fn build(c: &MixedCase, only: Option<usize>) -> WeakDom {
    let mut root = InstanceBuilder::new("DataModel");
    for (i, (t, l)) in c.values.iter().enumerate() {
        if only.map(|o| o != i).unwrap_or(false) {
            continue;
        }
        root = root.with_child(InstanceBuilder::new(c.class.as_str()).with_name(format!("i{}", i)).with_property(c.prop.as_str(), lookup(t, l)));
    }
    WeakDom::new(root)
}

/// Ok(Some(values)) when written and read back, Ok(None) when the writer refuses, Err on a
/// failure that must not happen (panic, unreadable output).
fn real_round_trip(dom: &WeakDom, prop: &str) -> Result<Option<(Vec<u8>, Vec<Option<Variant>>)>, String> {
    let roots = dom.root().children().to_vec();
    let res = crate::evidence::guarded(|| {
        let mut buf = Vec::new();
        match rbx_binary::Serializer::new().compression_type(rbx_binary::CompressionType::None).serialize(&mut buf, dom, &roots) {
            Err(_) => Ok(None),
            Ok(()) => match rbx_binary::from_reader(buf.as_slice()) {
                Err(e) => Err(format!("rbx_binary cannot read the file it wrote: {}", e)),
                Ok(d) => {
                    let vals = d.root().children().iter().map(|r| d.get_by_ref(*r).and_then(|i| i.properties.get(&prop.into()).cloned())).collect();
                    Ok(Some((buf, vals)))
                }
            },
        }
    });
    match res {
        Err((site, msg)) => Err(format!("panic at {}: {}", site, msg)),
        Ok(x) => x,
    }
}

pub fn judge(c: &MixedCase) -> Vec<(String, String, &'static str)> {
    judge_w(c).0
}

/// (failures, whether the writer accepted the mixed column)
pub fn judge_w(c: &MixedCase) -> (Vec<(String, String, &'static str)>, bool) {
    let mut out = Vec::new();
    let tag = c.values.iter().map(|v| v.0.clone()).collect::<Vec<_>>().join("+");
    // each value alone
    let mut alone: Vec<Option<Variant>> = Vec::new();
    for i in 0..c.values.len() {
        match real_round_trip(&build(c, Some(i)), &c.prop) {
            Ok(Some((_, v))) => alone.push(v.into_iter().next().flatten()),
            _ => alone.push(None),
        }
    }
    let dom = build(c, None);
    let (bytes, got) = match real_round_trip(&dom, &c.prop) {
        Err(e) => {
            out.push((format!("mixed|{}|{}|failure", c.class, tag), format!("{} [{:?}]", e, c.values), "C01"));
            return (out, true);
        }
        Ok(None) => return (out, false),
        Ok(Some(x)) => x,
    };
    for (i, g) in got.iter().enumerate() {
        let Some(a) = &alone[i] else { continue };
        match g {
            None => out.push((format!("mixed|{}|{}|lost", c.class, tag), format!("instance {} of {:?} lost {} in a column it shares with the others (alone it reads back as {})", i, c.values, c.prop, r(a)), "C01")),
            Some(g) if !equivalent(a, g) => out.push((
                format!("mixed|{}|{}|value", c.class, tag),
                format!("instance {} of {:?}: {} reads back as {} from the shared column, as {} from a file of its own", i, c.values, c.prop, r(g), r(a)),
                "C01",
            )),
            _ => {}
        }
    }
    // the file itself, read by the independent decoder
    match crate::specbin::decode(&bytes, crate::specbin::Switches { uniqueid_impl: true, faces_impl: true, content_impl: true }) {
        Err(e) => out.push((format!("mixed|{}|{}|spec-unreadable", c.class, tag), format!("the independent decoder cannot read the written file: {} [{:?}]", e, c.values), "C03")),
        Ok(f) => {
            let names = f.props.iter().find(|p| p.name == "Name");
            let col = f.props.iter().find(|p| p.name == c.prop);
            if let (Some(names), Some(col)) = (names, col) {
                for (k, nm) in names.values.iter().enumerate() {
                    let idx = match nm {
                        crate::specbin::Wire::V(v) => bytes_like(v).and_then(|b| String::from_utf8(b).ok()).and_then(|s| s.trim_start_matches('i').parse::<usize>().ok()),
                        _ => None,
                    };
                    let (Some(i), Some(crate::specbin::Wire::V(w))) = (idx, col.values.get(k)) else { continue };
                    let Some(a) = alone.get(i).and_then(|x| x.as_ref()) else { continue };
                    // the file must hold the DOM's value (C03); what rbx_binary's own reader makes of
                    // it alone is accepted too (documented normalisations such as rotation snapping)
                    let original = lookup(&c.values[i].0, &c.values[i].1);
                    if !equivalent(&original, w) && !equivalent(a, w) {
                        out.push((
                            format!("mixed|{}|{}|spec-value", c.class, tag),
                            format!("instance {} of {:?}: the file stores {} for {}, the value reads back as {} from a file of its own", i, c.values, r(w), c.prop, r(a)),
                            "C03",
                        ));
                    }
                }
            }
        }
    }
    (out, true)
}

pub fn cases(tier: Tier) -> Vec<MixedCase> {
    let types = mixed_types();
    let cap = if tier == Tier::Thorough { 64 } else { 24 };
    let mut out = Vec::new();
    let mut targets: Vec<(String, String)> = vec![("ZzUnknownClass".into(), "ZzMixed".into()), ("Folder".into(), "ZzMixed".into())];
    // declared numeric properties: a neighbouring numeric type on a declared column
    for t in mixed_types() {
        if group(t) == 0 {
            continue;
        }
        if let Some((c, p, _)) = crate::specdb::known_property_for(t) {
            if !targets.contains(&(c.clone(), p.clone())) {
                targets.push((c, p));
            }
        }
    }
    for (ti, (class, prop)) in targets.iter().enumerate() {
        for a in &types {
            for b in &types {
                if a == b {
                    continue;
                }
                let related = group(*a) != 0 && group(*a) == group(*b);
                // declared properties: only values of the declared type's family
                if ti >= 2 && !related {
                    continue;
                }
                let la = alphabet(*a, Codec::Binary, false);
                let lb = alphabet(*b, Codec::Binary, false);
                let (na, nb) = if related { (la.len().min(cap), lb.len().min(cap)) } else { (2.min(la.len()), 2.min(lb.len())) };
                for x in la.iter().take(na) {
                    for y in lb.iter().take(nb) {
                        out.push(MixedCase { class: class.clone(), prop: prop.clone(), values: vec![(type_name(*a), x.label.clone()), (type_name(*b), y.label.clone())] });
                    }
                }
                // three instances: the odd one in the middle
                if related {
                    if let (Some(x), Some(y)) = (la.first(), lb.last()) {
                        out.push(MixedCase { class: class.clone(), prop: prop.clone(), values: vec![(type_name(*a), x.label.clone()), (type_name(*b), y.label.clone()), (type_name(*a), la.last().unwrap().label.clone())] });
                    }
                }
            }
        }
    }
    out
}

/// Runs the sweep for one of the two properties and merges it into `total`; returns a summary.
pub fn sweep(run: &crate::evidence::Run, prop: &'static str, total: &mut crate::sweeps::SweepOut) -> serde_json::Value {
    let cs = cases(run.tier);
    let o = crate::sweeps::run_cases(&cs, &|_, c, out| {
        out.executions += 1 + c.values.len() as u64;
        let (vs, wrote) = judge_w(c);
        out.outcome(if wrote { "mixed-column:written" } else { "mixed-column:writer-refuses" });
        for (k, w, p) in vs {
            if p == prop {
                out.violation(k, w, || serde_json::json!({"mixed": c}));
            }
        }
    });
    let summary = serde_json::json!({"mixed_column_cases": o.cases, "outcomes": o.outcomes});
    total.merge(o);
    summary
}

pub fn replay(case: &serde_json::Value, prop: &str) -> Vec<(String, String)> {
    let c: MixedCase = serde_json::from_value(case.clone()).unwrap_or_else(|e| crate::evidence::machinery_failure(&format!("bad replay: {}", e)));
    let a: Vec<_> = judge(&c).into_iter().filter(|x| x.2 == prop).map(|x| (x.0, x.1)).collect();
    let b: Vec<_> = judge(&c).into_iter().filter(|x| x.2 == prop).map(|x| (x.0, x.1)).collect();
    if a != b {
        crate::evidence::machinery_failure("replay gave two different observations");
    }
    a
}
