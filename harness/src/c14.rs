//! C14: attribute blobs — round trip through the real encoder/decoder and
//! agreement with an independent codec written from docs/attributes.md.

use std::collections::BTreeMap;

use rbx_types::{
    Attributes, BinaryString, BrickColor, CFrame, Color3, ColorSequence, ColorSequenceKeypoint, EnumItem, Font,
    FontStyle, FontWeight, Matrix3, NumberRange, NumberSequence, NumberSequenceKeypoint, Rect, UDim, UDim2, Variant,
    VariantType, Vector2, Vector3,
};
use serde::{Deserialize, Serialize};
use serde_json::{json, Value};

use crate::evidence::{Run, Tier};
use crate::sweeps::{run_cases, SweepOut};
use crate::vals::{alphabet, render, snap_rotation, Codec, FloatMode, LV};

pub fn attr_types() -> Vec<VariantType> {
    use VariantType::*;
    vec![
        String, BinaryString, Bool, Int32, Float32, Float64, UDim, UDim2, BrickColor, Color3, Vector2, Vector3, CFrame,
        EnumItem, NumberSequence, ColorSequence, NumberRange, Rect, Font,
    ]
}

// ---------------------------------------------------------------------------
// specattr: written from docs/attributes.md only

pub mod specattr {
    use super::*;

    /// The 24 axis-aligned rotation ids of the document's table, in the
    /// `6 * x_axis + y_axis + 1` numbering the table follows, mapped to
    /// matrices independently of rbx_types: id -> rows.
    pub fn rotation_from_id(id: u8) -> Option<Matrix3> {
        // normal ids: 0:+X 1:+Y 2:+Z 3:-X 4:-Y 5:-Z ; id = 6*r0 + r1 + 1 where
        // r0/r1 are the normal ids of the first and second *columns*.
        if id == 0 {
            return None;
        }
        let k = id - 1;
        let (c0, c1) = (k / 6, k % 6);
        if c0 >= 6 || c0 % 3 == c1 % 3 {
            return None;
        }
        let axis = |n: u8| -> [f32; 3] {
            let mut v = [0.0f32; 3];
            v[(n % 3) as usize] = if n >= 3 { -1.0 } else { 1.0 };
            v
        };
        let a = axis(c0);
        let b = axis(c1);
        // third column = a x b
        let c = [
            a[1] * b[2] - a[2] * b[1],
            a[2] * b[0] - a[0] * b[2],
            a[0] * b[1] - a[1] * b[0],
        ];
        // +0.0 instead of -0.0
        let z = |x: f32| if x == 0.0 { 0.0 } else { x };
        Some(Matrix3::new(
            Vector3::new(z(a[0]), z(b[0]), z(c[0])),
            Vector3::new(z(a[1]), z(b[1]), z(c[1])),
            Vector3::new(z(a[2]), z(b[2]), z(c[2])),
        ))
    }

    pub fn rotation_id(m: &Matrix3) -> Option<u8> {
        for id in 1..=36u8 {
            if let Some(r) = rotation_from_id(id) {
                let same = |a: &Vector3, b: &Vector3| a.x == b.x && a.y == b.y && a.z == b.z;
                if same(&r.x, &m.x) && same(&r.y, &m.y) && same(&r.z, &m.z) {
                    return Some(id);
                }
            }
        }
        None
    }

    struct Rd<'a> {
        b: &'a [u8],
        p: usize,
    }
    impl<'a> Rd<'a> {
        fn take(&mut self, n: usize) -> Result<&'a [u8], String> {
            if self.p + n > self.b.len() {
                return Err(format!("truncated at {}", self.p));
            }
            let s = &self.b[self.p..self.p + n];
            self.p += n;
            Ok(s)
        }
        fn u8(&mut self) -> Result<u8, String> {
            Ok(self.take(1)?[0])
        }
        fn u16(&mut self) -> Result<u16, String> {
            let s = self.take(2)?;
            Ok(u16::from_le_bytes([s[0], s[1]]))
        }
        fn u32(&mut self) -> Result<u32, String> {
            let s = self.take(4)?;
            Ok(u32::from_le_bytes([s[0], s[1], s[2], s[3]]))
        }
        fn i32(&mut self) -> Result<i32, String> {
            Ok(self.u32()? as i32)
        }
        fn f32(&mut self) -> Result<f32, String> {
            Ok(f32::from_bits(self.u32()?))
        }
        fn f64(&mut self) -> Result<f64, String> {
            let s = self.take(8)?;
            let mut a = [0u8; 8];
            a.copy_from_slice(s);
            Ok(f64::from_le_bytes(a))
        }
        fn string(&mut self) -> Result<Vec<u8>, String> {
            let n = self.u32()? as usize;
            Ok(self.take(n)?.to_vec())
        }
        fn v3(&mut self) -> Result<Vector3, String> {
            Ok(Vector3::new(self.f32()?, self.f32()?, self.f32()?))
        }
    }

    /// Decodes a blob; values come back as (name, Variant) in file order.
    pub fn decode(bytes: &[u8]) -> Result<Vec<(String, Variant)>, String> {
        let mut out = Vec::new();
        if bytes.is_empty() {
            return Ok(out);
        }
        let mut r = Rd { b: bytes, p: 0 };
        let n = r.u32()?;
        for _ in 0..n {
            let name = String::from_utf8(r.string()?).map_err(|e| e.to_string())?;
            let ty = r.u8()?;
            let v: Variant = match ty {
                0x02 => Variant::BinaryString(BinaryString::from(r.string()?)),
                0x03 => Variant::Bool(r.u8()? != 0),
                0x04 => Variant::Int32(r.i32()?),
                0x05 => Variant::Float32(r.f32()?),
                0x06 => Variant::Float64(r.f64()?),
                0x09 => Variant::UDim(UDim::new(r.f32()?, r.i32()?)),
                0x0A => Variant::UDim2(UDim2::new(UDim::new(r.f32()?, r.i32()?), UDim::new(r.f32()?, r.i32()?))),
                0x0E => {
                    let n = r.u32()?;
                    let b = u16::try_from(n).ok().and_then(BrickColor::from_number).ok_or(format!("bad BrickColor {}", n))?;
                    Variant::BrickColor(b)
                }
                0x0F => Variant::Color3(Color3::new(r.f32()?, r.f32()?, r.f32()?)),
                0x10 => Variant::Vector2(Vector2::new(r.f32()?, r.f32()?)),
                0x11 => Variant::Vector3(r.v3()?),
                0x14 => {
                    let pos = r.v3()?;
                    let id = r.u8()?;
                    let rot = if id == 0 {
                        Matrix3::new(r.v3()?, r.v3()?, r.v3()?)
                    } else {
                        rotation_from_id(id).ok_or(format!("bad rotation id {}", id))?
                    };
                    Variant::CFrame(CFrame::new(pos, rot))
                }
                0x15 => {
                    let ty = String::from_utf8(r.string()?).map_err(|e| e.to_string())?;
                    Variant::EnumItem(EnumItem { ty, value: r.u32()? })
                }
                0x17 => {
                    let k = r.u32()?;
                    let mut kp = Vec::new();
                    for _ in 0..k {
                        let envelope = r.f32()?;
                        let time = r.f32()?;
                        let value = r.f32()?;
                        kp.push(NumberSequenceKeypoint::new(time, value, envelope));
                    }
                    Variant::NumberSequence(NumberSequence { keypoints: kp })
                }
                0x19 => {
                    let k = r.u32()?;
                    let mut kp = Vec::new();
                    for _ in 0..k {
                        let _envelope = r.f32()?;
                        let time = r.f32()?;
                        let c = Color3::new(r.f32()?, r.f32()?, r.f32()?);
                        kp.push(ColorSequenceKeypoint::new(time, c));
                    }
                    Variant::ColorSequence(ColorSequence { keypoints: kp })
                }
                0x1B => Variant::NumberRange(NumberRange::new(r.f32()?, r.f32()?)),
                0x1C => Variant::Rect(Rect::new(Vector2::new(r.f32()?, r.f32()?), Vector2::new(r.f32()?, r.f32()?))),
                0x21 => {
                    let weight = r.u16()?;
                    let style = r.u8()?;
                    let family = String::from_utf8(r.string()?).map_err(|e| e.to_string())?;
                    let cached = String::from_utf8(r.string()?).map_err(|e| e.to_string())?;
                    Variant::Font(Font {
                        family,
                        weight: FontWeight::from_u16(weight).ok_or(format!("bad weight {}", weight))?,
                        style: FontStyle::from_u8(style).ok_or(format!("bad style {}", style))?,
                        cached_face_id: if cached.is_empty() { None } else { Some(cached) },
                    })
                }
                other => return Err(format!("unknown attribute type id {:#x}", other)),
            };
            out.push((name, v));
        }
        if r.p != bytes.len() {
            return Err(format!("{} trailing bytes", bytes.len() - r.p));
        }
        Ok(out)
    }

    fn put_str(out: &mut Vec<u8>, s: &[u8]) {
        out.extend_from_slice(&(s.len() as u32).to_le_bytes());
        out.extend_from_slice(s);
    }
    fn put_f32(out: &mut Vec<u8>, f: f32) {
        out.extend_from_slice(&f.to_bits().to_le_bytes());
    }
    fn put_v3(out: &mut Vec<u8>, v: &Vector3) {
        put_f32(out, v.x);
        put_f32(out, v.y);
        put_f32(out, v.z);
    }

    /// Encodes entries (given in name order) to the letter of the document.
    pub fn encode(entries: &[(String, Variant)]) -> Option<Vec<u8>> {
        let mut out = Vec::new();
        if entries.is_empty() {
            return Some(out);
        }
        out.extend_from_slice(&(entries.len() as u32).to_le_bytes());
        for (name, v) in entries {
            put_str(&mut out, name.as_bytes());
            match v {
                Variant::String(s) => {
                    out.push(0x02);
                    put_str(&mut out, s.as_bytes());
                }
                Variant::BinaryString(b) => {
                    out.push(0x02);
                    put_str(&mut out, b.as_ref());
                }
                Variant::Bool(b) => {
                    out.push(0x03);
                    out.push(*b as u8);
                }
                Variant::Int32(i) => {
                    out.push(0x04);
                    out.extend_from_slice(&i.to_le_bytes());
                }
                Variant::Float32(f) => {
                    out.push(0x05);
                    put_f32(&mut out, *f);
                }
                Variant::Float64(f) => {
                    out.push(0x06);
                    out.extend_from_slice(&f.to_bits().to_le_bytes());
                }
                Variant::UDim(u) => {
                    out.push(0x09);
                    put_f32(&mut out, u.scale);
                    out.extend_from_slice(&u.offset.to_le_bytes());
                }
                Variant::UDim2(u) => {
                    out.push(0x0A);
                    put_f32(&mut out, u.x.scale);
                    out.extend_from_slice(&u.x.offset.to_le_bytes());
                    put_f32(&mut out, u.y.scale);
                    out.extend_from_slice(&u.y.offset.to_le_bytes());
                }
                Variant::BrickColor(b) => {
                    out.push(0x0E);
                    out.extend_from_slice(&(*b as u16 as u32).to_le_bytes());
                }
                Variant::Color3(c) => {
                    out.push(0x0F);
                    put_f32(&mut out, c.r);
                    put_f32(&mut out, c.g);
                    put_f32(&mut out, c.b);
                }
                Variant::Vector2(v) => {
                    out.push(0x10);
                    put_f32(&mut out, v.x);
                    put_f32(&mut out, v.y);
                }
                Variant::Vector3(v) => {
                    out.push(0x11);
                    put_v3(&mut out, v);
                }
                Variant::CFrame(c) => {
                    out.push(0x14);
                    put_v3(&mut out, &c.position);
                    match rotation_id(&c.orientation) {
                        Some(id) => out.push(id),
                        None => {
                            out.push(0);
                            put_v3(&mut out, &c.orientation.x);
                            put_v3(&mut out, &c.orientation.y);
                            put_v3(&mut out, &c.orientation.z);
                        }
                    }
                }
                Variant::EnumItem(e) => {
                    out.push(0x15);
                    put_str(&mut out, e.ty.as_bytes());
                    out.extend_from_slice(&e.value.to_le_bytes());
                }
                Variant::NumberSequence(s) => {
                    out.push(0x17);
                    out.extend_from_slice(&(s.keypoints.len() as u32).to_le_bytes());
                    for k in &s.keypoints {
                        put_f32(&mut out, k.envelope);
                        put_f32(&mut out, k.time);
                        put_f32(&mut out, k.value);
                    }
                }
                Variant::ColorSequence(s) => {
                    out.push(0x19);
                    out.extend_from_slice(&(s.keypoints.len() as u32).to_le_bytes());
                    for k in &s.keypoints {
                        put_f32(&mut out, 0.0);
                        put_f32(&mut out, k.time);
                        put_f32(&mut out, k.color.r);
                        put_f32(&mut out, k.color.g);
                        put_f32(&mut out, k.color.b);
                    }
                }
                Variant::NumberRange(r) => {
                    out.push(0x1B);
                    put_f32(&mut out, r.min);
                    put_f32(&mut out, r.max);
                }
                Variant::Rect(r) => {
                    out.push(0x1C);
                    put_f32(&mut out, r.min.x);
                    put_f32(&mut out, r.min.y);
                    put_f32(&mut out, r.max.x);
                    put_f32(&mut out, r.max.y);
                }
                Variant::Font(f) => {
                    out.push(0x21);
                    out.extend_from_slice(&f.weight.as_u16().to_le_bytes());
                    out.push(f.style.as_u8());
                    put_str(&mut out, f.family.as_bytes());
                    put_str(&mut out, f.cached_face_id.as_deref().unwrap_or("").as_bytes());
                }
                _ => return None,
            }
        }
        Some(out)
    }

    fn hex(s: &str) -> Vec<u8> {
        s.split_whitespace().map(|b| u8::from_str_radix(b, 16).unwrap()).collect()
    }

    /// Worked examples printed in docs/attributes.md: (type id, value bytes, value).
    pub fn doc_vectors() -> Vec<(&'static str, Vec<u8>, Variant)> {
        let kp = |t: f32, v: f32, e: f32| NumberSequenceKeypoint::new(t, v, e);
        let ckp = |t: f32, r: f32, g: f32, b: f32| ColorSequenceKeypoint::new(t, Color3::new(r, g, b));
        let c = 0.70710677f32; // f3 04 35 3f
        vec![
            ("UDim {123,456}", [vec![0x09], hex("00 00 f6 42 c8 01 00 00")].concat(), Variant::UDim(UDim::new(123.0, 456))),
            ("UDim2 {1,2,3,4}", [vec![0x0A], hex("00 00 80 3f 02 00 00 00 00 00 40 40 04 00 00 00")].concat(), Variant::UDim2(UDim2::new(UDim::new(1.0, 2), UDim::new(3.0, 4)))),
            ("Color3 0,102,255", [vec![0x0F], hex("00 00 00 00 cd cc cc 3e 00 00 80 3f")].concat(), Variant::Color3(Color3::new(0.0, 0.4, 1.0))),
            ("Vector2 10,20", [vec![0x10], hex("00 00 20 41 00 00 a0 41")].concat(), Variant::Vector2(Vector2::new(10.0, 20.0))),
            ("Vector3 10,20,30", [vec![0x11], hex("00 00 20 41 00 00 a0 41 00 00 f0 41")].concat(), Variant::Vector3(Vector3::new(10.0, 20.0, 30.0))),
            (
                "CFrame angles(0,45,0)",
                [vec![0x14], hex("00 00 80 3f 00 00 00 40 00 00 40 40 00 f3 04 35 3f 00 00 00 00 f3 04 35 3f 00 00 00 00 00 00 80 3f 00 00 00 00 f3 04 35 bf 00 00 00 00 f3 04 35 3f")].concat(),
                Variant::CFrame(CFrame::new(
                    Vector3::new(1.0, 2.0, 3.0),
                    Matrix3::new(Vector3::new(c, 0.0, c), Vector3::new(0.0, 1.0, 0.0), Vector3::new(-c, 0.0, c)),
                )),
            ),
            ("CFrame identity", [vec![0x14], hex("00 00 80 3f 00 00 00 40 00 00 40 40 02")].concat(), Variant::CFrame(CFrame::new(Vector3::new(1.0, 2.0, 3.0), Matrix3::identity()))),
            (
                "NumberSequence",
                [vec![0x17], hex("03 00 00 00 00 00 00 00 00 00 00 00 00 00 00 00 00 00 00 00 00 00 00 3f 00 00 80 3f 00 00 00 3f 00 00 80 3f 00 00 80 3f")].concat(),
                Variant::NumberSequence(NumberSequence { keypoints: vec![kp(0.0, 0.0, 0.0), kp(0.5, 1.0, 0.0), kp(1.0, 1.0, 0.5)] }),
            ),
            (
                "ColorSequence",
                [vec![0x19], hex("03 00 00 00 00 00 00 00 00 00 00 00 00 00 80 3f 00 00 00 00 00 00 00 00 00 00 00 00 00 00 00 3f 00 00 00 00 00 00 80 3f 00 00 00 00 00 00 00 00 00 00 80 3f 00 00 00 00 00 00 00 00 00 00 80 3f")].concat(),
                Variant::ColorSequence(ColorSequence { keypoints: vec![ckp(0.0, 1.0, 0.0, 0.0), ckp(0.5, 0.0, 1.0, 0.0), ckp(1.0, 0.0, 0.0, 1.0)] }),
            ),
            ("Rect 10,20,30,40", [vec![0x1C], hex("00 00 20 41 00 00 a0 41 00 00 f0 41 00 00 20 42")].concat(), Variant::Rect(Rect::new(Vector2::new(10.0, 20.0), Vector2::new(30.0, 40.0)))),
            (
                "Font SourceSansPro",
                [vec![0x21], hex("90 01 00 2C 00 00 00 72 62 78 61 73 73 65 74 3A 2F 2F 66 6F 6E 74 73 2F 66 61 6D 69 6C 69 65 73 2F 53 6F 75 72 63 65 53 61 6E 73 50 72 6F 2E 6A 73 6F 6E 2A 00 00 00 72 62 78 61 73 73 65 74 3A 2F 2F 66 6F 6E 74 73 2F 53 6F 75 72 63 65 53 61 6E 73 50 72 6F 2D 52 65 67 75 6C 61 72 2E 74 74 66")].concat(),
                Variant::Font(Font {
                    family: "rbxasset://fonts/families/SourceSansPro.json".to_owned(),
                    weight: FontWeight::Regular,
                    style: FontStyle::Normal,
                    cached_face_id: Some("rbxasset://fonts/SourceSansPro-Regular.ttf".to_owned()),
                }),
            ),
        ]
    }

    /// Binds the spec codec to the document: every worked example must decode
    /// to the stated value and re-encode to the same bytes.
    pub fn self_check() -> Result<usize, String> {
        let mut n = 0;
        for (what, value_bytes, value) in doc_vectors() {
            // wrap as a one-entry blob named "a"
            let mut blob = vec![1, 0, 0, 0, 1, 0, 0, 0, b'a'];
            blob.extend_from_slice(&value_bytes);
            let dec = decode(&blob).map_err(|e| format!("{}: {}", what, e))?;
            let r = |v: &Variant| render(v, FloatMode::Exact, &|_| "?".into());
            if dec.len() != 1 || r(&dec[0].1) != r(&value) {
                return Err(format!("{}: decodes to {:?}", what, dec));
            }
            let enc = encode(&[("a".to_owned(), value.clone())]).ok_or("encode")?;
            if enc != blob {
                return Err(format!("{}: re-encodes differently", what));
            }
            n += 1;
        }
        // NumberRange example in the document ("10, 20" printed as a0 40 / 20 41 = 5, 10) contradicts
        // itself; the prose (two f32, Min then Max) is followed.
        Ok(n)
    }
}

// ---------------------------------------------------------------------------

#[derive(Clone, Debug, Serialize, Deserialize)]
pub struct AttrCase {
    /// (name, type name, value label)
    pub entries: Vec<(String, String, String)>,
}

fn lookup(ty: &str, label: &str) -> Variant {
    // padding entry of a given length (position sweeps)
    if ty == "Pad" {
        let n: usize = label.parse().expect("pad length");
        return Variant::BinaryString(BinaryString::from((0..n).map(|i| (i % 251) as u8).collect::<Vec<u8>>()));
    }
    let vt = attr_types().into_iter().find(|t| crate::vals::type_name(*t) == ty).expect("attr type");
    alphabet(vt, Codec::Attributes, true)
        .into_iter()
        .find(|l| l.label == label)
        .unwrap_or_else(|| panic!("label {} of {}", label, ty))
        .v
}

/// Expected value after a round trip through the real codec.
fn expected_value(v: &Variant) -> Variant {
    match v {
        Variant::String(s) => Variant::BinaryString(BinaryString::from(s.as_bytes().to_vec())),
        Variant::CFrame(c) => Variant::CFrame(CFrame::new(c.position, snap_rotation(&c.orientation))),
        other => other.clone(),
    }
}

fn r(v: &Variant) -> String {
    render(v, FloatMode::Exact, &|_| "?".into())
}

pub fn judge(case: &AttrCase) -> Vec<(String, String)> {
    let mut out = Vec::new();
    let mut map: BTreeMap<String, Variant> = BTreeMap::new();
    for (n, t, l) in &case.entries {
        map.insert(n.clone(), lookup(t, l));
    }
    let types: Vec<&str> = case.entries.iter().map(|e| e.1.as_str()).collect();
    let tag = format!("{}", types.join("+"));
    let label1 = case.entries.first().map(|e| e.2.clone()).unwrap_or_default();
    let mut attrs = Attributes::new();
    for (k, v) in &map {
        attrs.insert(k.clone(), v.clone());
    }
    // 1. real encode
    let enc = crate::evidence::guarded(|| {
        let mut buf = Vec::new();
        attrs.to_writer(&mut buf).map(|_| buf).map_err(|e| e.to_string())
    });
    let bytes = match enc {
        Err((site, msg)) => {
            out.push((format!("attr|encode-panic|{}", crate::evidence::panic_signature(&site, &msg)), format!("Attributes::to_writer panicked at {}: {} [{:?}]", site, msg, case.entries)));
            return out;
        }
        Ok(Err(e)) => {
            out.push((format!("attr|encode-err|{}", tag), format!("Attributes::to_writer failed for supported types: {} [{:?}]", e, case.entries)));
            return out;
        }
        Ok(Ok(b)) => b,
    };
    if map.is_empty() && !bytes.is_empty() {
        out.push(("attr|empty-not-zero-bytes".into(), format!("empty map encodes to {} bytes", bytes.len())));
    }
    // 2. real decode of real bytes
    let dec = crate::evidence::guarded(|| Attributes::from_reader(bytes.as_slice()).map_err(|e| e.to_string()));
    match dec {
        Err((site, msg)) => out.push((format!("attr|decode-panic|{}", crate::evidence::panic_signature(&site, &msg)), format!("Attributes::from_reader panicked at {}: {}", site, msg))),
        Ok(Err(e)) => out.push((format!("attr|decode-err|{}|{}", tag, label1), format!("Attributes::from_reader rejects to_writer's output: {} [{:?}]", e, case.entries))),
        Ok(Ok(back)) => {
            let got: BTreeMap<String, String> = back.iter().map(|(k, v)| (k.clone(), r(v))).collect();
            let want: BTreeMap<String, String> = map.iter().map(|(k, v)| (k.clone(), r(&expected_value(v)))).collect();
            if got != want {
                let (k, _) = want.iter().find(|(k, v)| got.get(*k) != Some(v)).map(|(k, v)| (k.clone(), v.clone())).unwrap_or_default();
                let entry = case.entries.iter().find(|e| e.0 == k);
                out.push((
                    format!("attr|roundtrip|{}|{}", entry.map(|e| e.1.as_str()).unwrap_or("names"), entry.map(|e| e.2.as_str()).unwrap_or("")),
                    format!("round trip changed attribute {:?}: expected {:?} got {:?} [{:?}]", k, want.get(&k), got.get(&k), case.entries),
                ));
            }
        }
    }
    // 3. independent decoder on the real bytes
    match specattr::decode(&bytes) {
        Err(e) => out.push((format!("attr|spec-decode-err|{}|{}", tag, label1), format!("bytes written by Attributes::to_writer do not follow docs/attributes.md: {} [{:?}]", e, case.entries))),
        Ok(list) => {
            let got: Vec<(String, String)> = list.iter().map(|(k, v)| (k.clone(), r(v))).collect();
            let want: Vec<(String, String)> = map.iter().map(|(k, v)| (k.clone(), r(&expected_value(v)))).collect();
            if got != want {
                let bad = want.iter().zip(got.iter()).find(|(a, b)| a != b).map(|(a, _)| a.0.clone()).unwrap_or_default();
                let entry = case.entries.iter().find(|e| e.0 == bad);
                out.push((
                    format!("attr|spec-decode-value|{}|{}", entry.map(|e| e.1.as_str()).unwrap_or("order-or-count"), entry.map(|e| e.2.as_str()).unwrap_or("")),
                    format!("the spec decoder reads other values from the written blob: expected {:?} got {:?}", want, got),
                ));
            }
        }
    }
    // 4. real decoder on the independent encoder's bytes
    let entries: Vec<(String, Variant)> = map.iter().map(|(k, v)| (k.clone(), v.clone())).collect();
    if let Some(spec_bytes) = specattr::encode(&entries) {
        let dec = crate::evidence::guarded(|| Attributes::from_reader(spec_bytes.as_slice()).map_err(|e| e.to_string()));
        match dec {
            Err((site, msg)) => out.push((format!("attr|decode-panic|{}", crate::evidence::panic_signature(&site, &msg)), format!("Attributes::from_reader panicked on a spec-built blob at {}: {}", site, msg))),
            Ok(Err(e)) => out.push((format!("attr|spec-blob-rejected|{}|{}", tag, label1), format!("a blob built from docs/attributes.md is rejected: {} [{:?}]", e, case.entries))),
            Ok(Ok(back)) => {
                let got: BTreeMap<String, String> = back.iter().map(|(k, v)| (k.clone(), r(v))).collect();
                // the spec encoder writes exact matrices unless they are exactly a basic rotation: no snapping
                let want: BTreeMap<String, String> = map
                    .iter()
                    .map(|(k, v)| {
                        let e = match v {
                            Variant::String(s) => Variant::BinaryString(BinaryString::from(s.as_bytes().to_vec())),
                            // written as a rotation id when it *is* axis-aligned (-0.0 == 0.0)
                            Variant::CFrame(c) => match specattr::rotation_id(&c.orientation).and_then(specattr::rotation_from_id) {
                                Some(m) => Variant::CFrame(CFrame::new(c.position, m)),
                                None => v.clone(),
                            },
                            o => o.clone(),
                        };
                        (k.clone(), r(&e))
                    })
                    .collect();
                if got != want {
                    let k = want.iter().find(|(k, v)| got.get(*k) != Some(v)).map(|(k, _)| k.clone()).unwrap_or_default();
                    let entry = case.entries.iter().find(|e| e.0 == k);
                    out.push((
                        format!("attr|spec-blob-value|{}|{}", entry.map(|e| e.1.as_str()).unwrap_or("names"), entry.map(|e| e.2.as_str()).unwrap_or("")),
                        format!("a blob built from docs/attributes.md decodes to other values: {:?} expected {:?} got {:?}", k, want.get(&k), got.get(&k)),
                    ));
                }
            }
        }
    }
    out
}

/// File level: the Attributes property of an instance after a binary and an
/// XML round trip equals the (normalised) map.
pub fn judge_file(case: &AttrCase) -> Vec<(String, String)> {
    use rbx_dom_weak::{InstanceBuilder, WeakDom};
    let mut out = Vec::new();
    let mut attrs = Attributes::new();
    let mut want: BTreeMap<String, String> = BTreeMap::new();
    for (n, t, l) in &case.entries {
        let v = lookup(t, l);
        want.insert(n.clone(), r(&expected_value(&v)));
        attrs.insert(n.clone(), v);
    }
    let dom = WeakDom::new(InstanceBuilder::new("DataModel").with_child(InstanceBuilder::new("Folder").with_property("Attributes", attrs)));
    let roots = dom.root().children().to_vec();
    let mut results: Vec<(&str, Option<BTreeMap<String, String>>)> = Vec::new();
    let b = crate::evidence::guarded(|| {
        let mut buf = Vec::new();
        rbx_binary::to_writer(&mut buf, &dom, &roots).ok()?;
        let d = rbx_binary::from_reader(buf.as_slice()).ok()?;
        let i = d.get_by_ref(*d.root().children().first()?)?;
        match i.properties.get(&"Attributes".into()) {
            Some(Variant::Attributes(a)) => Some(a.iter().map(|(k, v)| (k.clone(), r(v))).collect::<BTreeMap<_, _>>()),
            None if want.is_empty() => Some(BTreeMap::new()),
            _ => None,
        }
    });
    results.push(("binary", b.ok().flatten()));
    let x = crate::evidence::guarded(|| {
        let mut buf = Vec::new();
        rbx_xml::to_writer_default(&mut buf, &dom, &roots).ok()?;
        let d = rbx_xml::from_reader_default(buf.as_slice()).ok()?;
        let i = d.get_by_ref(*d.root().children().first()?)?;
        match i.properties.get(&"Attributes".into()) {
            Some(Variant::Attributes(a)) => Some(a.iter().map(|(k, v)| (k.clone(), r(v))).collect::<BTreeMap<_, _>>()),
            None if want.is_empty() => Some(BTreeMap::new()),
            _ => None,
        }
    });
    results.push(("xml", x.ok().flatten()));
    let ty = case.entries.first().map(|e| e.1.clone()).unwrap_or_default();
    let lb = case.entries.first().map(|e| e.2.clone()).unwrap_or_default();
    for (codec, got) in results {
        match got {
            None => out.push((format!("attr|file-{}|lost|{}|{}", codec, ty, lb), format!("Attributes property did not survive the {} file round trip [{:?}]", codec, case.entries))),
            Some(g) if g != want => out.push((format!("attr|file-{}|value|{}|{}", codec, ty, lb), format!("Attributes property changed in the {} file round trip: expected {:?} got {:?}", codec, want, g))),
            _ => {}
        }
    }
    out
}

/// Clause (3): "the same blob is what both file formats store for the Attributes property".
/// Three instances of one class (another map, the case's map, no attributes) are written by both
/// codecs; the stored bytes are pulled out of the binary file by the independent decoder and out
/// of the XML text by hand, and must equal what `Attributes::to_writer` produces for each instance.
pub fn judge_stored_blobs(case: &AttrCase) -> Vec<(String, String)> {
    use rbx_dom_weak::{InstanceBuilder, WeakDom};
    let mut out = Vec::new();
    let mut attrs = Attributes::new();
    for (n, t, l) in &case.entries {
        attrs.insert(n.clone(), lookup(t, l));
    }
    let other = Attributes::new().with("zz-other", Variant::Bool(true)).with("n", Variant::Float64(2.5));
    let blob = |a: &Attributes| -> Vec<u8> {
        let mut b = Vec::new();
        let _ = a.to_writer(&mut b);
        b
    };
    let want = [blob(&other), blob(&attrs), Vec::new()];
    let ty = case.entries.first().map(|e| e.1.clone()).unwrap_or_default();
    let lb = case.entries.first().map(|e| e.2.clone()).unwrap_or_default();
    for order in 0..2 {
        let mut kids = vec![
            InstanceBuilder::new("Folder").with_name("i0").with_property("Attributes", other.clone()),
            InstanceBuilder::new("Folder").with_name("i1").with_property("Attributes", attrs.clone()),
            InstanceBuilder::new("Folder").with_name("i2"),
        ];
        let mut want_now = want.to_vec();
        if order == 1 {
            kids.swap(0, 1);
            want_now.swap(0, 1);
        }
        let mut root = InstanceBuilder::new("DataModel");
        for k in kids {
            root = root.with_child(k);
        }
        let dom = WeakDom::new(root);
        let roots = dom.root().children().to_vec();
        // binary: the String-typed column AttributesSerialize as the independent decoder sees it
        let b = crate::evidence::guarded(|| -> Option<Vec<Vec<u8>>> {
            let mut buf = Vec::new();
            rbx_binary::Serializer::new().compression_type(rbx_binary::CompressionType::None).serialize(&mut buf, &dom, &roots).ok()?;
            let f = crate::specbin::decode(&buf, crate::specbin::Switches { uniqueid_impl: true, faces_impl: true, content_impl: true }).ok()?;
            let p = f.props.iter().find(|p| p.name == "AttributesSerialize")?;
            Some(p.values.iter().map(|w| match w {
                crate::specbin::Wire::V(Variant::BinaryString(b)) => { let s: &[u8] = b.as_ref(); s.to_vec() }
                _ => vec![0xde, 0xad],
            }).collect())
        });
        match b {
            Ok(Some(got)) => {
                if got != want_now {
                    let k = got.iter().zip(&want_now).position(|(a, b)| a != b).unwrap_or(0);
                    out.push((format!("attr|stored-blob|binary|{}|{}", ty, lb), format!("binary file: instance {} of 3 stores {} bytes for AttributesSerialize, Attributes::to_writer gives {} bytes (order {}) [{:?}]", k, got.get(k).map(|x| x.len()).unwrap_or(0), want_now[k].len(), order, case.entries)));
                }
            }
            _ => out.push((format!("attr|stored-blob|binary-unreadable|{}|{}", ty, lb), format!("could not extract the AttributesSerialize column from the binary file [{:?}]", case.entries))),
        }
        // XML: the BinaryString elements named AttributesSerialize, in document order
        let x = crate::evidence::guarded(|| -> Option<Vec<Vec<u8>>> {
            let mut buf = Vec::new();
            rbx_xml::to_writer_default(&mut buf, &dom, &roots).ok()?;
            let text = String::from_utf8(buf).ok()?;
            let mut got = Vec::new();
            for item in text.split("<Item ").skip(1) {
                let open = "<BinaryString name=\"AttributesSerialize\">";
                match item.find(open) {
                    None => got.push(Vec::new()),
                    Some(a) => {
                        let rest = &item[a + open.len()..];
                        let end = rest.find("</BinaryString>")?;
                        let body: String = rest[..end].chars().filter(|c| !c.is_whitespace()).collect();
                        let body = body.trim_start_matches("<![CDATA[").trim_end_matches("]]>").to_owned();
                        got.push(base64::decode(body).ok()?);
                    }
                }
            }
            Some(got)
        });
        match x {
            Ok(Some(got)) => {
                if got != want_now {
                    let k = got.iter().zip(&want_now).position(|(a, b)| a != b).unwrap_or(0);
                    out.push((format!("attr|stored-blob|xml|{}|{}", ty, lb), format!("XML file: instance {} of 3 stores {} bytes for AttributesSerialize, Attributes::to_writer gives {} bytes (order {}) [{:?}]", k, got.get(k).map(|x| x.len()).unwrap_or(0), want_now.get(k).map(|x| x.len()).unwrap_or(0), order, case.entries)));
                }
            }
            _ => out.push((format!("attr|stored-blob|xml-unreadable|{}|{}", ty, lb), format!("could not extract the AttributesSerialize elements from the XML file [{:?}]", case.entries))),
        }
    }
    out
}

pub fn cases(tier: Tier) -> Vec<AttrCase> {
    // names up to and beyond 1 KiB: readers that treat the first block of a string specially
    let long_ascii = "n".repeat(1025);
    let long_multi = "\u{e9}".repeat(700);
    let names = ["", "a", "é", "a-forty-character-attribute-name-0123456", long_ascii.as_str(), long_multi.as_str()];
    let _ = tier;
    let mut all: Vec<(String, LV)> = Vec::new();
    let mut reps: Vec<(String, LV)> = Vec::new();
    for t in attr_types() {
        let a = alphabet(t, Codec::Attributes, true);
        for (i, v) in a.iter().enumerate() {
            all.push((crate::vals::type_name(t), v.clone()));
            if i < 2 {
                reps.push((crate::vals::type_name(t), v.clone()));
            }
        }
    }
    let mut out = vec![AttrCase { entries: vec![] }];
    for (t, v) in &all {
        for n in names {
            out.push(AttrCase { entries: vec![(n.to_owned(), t.clone(), v.label.clone())] });
        }
    }
    // two entries: every value next to every representative, both name orders
    let pairs: &[(&str, &str)] = &[("a", "é"), ("é", ""), ("", "a"), ("a", "a-forty-character-attribute-name-0123456"), (long_ascii.as_str(), long_multi.as_str()), (long_multi.as_str(), "a")];
    for (t1, v1) in &all {
        for (t2, v2) in &reps {
            for (n1, n2) in pairs {
                out.push(AttrCase {
                    entries: vec![((*n1).to_owned(), t1.clone(), v1.label.clone()), ((*n2).to_owned(), t2.clone(), v2.label.clone())],
                });
            }
        }
    }
    // thorough: every value next to every value (one name pair)
    if tier == Tier::Thorough {
        for (t1, v1) in &all {
            for (t2, v2) in &all {
                out.push(AttrCase { entries: vec![("k".to_owned(), t1.clone(), v1.label.clone()), ("j".to_owned(), t2.clone(), v2.label.clone())] });
            }
        }
    }
    // many entries: counts around powers of two, names that sort before / after / between each
    // other or share a long prefix, value types cycling through the representatives
    for n in [3usize, 4, 5, 8, 16, 17, 31, 32, 33, 64, 127, 128, 129, 255, 256, 257, 1000, 5000] {
        for style in 0..4 {
            let entries = (0..n)
                .map(|i| {
                    let name = match style {
                        0 => format!("k{}", i),
                        1 => format!("a-common-prefix-of-more-than-thirty-two-bytes-{:05}", n - i),
                        2 => format!("{}{}", "z".repeat(i % 7), i),
                        _ => format!("\u{e9}{}\u{2603}", i * 7919 % n),
                    };
                    let (t, v) = &reps[(i * 5 + style) % reps.len()];
                    (name, t.clone(), v.label.clone())
                })
                .collect();
            out.push(AttrCase { entries });
        }
    }
    // position sweep: every representative value starting at every offset in a window around
    // 4 KiB, 8 KiB, 16 KiB, 32 KiB and 64 KiB (a padding entry of the right length sorts first)
    for centre in [4096usize, 8192, 16384, 32768, 65536] {
        for (t, v) in &reps {
            // blob = count(4) + name "a"(4+1) + type(1) + len(4) + pad + name "b"(4+1) + type(1) + value
            for start in (centre - 12)..=(centre + 4) {
                let pad = start - 20;
                out.push(AttrCase { entries: vec![("a".to_owned(), "Pad".to_owned(), pad.to_string()), ("b".to_owned(), t.clone(), v.label.clone())] });
            }
        }
    }
    // three entries over the representatives
    let step = 1;
    for (i, (t1, v1)) in reps.iter().enumerate().step_by(step) {
        for (t2, v2) in &reps {
            for (t3, v3) in reps.iter().skip(i % 2).step_by(2) {
                out.push(AttrCase {
                    entries: vec![
                        ("b".to_owned(), t1.clone(), v1.label.clone()),
                        ("".to_owned(), t2.clone(), v2.label.clone()),
                        ("é".to_owned(), t3.clone(), v3.label.clone()),
                    ],
                });
            }
        }
    }
    out
}

pub fn check(run: &Run) -> Value {
    let vectors = match specattr::self_check() {
        Ok(n) => n,
        Err(e) => crate::evidence::machinery_failure(&format!("specattr does not reproduce a worked example of docs/attributes.md: {}", e)),
    };
    let cs = cases(run.tier);
    let seed = run.seed;
    let total: SweepOut = run_cases(&cs, &|i, c, out| {
        out.nontrivial += (!c.entries.is_empty()) as u64;
        out.executions += 1;
        let mut vs = judge(c);
        if c.entries.len() <= 1 || c.entries.len() >= 16 {
            out.executions += 6;
            vs.extend(judge_file(c));
            vs.extend(judge_stored_blobs(c));
        }
        out.outcome(if vs.is_empty() { "ok" } else { "violation" });
        for (k, w) in vs {
            out.violation(k, w, || serde_json::to_value(c).unwrap());
        }
        if out.samples.len() < 2 && (i as u64 + seed) % 1009 == 3 {
            out.samples.push(serde_json::to_string(c).unwrap());
        }
    });
    total.report(run);
    println!("C14 sweep: maps={} executions={} outcomes={:?} doc_vectors={}", total.cases, total.executions, total.outcomes, vectors);
    json!({
        "states": total.cases,
        "transitions": total.executions,
        "traces_validated_against_impl": total.executions,
        "evaluations": total.executions,
        "distinct_nontrivial": total.nontrivial,
        "outcomes": total.outcomes,
        "doc_vectors_reproduced_by_spec_codec": vectors,
        "samples": total.samples.iter().map(|s| serde_json::from_str::<Value>(s).unwrap()).collect::<Vec<_>>(),
        "exhaustive": true,
        "rule": "every attribute map of the bounded enumeration (0 entries; 1 entry: 6 names (empty, 1 byte, non-ASCII, 40 bytes, 1025 bytes, 1400 bytes) x every alphabet value (incl. 64 KiB / 200 KB strings) of the 19 supported types; 2 entries: every value next to 2 representatives per type; 3 entries over representatives) is (1) encoded and decoded by rbx_types, (2) decoded by an independent decoder written from docs/attributes.md, (3) re-encoded by an independent encoder and decoded by rbx_types; every representative value at every start offset in windows around 4, 8, 16, 32 and 64 KiB; maps of 3..5000 entries (counts around powers of two, four naming styles, value types cycling); 0/1-entry maps and those of >= 16 entries additionally travel through a binary and an XML file as the Attributes property",
    })
}

pub fn replay(case: &Value) -> Vec<(String, String)> {
    let c: AttrCase = serde_json::from_value(case.clone()).unwrap_or_else(|e| crate::evidence::machinery_failure(&format!("bad replay: {}", e)));
    let mut a = judge(&c);
    a.extend(judge_file(&c));
    a.extend(judge_stored_blobs(&c));
    let mut b = judge(&c);
    b.extend(judge_file(&c));
    b.extend(judge_stored_blobs(&c));
    if a != b {
        crate::evidence::machinery_failure("replay gave two different observations");
    }
    a
}
