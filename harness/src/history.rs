//! Several serializer calls on one thread over the *same* DOM with different root selections
//! (C07: the bytes are a function of the logical content alone - not of what the thread wrote
//! before). For every ordered pair of selections the second call's output must equal the output
//! of the same call made first thing on a fresh thread.

use rbx_dom_weak::types::Ref;
use rbx_dom_weak::WeakDom;

use crate::codec::{build_plan, xml_options, CaseDesc, Compression, Feature, XmlMode};
use crate::plan::How;
use crate::vals::Codec;

fn encode(dom: &WeakDom, roots: &[Ref], codec: u8) -> Result<Vec<u8>, String> {
    crate::evidence::guarded(|| {
        let mut v = Vec::new();
        if codec < 3 {
            rbx_binary::Serializer::new().compression_type(Compression::all()[codec as usize].real()).serialize(&mut v, dom, roots).map_err(|e| e.to_string())?;
        } else {
            rbx_xml::to_writer(&mut v, dom, roots, xml_options(XmlMode::Unknown).0).map_err(|e| e.to_string())?;
        }
        Ok(v)
    })
    .unwrap_or_else(|(s, m)| Err(format!("panic at {}: {}", s, m)))
}

/// (label, plan description)
fn subjects() -> Vec<(String, CaseDesc)> {
    vec![
        ("ring-of-3".into(), CaseDesc::Topo { parents: vec![None, Some(0), Some(0)], classes: vec![0, 1, 2], roots: Some(vec![0]), feature: Feature::Ring, how: 0 }),
        ("content-ring-chain".into(), CaseDesc::Topo { parents: vec![None, Some(0), Some(1)], classes: vec![0, 0, 1], roots: Some(vec![0]), feature: Feature::ContentRing, how: 0 }),
        ("wide-300".into(), CaseDesc::Wide { n: 300 }),
        // more instances than any "large session" threshold one would pick (4096, 2^12 .. 2^13)
        ("wide-9000".into(), CaseDesc::Wide { n: 9000 }),
    ]
}

pub fn run_all() -> (Vec<(String, String, serde_json::Value)>, u64) {
    let mut out = Vec::new();
    let mut n = 0u64;
    for (si, (label, desc)) in subjects().into_iter().enumerate() {
        let plan = build_plan(&desc, Codec::Binary);
        let r = plan.realise(How::Nested, None);
        let dom = &r.dom;
        let top = r.refs[0];
        let kids: Vec<Ref> = dom.get_by_ref(top).map(|i| i.children().to_vec()).unwrap_or_default();
        let mut sels: Vec<(&str, Vec<Ref>)> = vec![("the DOM root", vec![dom.root_ref()]), ("the top instance", vec![top]), ("the children of the top instance", kids.clone())];
        if let (Some(f), Some(l)) = (kids.first(), kids.last()) {
            sels.push(("the first child", vec![*f]));
            sels.push(("the last and the first child", vec![*l, *f]));
            // a selection that names an instance twice is outside the round-trip properties, but
            // whatever the writer makes of it, it must make the same thing every time
            if kids.len() >= 3 {
                sels.push(("three children, the first of them named twice", vec![kids[0], kids[1], kids[2], kids[0]]));
            }
        }
        for codec in 0..4u8 {
            // XML of the 9000-wide DOM only for the binary-relevant pairs would be slow: one codec pass each
            if label == "wide-9000" && codec == 3 {
                continue;
            }
            // references: each selection written first thing on a fresh thread
            let refs: Vec<Result<Vec<u8>, String>> = sels
                .iter()
                .map(|(_, roots)| std::thread::scope(|s| s.spawn(|| encode(dom, roots, codec)).join().unwrap_or_else(|_| Err("reference thread died".into()))))
                .collect();
            for a in 0..sels.len() {
                for b in 0..sels.len() {
                    n += 1;
                    // one fresh thread per pair: first a, then b
                    let got = std::thread::scope(|s| {
                        s.spawn(|| {
                            let _ = encode(dom, &sels[a].1, codec);
                            encode(dom, &sels[b].1, codec)
                        })
                        .join()
                        .unwrap_or_else(|_| Err("thread died".into()))
                    });
                    if got != refs[b] {
                        let cname = ["binary/Lz4", "binary/None", "binary/Zstd", "xml"][codec as usize];
                        out.push((
                            format!("c07|call-history|{}|{}", if codec < 3 { "binary" } else { "xml" }, label),
                            format!(
                                "{} ({}): writing {} right after writing {} on the same thread gives {} instead of what a fresh thread writes ({})",
                                label,
                                cname,
                                sels[b].0,
                                sels[a].0,
                                got.as_ref().map(|b| format!("{} bytes", b.len())).unwrap_or_else(|e| e.clone()),
                                refs[b].as_ref().map(|b| format!("{} bytes", b.len())).unwrap_or_else(|e| e.clone())
                            ),
                            serde_json::json!({"call_history": {"subject": si, "codec": codec, "first": a, "second": b}}),
                        ));
                    }
                }
            }
        }
    }
    // Several threads encoding and decoding at the same time (free-running: a smoke test for
    // process-wide mutable state, not an exhaustive exploration): every output must equal the
    // single-threaded reference of the same input.
    {
        let subj = subjects();
        let built: Vec<_> = subj.iter().take(3).map(|(l, d)| (l.clone(), build_plan(d, Codec::Binary).realise(How::Nested, None))).collect();
        let refs: Vec<Vec<Result<Vec<u8>, String>>> = built.iter().map(|(_, r)| (0..4u8).map(|c| encode(&r.dom, &[r.refs[0]], c)).collect()).collect();
        let problems = std::sync::Mutex::new(Vec::new());
        std::thread::scope(|s| {
            for t in 0..8usize {
                let built = &built;
                let refs = &refs;
                let problems = &problems;
                s.spawn(move || {
                    for round in 0..40usize {
                        let k = (t + round) % built.len();
                        let codec = ((t / 2 + round) % 4) as u8;
                        let got = encode(&built[k].1.dom, &[built[k].1.refs[0]], codec);
                        if got != refs[k][codec as usize] {
                            problems.lock().unwrap().push((built[k].0.clone(), codec));
                        }
                        if let Ok(bytes) = &got {
                            let ok = if codec < 3 { rbx_binary::from_reader(bytes.as_slice()).is_ok() } else { rbx_xml::from_reader_default(bytes.as_slice()).is_ok() };
                            if !ok {
                                problems.lock().unwrap().push((format!("{} (decode)", built[k].0), codec));
                            }
                        }
                    }
                });
            }
        });
        n += 8 * 40;
        for (label, codec) in problems.into_inner().unwrap() {
            out.push((
                format!("c07|concurrent-calls|{}", if codec < 3 { "binary" } else { "xml" }),
                format!("{}: written while seven other threads were encoding and decoding, the output differs from the single-threaded one (codec {})", label, codec),
                serde_json::json!({"call_history": {"concurrent": true}}),
            ));
        }
    }
    out.sort_by(|x, y| x.0.cmp(&y.0));
    out.dedup_by(|x, y| x.0 == y.0);
    (out, n)
}
