//! Crash-tolerant process pool: each batch of cases runs in a forked child
//! under an address-space limit; the child publishes the index of the case it
//! is executing in shared memory, so that an abort (allocation failure, stack
//! overflow) or a hang is attributed to one case, recorded, and the batch is
//! re-run without it.

use std::collections::{BTreeMap, BTreeSet, VecDeque};
use std::io::Write;
use std::sync::atomic::{AtomicU64, Ordering};
use std::time::{Duration, Instant};

use serde::{de::DeserializeOwned, Serialize};

#[derive(Clone, Debug)]
pub struct Batch {
    pub id: usize,
    pub family: usize,
    pub start: u64,
    pub end: u64,
}

#[derive(Clone, Debug)]
pub enum Abnormal {
    /// killed by a signal (or exit code) with the tail of its stderr
    Crashed { status: i32, stderr_tail: String },
    TimedOut { seconds: f64 },
}

#[repr(C)]
struct Slot {
    case: AtomicU64,
    beat: AtomicU64,
}

fn tmp_dir() -> std::path::PathBuf {
    let d = crate::evidence::verif_root().join("target").join("tmp");
    let _ = std::fs::create_dir_all(&d);
    d
}

pub struct PoolResult<T> {
    pub done: Vec<(usize, T)>,
    pub abnormal: Vec<(Batch, u64, Abnormal)>,
    pub abandoned: Vec<usize>,
}

/// `run(batch, skip, progress)` executes the cases of `batch` (except `skip`),
/// calling `progress(idx)` before each case.
pub fn run_batches<T, F>(batches: &[Batch], procs: usize, case_timeout: Duration, as_limit_bytes: u64, run: F) -> PoolResult<T>
where
    T: Serialize + DeserializeOwned,
    F: Fn(&Batch, &BTreeSet<u64>, &dyn Fn(u64)) -> T,
{
    let procs = procs.max(1);
    // shared slots
    let slots_bytes = procs * std::mem::size_of::<Slot>();
    let mem = unsafe {
        libc::mmap(
            std::ptr::null_mut(),
            slots_bytes,
            libc::PROT_READ | libc::PROT_WRITE,
            libc::MAP_SHARED | libc::MAP_ANONYMOUS,
            -1,
            0,
        )
    };
    if mem == libc::MAP_FAILED {
        crate::evidence::machinery_failure("mmap for the crash pool failed");
    }
    let slots: &[Slot] = unsafe { std::slice::from_raw_parts(mem as *const Slot, procs) };
    let dir = tmp_dir();
    let me = std::process::id();

    let mut queue: VecDeque<(Batch, BTreeSet<u64>)> = batches.iter().cloned().map(|b| (b, BTreeSet::new())).collect();
    let mut timeouts_total = 0u64;
    struct Running {
        pid: i32,
        batch: Batch,
        skip: BTreeSet<u64>,
        last_case: u64,
        last_change: Instant,
        out_path: std::path::PathBuf,
        err_path: std::path::PathBuf,
    }
    let mut running: Vec<Option<Running>> = (0..procs).map(|_| None).collect();
    let mut result = PoolResult { done: Vec::new(), abnormal: Vec::new(), abandoned: Vec::new() };
    let mut crashes_per_batch: BTreeMap<usize, usize> = BTreeMap::new();
    let _ = std::io::stdout().flush();

    loop {
        // start children on free slots
        for s in 0..procs {
            if running[s].is_some() {
                continue;
            }
            let (batch, skip) = match queue.pop_front() {
                Some(x) => x,
                None => break,
            };
            slots[s].case.store(u64::MAX, Ordering::SeqCst);
            slots[s].beat.store(0, Ordering::SeqCst);
            let out_path = dir.join(format!("cp.{}.{}.{}.bin", me, batch.id, skip.len()));
            let err_path = dir.join(format!("cp.{}.{}.{}.err", me, batch.id, skip.len()));
            let _ = std::io::stdout().flush();
            let pid = unsafe { libc::fork() };
            if pid < 0 {
                crate::evidence::machinery_failure("fork failed");
            }
            if pid == 0 {
                // child
                unsafe {
                    let lim = libc::rlimit { rlim_cur: as_limit_bytes, rlim_max: as_limit_bytes };
                    libc::setrlimit(libc::RLIMIT_AS, &lim);
                    // stderr to a file so that the parent can classify an abort
                    if let Ok(cpath) = std::ffi::CString::new(err_path.to_string_lossy().as_bytes()) {
                        let fd = libc::open(cpath.as_ptr(), libc::O_WRONLY | libc::O_CREAT | libc::O_TRUNC, 0o644);
                        if fd >= 0 {
                            libc::dup2(fd, 2);
                            libc::close(fd);
                        }
                    }
                }
                let slot = &slots[s];
                let progress = |i: u64| {
                    slot.case.store(i, Ordering::SeqCst);
                    slot.beat.fetch_add(1, Ordering::SeqCst);
                };
                let res = std::panic::catch_unwind(std::panic::AssertUnwindSafe(|| run(&batch, &skip, &progress)));
                let code = match res {
                    Ok(v) => match bincode::serialize(&v).ok().and_then(|b| std::fs::write(&out_path, b).ok()) {
                        Some(()) => 0,
                        None => 3,
                    },
                    Err(_) => 4,
                };
                unsafe { libc::_exit(code) };
            }
            running[s] = Some(Running {
                pid,
                batch,
                skip,
                last_case: u64::MAX,
                last_change: Instant::now(),
                out_path,
                err_path,
            });
        }
        if running.iter().all(|r| r.is_none()) && queue.is_empty() {
            break;
        }
        // poll
        let mut progressed = false;
        for s in 0..procs {
            let finished = if let Some(r) = running[s].as_mut() {
                let mut status: libc::c_int = 0;
                let w = unsafe { libc::waitpid(r.pid, &mut status, libc::WNOHANG) };
                if w == r.pid {
                    Some((status, false))
                } else {
                    let cur = slots[s].case.load(Ordering::SeqCst);
                    let beat = slots[s].beat.load(Ordering::SeqCst);
                    let _ = beat;
                    if cur != r.last_case {
                        r.last_case = cur;
                        r.last_change = Instant::now();
                        None
                    } else if r.last_change.elapsed() > case_timeout {
                        unsafe {
                            libc::kill(r.pid, libc::SIGKILL);
                            libc::waitpid(r.pid, &mut status, 0);
                        }
                        Some((status, true))
                    } else {
                        None
                    }
                }
            } else {
                None
            };
            if let Some((status, timed_out)) = finished {
                progressed = true;
                let r = running[s].take().unwrap();
                let ok = !timed_out && libc::WIFEXITED(status) && libc::WEXITSTATUS(status) == 0;
                if ok {
                    let bytes = std::fs::read(&r.out_path).unwrap_or_default();
                    match bincode::deserialize::<T>(&bytes) {
                        Ok(v) => result.done.push((r.batch.id, v)),
                        Err(e) => crate::evidence::machinery_failure(&format!("cannot decode batch result: {}", e)),
                    }
                } else if !timed_out && libc::WIFEXITED(status) && (libc::WEXITSTATUS(status) == 3 || libc::WEXITSTATUS(status) == 4) {
                    let tail = std::fs::read_to_string(&r.err_path).unwrap_or_default();
                    crate::evidence::machinery_failure(&format!("harness failure inside a pool worker (exit {}): {}", libc::WEXITSTATUS(status), tail.chars().rev().take(400).collect::<String>().chars().rev().collect::<String>()));
                } else {
                    let idx = slots[s].case.load(Ordering::SeqCst);
                    let tail_full = std::fs::read_to_string(&r.err_path).unwrap_or_default();
                    // headline (first line mentioning the cause) + first frame inside the subject
                    let headline = tail_full
                        .lines()
                        .find(|l| l.contains("memory allocation of") || l.contains("overflowed its stack") || l.contains("panicked") || l.contains("fatal runtime error"))
                        .unwrap_or("")
                        .trim()
                        .to_owned();
                    let frame = tail_full
                        .lines()
                        .map(|l| l.trim())
                        .find(|l| l.contains(": rbx_") && !l.contains("vh::"))
                        .map(|l| l.splitn(2, ": ").nth(1).unwrap_or(l).split("::h").next().unwrap_or(l).to_owned())
                        .unwrap_or_default();
                    let tail: String = format!("{} | site {}", headline, frame);
                    let ab = if timed_out {
                        Abnormal::TimedOut { seconds: case_timeout.as_secs_f64() }
                    } else {
                        Abnormal::Crashed { status, stderr_tail: tail }
                    };
                    if idx == u64::MAX {
                        crate::evidence::machinery_failure(&format!("pool worker died before its first case: {:?}", ab));
                    }
                    result.abnormal.push((r.batch.clone(), idx, ab));
                    let n = crashes_per_batch.entry(r.batch.id).or_insert(0);
                    *n += 1;
                    if timed_out {
                        timeouts_total += 1;
                    }
                    // every hang costs a full case timeout: after a handful of them (one is a
                    // verdict already) the batches still queued are given up instead of explored
                    if timeouts_total > 12 {
                        result.abandoned.push(r.batch.id);
                        while let Some((b, _)) = queue.pop_front() {
                            result.abandoned.push(b.id);
                        }
                    } else if *n > 200 {
                        result.abandoned.push(r.batch.id);
                    } else {
                        let mut skip = r.skip.clone();
                        skip.insert(idx);
                        queue.push_front((r.batch.clone(), skip));
                    }
                }
                let _ = std::fs::remove_file(&r.out_path);
                let _ = std::fs::remove_file(&r.err_path);
            }
        }
        if !progressed {
            std::thread::sleep(Duration::from_millis(1));
        }
    }
    unsafe { libc::munmap(mem, slots_bytes) };
    result
}
