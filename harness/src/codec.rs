//! Bounded-exhaustive round-trip sweeps through the real binary and XML codecs
//! (C01, C02; the same cases feed C03/C05/C06/C07).
//!
//! A *case* is a small descriptor (sweep kind + indices into the alphabets),
//! from which the plan is rebuilt deterministically; that descriptor is the
//! replay artefact.

use std::collections::{BTreeMap, BTreeSet};

use rbx_dom_weak::types::{
    Attributes, BinaryString, BrickColor, Color3, Color3uint8, ColorSequence, ColorSequenceKeypoint, Content, ContentId,
    Enum, Faces, Axes, Font, MaterialColors, Matrix3, NumberRange, NumberSequence, NumberSequenceKeypoint,
    PhysicalProperties, Ray, Rect, Ref, SecurityCapabilities, SharedString, Tags, UDim, UDim2, UniqueId, Variant,
    VariantType, Vector2, Vector3, Vector3int16, CFrame,
};
use serde::{Deserialize, Serialize};

use crate::plan::*;
use crate::specdb;
use crate::vals::{self, alphabet, render, snap_rotation, Codec, FloatMode, LV};

#[derive(Clone, Copy, Debug, PartialEq, Eq, Serialize, Deserialize)]
pub enum PropMode {
    /// class unknown to the database
    UnknownClass,
    /// known class, property unknown to the database
    UnknownProp,
    /// database-known property, canonical spelling
    Known,
}

#[derive(Clone, Debug, PartialEq, Serialize, Deserialize)]
pub enum Feature {
    /// node `a` carries Ref property R -> target (0 = null, 1 = ghost, 2+i = node i)
    Ref { a: usize, t: usize },
    /// node `a` carries Content property C with an Object target
    ContentObj { a: usize, t: usize },
    /// nodes a and b carry SharedString S (same or different contents)
    Sstr { a: usize, b: usize, same: bool },
    /// every node carries a Ref to its successor (cyclic) and a SharedString shared by all
    Ring,
    /// node `a` is a WeldConstraint whose database-known Ref property Part0 (stored under the
    /// serialized name Part0Internal) -> target, Part1 -> null
    Weld { a: usize, t: usize },
    /// every node carries Content C with an Object source -> its successor (cyclic)
    ContentRing,
    /// node i carries Content C: i%4==0 Object -> successor, 1 Uri, 2 Object -> predecessor, 3 None
    ContentMix,
}

#[derive(Clone, Debug, PartialEq, Serialize, Deserialize)]
pub enum CaseDesc {
    /// one column of same-class instances each carrying property P of one type
    Value {
        ty: String,
        labels: Vec<String>,
        mode: PropMode,
    },
    Topo {
        parents: Vec<Option<usize>>,
        classes: Vec<u8>,
        /// None = write [dom.root_ref()]
        roots: Option<Vec<usize>>,
        feature: Feature,
        how: u8,
    },
    /// chain of `depth` nested Folders (XML recursion depth)
    Chain { depth: usize },
    /// scale in one dimension: "classes" (n distinct unknown classes), "props" (one instance with n
    /// unknown properties), "sstr" (n distinct SharedStrings, each used twice), "instances" (n Folders
    /// in a 3-level tree: referents beyond 2^16), "oddnames" (unknown classes / properties with
    /// non-ASCII, very long and empty names; n ignored)
    Many { kind: String, n: usize },
    /// `n` same-class children of one Folder (wide columns, long referent arrays): each carries an
    /// Int32, a String, a Ref to another sibling and one of three SharedStrings
    Wide { n: usize },
    /// one instance whose *name* is the given text-alphabet entry
    Name { label: String },
    /// two instances that carry "the same" property under related names on related classes:
    /// `x` and `y` index `near_sites(base)` = {owner class, another database class, an unknown
    /// class} x {canonical, serialized, case variants, padded, prefixed spellings}. Whether a name
    /// is known is a fact about (class, name), never about the name alone or a similar name.
    NearName { base: usize, x: usize, y: usize, nested: bool },
    /// several unknown classes with the given numbers of instances (counts around powers of two,
    /// equal and unequal): every instance carries an Int32 and a Ref to an instance of the next
    /// class (cyclically, so to classes that sort later and earlier); the first and the last
    /// instance of a class each carry one more property of their own
    Counts { per_class: Vec<usize> },
    /// a String value / an instance name containing one character XML 1.0 cannot carry
    Forbidden { label: String, in_name: bool },
    /// one instance of a database class whose name is not its class name (every class of the
    /// database: a class may redeclare `Name` or other inherited properties)
    OfClass { class: String },
    /// one instance: a padding string of `pad` bytes, then (in name order) the first alphabet
    /// value of type `ty` - every value type starting at every offset in windows around the
    /// block sizes readers and writers buffer by
    Position { ty: String, pad: usize },
    /// two instances of *different* classes that carry a property of one name (`Value`) with
    /// different types: `x`, `y` index `same_name_sites()`; shape 0 = siblings, 1 = the second
    /// nested in the first, 2 = two roots handed to the writer in reverse document order
    SameName { x: usize, y: usize, shape: u8 },
    /// known and unknown Ref / SharedString properties in one file: Model.PrimaryPart and
    /// ObjectValue.Value point at instances of the file, and instance `carrier` also has an unknown
    /// Ref property (named to sort before or after the known ones) with the given target
    /// (0 null, 1 the Model, 2 the Part, 3 an instance outside the file) and an unknown SharedString
    KnownAndUnknownRefs { carrier: usize, first: bool, target: u8 },
    /// text assembled from fragments (whitespace, CDATA delimiters, markup, non-ASCII): every
    /// sequence of up to three fragments, as an instance name, a String value, a Content URI and
    /// a Font family
    Text { frags: Vec<u8> },
}

pub const TEXT_FRAGMENTS: [&str; 13] = [" ", "\n", "\t", "\r", "]]>", "<![CDATA[", "]", ">", "&", "<", "a", "\u{e9}", "\u{85}"];

pub fn text_of(frags: &[u8]) -> String {
    frags.iter().map(|f| TEXT_FRAGMENTS[*f as usize]).collect()
}

pub fn text_cases() -> Vec<CaseDesc> {
    let n = TEXT_FRAGMENTS.len() as u8;
    let mut out = Vec::new();
    for a in 0..n {
        out.push(CaseDesc::Text { frags: vec![a] });
        for b in 0..n {
            out.push(CaseDesc::Text { frags: vec![a, b] });
            for c in 0..n {
                out.push(CaseDesc::Text { frags: vec![a, b, c] });
            }
        }
    }
    out
}

pub fn count_cases() -> Vec<CaseDesc> {
    let sizes = [1usize, 2, 3, 4, 7, 8, 9, 15, 16, 17, 31, 32, 33, 63, 64, 65, 127, 128, 129, 255, 256, 257];
    let mut out = Vec::new();
    for a in sizes {
        out.push(CaseDesc::Counts { per_class: vec![a] });
        for b in sizes {
            out.push(CaseDesc::Counts { per_class: vec![a, b] });
        }
        out.push(CaseDesc::Counts { per_class: vec![a, a, a] });
        out.push(CaseDesc::Counts { per_class: vec![a, 1, a + 1] });
    }
    // as many classes as instances
    for k in [2usize, 3, 4, 8, 16, 17, 64, 256, 257] {
        out.push(CaseDesc::Counts { per_class: vec![1; k] });
        out.push(CaseDesc::Counts { per_class: vec![2; k] });
    }
    out
}

pub fn forbidden_char_cases() -> Vec<CaseDesc> {
    let mut out = Vec::new();
    for (l, _) in vals::xml_forbidden_chars() {
        for in_name in [false, true] {
            out.push(CaseDesc::Forbidden { label: l.to_owned(), in_name });
        }
    }
    out
}

/// (class, value of its `Value` property)
pub fn same_name_sites() -> Vec<(&'static str, PVal)> {
    use rbx_types::{BrickColor, CFrame, Color3, Matrix3, Ray, Vector3};
    vec![
        ("IntValue", PVal::V(Variant::Int64(-7_000_000_000))),
        ("StringValue", PVal::V(Variant::String("text".to_owned()))),
        ("BoolValue", PVal::V(Variant::Bool(true))),
        ("NumberValue", PVal::V(Variant::Float64(0.1))),
        ("Color3Value", PVal::V(Variant::Color3(Color3::new(0.25, 0.5, 1.0)))),
        ("Vector3Value", PVal::V(Variant::Vector3(Vector3::new(1.0, -2.0, 3.5)))),
        ("CFrameValue", PVal::V(Variant::CFrame(CFrame::new(Vector3::new(1.0, 2.0, 3.0), Matrix3::identity())))),
        ("ObjectValue", PVal::Ref(Tgt::Node(0))),
        ("BrickColorValue", PVal::V(Variant::BrickColor(BrickColor::ReallyRed))),
        ("RayValue", PVal::V(Variant::Ray(Ray::new(Vector3::new(0.0, 1.0, 0.0), Vector3::new(0.0, 0.0, -1.0))))),
        ("ZzUnknownA", PVal::V(Variant::Int32(5))),
        ("ZzUnknownB", PVal::V(Variant::String("five".to_owned()))),
        ("Folder", PVal::V(Variant::Float32(5.5))),
    ]
}

pub fn same_name_cases() -> Vec<CaseDesc> {
    let n = same_name_sites().len();
    let mut out = Vec::new();
    for x in 0..n {
        for y in 0..n {
            if x == y {
                continue;
            }
            for shape in 0..3u8 {
                out.push(CaseDesc::SameName { x, y, shape });
            }
        }
    }
    out
}

pub fn known_and_unknown_ref_cases() -> Vec<CaseDesc> {
    let mut out = Vec::new();
    for carrier in 0..4usize {
        for first in [false, true] {
            for target in 0..4u8 {
                out.push(CaseDesc::KnownAndUnknownRefs { carrier, first, target });
            }
        }
    }
    out
}

pub fn every_class_cases() -> Vec<CaseDesc> {
    let mut names: Vec<String> = rbx_reflection_database::get().classes.keys().map(|k| k.to_string()).collect();
    names.sort();
    names.into_iter().map(|class| CaseDesc::OfClass { class }).collect()
}

pub fn position_cases(types: &[VariantType]) -> Vec<CaseDesc> {
    let mut out = Vec::new();
    for (centre, half) in [(4096usize, 24usize), (8192, 24), (16384, 8), (65536, 8)] {
        for pad in (centre - 2 * half)..=centre {
            for t in types {
                out.push(CaseDesc::Position { ty: vals::type_name(*t), pad });
            }
        }
    }
    out
}

pub const NEAR_BASES: usize = 6;

/// (class, property name, value) sites of one base property.
pub fn near_sites(base: usize) -> Vec<(String, String, Variant)> {
    use rbx_types::{Color3uint8, Tags, Vector3};
    let (classes, names, value): (Vec<&str>, Vec<&str>, Variant) = match base {
        0 => (vec!["Part", "Folder", "ZzUnknown"], vec!["Transparency", "transparency", "TRANSPARENCY", "Transparency ", "xTransparency"], Variant::Float32(0.5)),
        1 => (vec!["Part", "Folder", "ZzUnknown"], vec!["Size", "size", "SIZE", "Size ", " size"], Variant::Vector3(Vector3::new(1.0, 2.0, 3.0))),
        2 => (vec!["Part", "Folder", "ZzUnknown"], vec!["Anchored", "anchored", "ANCHORED"], Variant::Bool(true)),
        3 => (vec!["Part", "Folder", "ZzUnknown"], vec!["Color3uint8", "Color", "color", "color3uint8", "Color3"], Variant::Color3uint8(Color3uint8::new(1, 2, 3))),
        4 => (vec!["Folder", "Part", "ZzUnknown"], vec!["Tags", "tags", "TAGS"], {
            let mut t = Tags::new();
            t.push("a");
            t.push("b");
            Variant::Tags(t)
        }),
        _ => (vec!["IntValue", "Folder", "ZzUnknown"], vec!["Value", "value", "VALUE", "Value "], Variant::Int64(1 << 40)),
    };
    let mut out = Vec::new();
    for c in &classes {
        for n in &names {
            out.push(((*c).to_owned(), (*n).to_owned(), value.clone()));
        }
    }
    out
}

pub fn near_name_cases() -> Vec<CaseDesc> {
    let mut out = Vec::new();
    for base in 0..NEAR_BASES {
        let n = near_sites(base).len();
        for x in 0..n {
            for y in 0..n {
                for nested in [false, true] {
                    out.push(CaseDesc::NearName { base, x, y, nested });
                }
            }
        }
    }
    out
}

/// index 3 (a service class) is only used by `service_topo_cases`
pub const TOPO_CLASSES: [&str; 4] = ["Folder", "Part", "ZzUnknown", "Workspace"];

fn vt_by_name(name: &str) -> VariantType {
    for t in vals::xml_types() {
        if vals::type_name(t) == name {
            return t;
        }
    }
    panic!("unknown type name {}", name)
}

pub fn unknown_prop_name() -> &'static str {
    "ZzVerifProp"
}

/// (class, property) used for a value sweep in the given mode.
pub fn target_for(ty: VariantType, mode: PropMode) -> Option<(String, String)> {
    match mode {
        PropMode::UnknownClass => Some(("ZzUnknownClass".to_owned(), unknown_prop_name().to_owned())),
        PropMode::UnknownProp => Some(("Folder".to_owned(), unknown_prop_name().to_owned())),
        PropMode::Known => specdb::known_property_for(ty).map(|(c, p, _)| (c, p)),
    }
}

pub fn build_plan(desc: &CaseDesc, codec: Codec) -> Plan {
    match desc {
        CaseDesc::Value { ty, labels, mode } => {
            let vt = vt_by_name(ty);
            let alpha = alphabet(vt, codec, true);
            let (class, prop) = target_for(vt, *mode).expect("no target for type");
            let nodes = labels
                .iter()
                .enumerate()
                .map(|(i, l)| {
                    let v = alpha
                        .iter()
                        .find(|x| &x.label == l)
                        .unwrap_or_else(|| panic!("label {} not in alphabet of {}", l, ty));
                    PNode {
                        class: class.clone(),
                        name: format!("i{}", i),
                        parent: None,
                        props: vec![(prop.clone(), PVal::V(v.v.clone()))],
                    }
                })
                .collect();
            Plan {
                nodes,
                roots: RootSel::Nodes((0..labels.len()).collect()),
            }
        }
        CaseDesc::Topo {
            parents,
            classes,
            roots,
            feature,
            ..
        } => {
            let n = parents.len();
            let tgt = |t: usize| match t {
                0 => Tgt::Null,
                1 => Tgt::Ghost,
                k => Tgt::Node(k - 2),
            };
            let mut nodes: Vec<PNode> = (0..n)
                .map(|i| PNode {
                    class: TOPO_CLASSES[classes[i] as usize].to_owned(),
                    name: format!("n{}", i),
                    parent: parents[i],
                    props: vec![],
                })
                .collect();
            match feature {
                Feature::Ref { a, t } => {
                    for (i, nd) in nodes.iter_mut().enumerate() {
                        let target = if i == *a { tgt(*t) } else { Tgt::Null };
                        nd.props.push(("R".to_owned(), PVal::Ref(target)));
                    }
                }
                Feature::ContentObj { a, t } => {
                    for (i, nd) in nodes.iter_mut().enumerate() {
                        if i == *a {
                            nd.props.push(("C".to_owned(), PVal::ContentObj(tgt(*t))));
                        } else {
                            nd.props.push(("C".to_owned(), PVal::V(Variant::Content(Content::from_uri("u")))));
                        }
                    }
                }
                Feature::Sstr { a, b, same } => {
                    nodes[*a].props.push(("S".to_owned(), PVal::Shared(b"shared-one".to_vec())));
                    if a != b {
                        let c = if *same { b"shared-one".to_vec() } else { b"shared-two!".to_vec() };
                        nodes[*b].props.push(("S".to_owned(), PVal::Shared(c)));
                    }
                }
                Feature::Weld { a, t } => {
                    nodes[*a].class = "WeldConstraint".to_owned();
                    nodes[*a].props.push(("Part0".to_owned(), PVal::Ref(tgt(*t))));
                    nodes[*a].props.push(("Part1".to_owned(), PVal::Ref(Tgt::Null)));
                }
                Feature::ContentRing => {
                    for i in 0..n {
                        nodes[i].props.push(("C".to_owned(), PVal::ContentObj(Tgt::Node((i + 1) % n))));
                    }
                }
                Feature::ContentMix => {
                    for i in 0..n {
                        let v = match i % 4 {
                            0 => PVal::ContentObj(Tgt::Node((i + 1) % n)),
                            1 => PVal::V(Variant::Content(Content::from_uri(format!("u{}", i)))),
                            2 => PVal::ContentObj(Tgt::Node((i + n - 1) % n)),
                            _ => PVal::V(Variant::Content(Content::none())),
                        };
                        nodes[i].props.push(("C".to_owned(), v));
                    }
                }
                Feature::Ring => {
                    for i in 0..n {
                        nodes[i].props.push(("R".to_owned(), PVal::Ref(Tgt::Node((i + 1) % n))));
                        nodes[i].props.push(("S".to_owned(), PVal::Shared(b"ring".to_vec())));
                    }
                }
            }
            Plan {
                nodes,
                roots: match roots {
                    None => RootSel::DomRoot,
                    Some(v) => RootSel::Nodes(v.clone()),
                },
            }
        }
        CaseDesc::Many { kind, n } => {
            let mut nodes = vec![PNode { class: "Folder".to_owned(), name: "top".to_owned(), parent: None, props: vec![] }];
            match kind.as_str() {
                "classes" => {
                    for i in 0..*n {
                        nodes.push(PNode { class: format!("ZzClass{:04}", (i * 7919) % 10000), name: format!("c{}", i), parent: Some(0), props: vec![("I".to_owned(), PVal::V(Variant::Int32(i as i32)))] });
                    }
                }
                "props" => {
                    let props = (0..*n).map(|i| (format!("ZzP{:04}", (i * 7919) % 10000), if i % 2 == 0 { PVal::V(Variant::Int32(i as i32 - 7)) } else { PVal::V(Variant::String(format!("v{}", i))) })).collect();
                    nodes.push(PNode { class: "ZzUnknown".to_owned(), name: "many".to_owned(), parent: Some(0), props });
                }
                "sstr" => {
                    for i in 0..(*n * 2) {
                        nodes.push(PNode { class: "ZzUnknown".to_owned(), name: format!("s{}", i), parent: Some(0), props: vec![("Sh".to_owned(), PVal::Shared(format!("shared string number {}", (i * 31) % *n).into_bytes()))] });
                    }
                }
                "hugeblob" => {
                    // one incompressible byte string of n bytes: a chunk whose stored form is
                    // larger than 16 MiB whatever the compression
                    let mut x: u64 = 0x9e37_79b9_7f4a_7c15;
                    let bytes: Vec<u8> = (0..*n)
                        .map(|_| {
                            x ^= x << 13;
                            x ^= x >> 7;
                            x ^= x << 17;
                            (x >> 24) as u8
                        })
                        .collect();
                    nodes.push(PNode { class: "ZzUnknown".to_owned(), name: "huge".to_owned(), parent: Some(0), props: vec![("Blob".to_owned(), PVal::V(Variant::BinaryString(BinaryString::from(bytes))))] });
                }
                "hugetext" => {
                    // text nodes of n bytes: a plain string, a Content URI and (base64) a SharedString
                    let text: String = (0..*n).map(|i| (b'a' + (i % 23) as u8) as char).collect();
                    nodes.push(PNode {
                        class: "ZzUnknown".to_owned(),
                        name: "huge".to_owned(),
                        parent: Some(0),
                        props: vec![("Text".to_owned(), PVal::V(Variant::String(text.clone()))), ("Sh".to_owned(), PVal::Shared(text.into_bytes()))],
                    });
                }
                "widetypes" => {
                    // n same-class rows carrying one value of every type: every column is longer
                    // than any preallocation cap (4096) a reader or writer may apply per column
                    let types = if codec == Codec::Binary { vals::binary_types() } else { vals::xml_types() };
                    let alphas: Vec<(String, Vec<LV>)> = types
                        .iter()
                        // (an unknown property cannot carry Attributes in the binary format; ids must be unique)
                        .filter(|t| !matches!(t, VariantType::UniqueId | VariantType::Attributes))
                        .map(|t| (format!("T{}", vals::type_name(*t)), alphabet(*t, codec, false)))
                        .collect();
                    for i in 0..*n {
                        let mut props: Vec<(String, PVal)> = alphas.iter().map(|(name, a)| (name.clone(), PVal::V(a[i % a.len()].v.clone()))).collect();
                        props.push(("Uri".to_owned(), PVal::V(Variant::Content(Content::from_uri(format!("rbxassetid://{}", i))))));
                        props.push(("Sh".to_owned(), PVal::Shared(format!("shared {}", i % 7).into_bytes())));
                        props.push(("R".to_owned(), PVal::Ref(Tgt::Node(1 + (i + 1) % *n))));
                        nodes.push(PNode { class: "ZzUnknown".to_owned(), name: format!("r{}", i), parent: Some(0), props });
                    }
                }
                "namelens" => {
                    // class and property names of every length around the powers of two
                    for (i, len) in [1usize, 2, 3, 4, 7, 8, 9, 15, 16, 17, 31, 32, 33, 63, 64, 65, 127, 128, 129, 255, 256, 257, 1023, 1024, 1025].iter().enumerate() {
                        let class: String = "ZzN".chars().chain(std::iter::repeat('c')).take(*len).collect();
                        let prop: String = "Zp".chars().chain(std::iter::repeat('p')).take(*len).collect();
                        let name: String = std::iter::repeat('n').take(*len).collect();
                        nodes.push(PNode { class, name, parent: Some(0), props: vec![(prop, PVal::V(Variant::Int32(i as i32)))] });
                    }
                    // long names of two- and three-byte characters behind an odd / even prefix: some
                    // character straddles every block boundary a reader may validate at
                    for (i, (prefix, ch, count)) in [("ZzM", "\u{e9}", 2100usize), ("ZzMx", "\u{e9}", 2100), ("ZzM", "\u{20ac}", 2800), ("ZzMx", "\u{20ac}", 2800), ("ZzMxx", "\u{20ac}", 2800)].iter().enumerate() {
                        let long = format!("{}{}", prefix, ch.repeat(*count));
                        nodes.push(PNode {
                            class: long.clone(),
                            name: long.clone(),
                            parent: Some(0),
                            props: vec![
                                (long.clone(), PVal::V(Variant::Int32(100 + i as i32))),
                                ("Uri".to_owned(), PVal::V(Variant::Content(Content::from_uri(long.clone())))),
                                ("Fnt".to_owned(), PVal::V(Variant::Font(rbx_types::Font::new(&long, rbx_types::FontWeight::Regular, rbx_types::FontStyle::Normal)))),
                            ],
                        });
                    }
                }
                "instances" => {
                    // top -> 256 groups -> leaves
                    let groups = 256usize;
                    for g in 0..groups {
                        nodes.push(PNode { class: "Folder".to_owned(), name: format!("g{}", g), parent: Some(0), props: vec![] });
                    }
                    for i in 0..*n {
                        nodes.push(PNode { class: "ZzUnknown".to_owned(), name: format!("l{}", i), parent: Some(1 + i % groups), props: vec![("I".to_owned(), PVal::V(Variant::Int32(i as i32)))] });
                    }
                    // keep pre-order = index order: sort children after their group
                    let mut ordered = nodes[..1 + groups].to_vec();
                    let mut leaves: Vec<PNode> = nodes[1 + groups..].to_vec();
                    leaves.sort_by_key(|l| l.parent);
                    // parents precede children; sibling order is index order, so this is a valid plan
                    ordered.extend(leaves);
                    nodes = ordered;
                }
                _ => {
                    let long = "LongName".repeat(40);
                    for (i, (class, prop)) in [("Zz\u{e9}\u{2603}Class", "pr\u{f6}p \u{2603}"), (long.as_str(), long.as_str()), ("ZzEmptyProp", ""), ("Zz<&>\"'", "a<&>\"'b"), ("Zz Spaced Class", " lead and trail ")].iter().enumerate() {
                        nodes.push(PNode { class: (*class).to_owned(), name: format!("odd{}", i), parent: Some(0), props: vec![((*prop).to_owned(), PVal::V(Variant::Int32(i as i32))), ("Other".to_owned(), PVal::V(Variant::String((*prop).to_owned())))] });
                    }
                }
            }
            Plan { nodes, roots: RootSel::Nodes(vec![0]) }
        }
        CaseDesc::Wide { n } => {
            let mut nodes = vec![PNode { class: "Folder".to_owned(), name: "top".to_owned(), parent: None, props: vec![] }];
            for i in 0..*n {
                nodes.push(PNode {
                    class: "ZzUnknown".to_owned(),
                    name: format!("w{}", i),
                    parent: Some(0),
                    props: vec![
                        ("I".to_owned(), PVal::V(Variant::Int32((i as i32) * 7919 - 100_000))),
                        ("S".to_owned(), PVal::V(Variant::String(format!("s{}", i % 11)))),
                        ("R".to_owned(), PVal::Ref(Tgt::Node(1 + (i * 37 + 11) % *n))),
                        ("Sh".to_owned(), PVal::Shared(format!("shared-{}", i % 3).into_bytes())),
                    ],
                });
            }
            Plan { nodes, roots: RootSel::Nodes(vec![0]) }
        }
        CaseDesc::Chain { depth } => {
            let nodes = (0..*depth)
                .map(|i| PNode {
                    class: "Folder".to_owned(),
                    name: format!("d{}", i),
                    parent: if i == 0 { None } else { Some(i - 1) },
                    props: vec![],
                })
                .collect();
            Plan {
                nodes,
                roots: RootSel::Nodes(vec![0]),
            }
        }
        CaseDesc::NearName { base, x, y, nested } => {
            let sites = near_sites(*base);
            let node = |i: usize, k: usize, parent: Option<usize>| PNode {
                class: sites[k].0.clone(),
                name: format!("n{}", i),
                parent,
                props: vec![(sites[k].1.clone(), PVal::V(sites[k].2.clone()))],
            };
            Plan {
                nodes: vec![node(0, *x, None), node(1, *y, if *nested { Some(0) } else { None })],
                roots: RootSel::Nodes(if *nested { vec![0] } else { vec![0, 1] }),
            }
        }
        CaseDesc::Counts { per_class } => {
            let mut nodes = vec![PNode { class: "Folder".to_owned(), name: "top".to_owned(), parent: None, props: vec![] }];
            let mut first_of: Vec<usize> = Vec::new();
            for (c, n) in per_class.iter().enumerate() {
                first_of.push(nodes.len());
                for i in 0..*n {
                    let mut props = vec![("I".to_owned(), PVal::V(Variant::Int32((c * 1000 + i) as i32)))];
                    if i == 0 {
                        props.push(("OnlyFirst".to_owned(), PVal::V(Variant::String(format!("first of class {}", c)))));
                    }
                    if i + 1 == *n {
                        props.push(("OnlyLast".to_owned(), PVal::V(Variant::Float32(c as f32 + 0.5))));
                    }
                    nodes.push(PNode { class: format!("ZzCount{:03}", c), name: format!("c{}i{}", c, i), parent: Some(0), props });
                }
            }
            // Refs to the next class, cyclically
            let k = per_class.len();
            for (c, n) in per_class.iter().enumerate() {
                let next = (c + 1) % k;
                for i in 0..*n {
                    let target = first_of[next] + i % per_class[next];
                    nodes[first_of[c] + i].props.push(("R".to_owned(), PVal::Ref(Tgt::Node(target))));
                }
            }
            Plan { nodes, roots: RootSel::Nodes(vec![0]) }
        }
        CaseDesc::Forbidden { label, in_name } => {
            let ch = vals::xml_forbidden_chars().into_iter().find(|(l, _)| l == label).expect("forbidden label").1;
            let text = format!("a{}b", ch);
            Plan {
                nodes: vec![PNode {
                    class: "ZzUnknown".to_owned(),
                    name: if *in_name { text.clone() } else { "plain".to_owned() },
                    parent: None,
                    props: if *in_name { vec![] } else { vec![("Str".to_owned(), PVal::V(Variant::String(text)))] },
                }],
                roots: RootSel::Nodes(vec![0]),
            }
        }
        CaseDesc::KnownAndUnknownRefs { carrier, first, target } => {
            let mut nodes = vec![
                PNode { class: "Model".to_owned(), name: "a".to_owned(), parent: None, props: vec![("PrimaryPart".to_owned(), PVal::Ref(Tgt::Node(2)))] },
                PNode { class: "ObjectValue".to_owned(), name: "b".to_owned(), parent: Some(0), props: vec![("Value".to_owned(), PVal::Ref(Tgt::Node(0)))] },
                PNode { class: "Part".to_owned(), name: "c".to_owned(), parent: Some(0), props: vec![("Anchored".to_owned(), PVal::V(Variant::Bool(true)))] },
                PNode { class: "ObjectValue".to_owned(), name: "d".to_owned(), parent: None, props: vec![("Value".to_owned(), PVal::Ref(Tgt::Node(2)))] },
            ];
            let t = match target {
                0 => Tgt::Null,
                1 => Tgt::Node(0),
                2 => Tgt::Node(2),
                _ => Tgt::Ghost,
            };
            let (rn, sn) = if *first { ("AaaUnknownRef", "AaaUnknownShared") } else { ("ZzzUnknownRef", "ZzzUnknownShared") };
            nodes[*carrier].props.push((rn.to_owned(), PVal::Ref(t)));
            nodes[*carrier].props.push((sn.to_owned(), PVal::Shared(b"unknown shared content".to_vec())));
            Plan { nodes, roots: RootSel::Nodes(vec![0, 3]) }
        }
        CaseDesc::SameName { x, y, shape } => {
            let sites = same_name_sites();
            let (a, b) = (&sites[*x], &sites[*y]);
            Plan {
                nodes: vec![
                    PNode { class: a.0.to_owned(), name: "first".to_owned(), parent: None, props: vec![("Value".to_owned(), a.1.clone())] },
                    PNode { class: b.0.to_owned(), name: "second".to_owned(), parent: if *shape == 1 { Some(0) } else { None }, props: vec![("Value".to_owned(), b.1.clone())] },
                ],
                roots: if *shape == 1 { RootSel::Nodes(vec![0]) } else if *shape == 2 { RootSel::Nodes(vec![1, 0]) } else { RootSel::Nodes(vec![0, 1]) },
            }
        }
        CaseDesc::OfClass { class } => Plan {
            nodes: vec![
                PNode { class: class.clone(), name: format!(" an instance of {} ", class), parent: None, props: vec![] },
                PNode { class: class.clone(), name: String::new(), parent: Some(0), props: vec![] },
            ],
            roots: RootSel::Nodes(vec![0]),
        },
        CaseDesc::Position { ty, pad } => {
            let vt = vt_by_name(ty);
            let alpha = alphabet(vt, codec, false);
            let v = alpha.get(1).or_else(|| alpha.first()).expect("alphabet").v.clone();
            Plan {
                nodes: vec![PNode {
                    class: "ZzUnknown".to_owned(),
                    name: "pos".to_owned(),
                    parent: None,
                    props: vec![("A_pad".to_owned(), PVal::V(Variant::String("p".repeat(*pad)))), ("B_val".to_owned(), PVal::V(v.clone())), ("C_after".to_owned(), PVal::V(v))],
                }],
                roots: RootSel::Nodes(vec![0]),
            }
        }
        CaseDesc::Text { frags } => {
            let s = text_of(frags);
            Plan {
                nodes: vec![
                    PNode { class: "Folder".to_owned(), name: s.clone(), parent: None, props: vec![] },
                    PNode {
                        class: "ZzUnknownClass".to_owned(),
                        name: s.clone(),
                        parent: Some(0),
                        props: vec![
                            ("Str".to_owned(), PVal::V(Variant::String(s.clone()))),
                            ("Uri".to_owned(), PVal::V(Variant::Content(Content::from_uri(s.clone())))),
                            ("Fnt".to_owned(), PVal::V(Variant::Font(rbx_types::Font::new(&s, rbx_types::FontWeight::Regular, rbx_types::FontStyle::Normal)))),
                        ],
                    },
                    PNode { class: "StringValue".to_owned(), name: "known".to_owned(), parent: Some(0), props: vec![("Value".to_owned(), PVal::V(Variant::String(s)))] },
                ],
                roots: RootSel::Nodes(vec![0]),
            }
        }
        CaseDesc::Name { label } => {
            let s = vals::text_alphabet(true)
                .into_iter()
                .find(|(l, _)| l == label)
                .expect("name label")
                .1;
            Plan {
                nodes: vec![
                    PNode {
                        class: "Folder".to_owned(),
                        name: s.clone(),
                        parent: None,
                        props: vec![],
                    },
                    PNode {
                        class: "ZzUnknownClass".to_owned(),
                        name: s,
                        parent: Some(0),
                        props: vec![],
                    },
                ],
                roots: RootSel::Nodes(vec![0]),
            }
        }
    }
}

pub fn how_of(desc: &CaseDesc) -> How {
    match desc {
        CaseDesc::Topo { how, .. } => match how % 3 {
            0 => How::Nested,
            1 => How::Incremental,
            _ => How::Reparent,
        },
        _ => How::Nested,
    }
}

// ---------------------------------------------------------------------------
// Expectations

fn quantise(c: &Color3) -> Color3uint8 {
    let q = |x: f32| (x.clamp(0.0, 1.0) * 255.0).round() as u8;
    Color3uint8::new(q(c.r), q(c.g), q(c.b))
}

fn snap_cf(c: &CFrame) -> CFrame {
    CFrame::new(c.position, snap_rotation(&c.orientation))
}

fn pval_variant(v: &PVal) -> Option<&Variant> {
    match v {
        PVal::V(v) => Some(v),
        _ => None,
    }
}

/// The type's neutral value (used when the database records no default).
pub fn neutral(ty: VariantType) -> Option<Variant> {
    Some(match ty {
        VariantType::String => Variant::String(String::new()),
        VariantType::BinaryString => Variant::BinaryString(BinaryString::new()),
        VariantType::Bool => Variant::Bool(false),
        VariantType::Int32 => Variant::Int32(0),
        VariantType::Int64 => Variant::Int64(0),
        VariantType::Float32 => Variant::Float32(0.0),
        VariantType::Float64 => Variant::Float64(0.0),
        VariantType::UDim => Variant::UDim(UDim::new(0.0, 0)),
        VariantType::UDim2 => Variant::UDim2(UDim2::new(UDim::new(0.0, 0), UDim::new(0.0, 0))),
        VariantType::Ray => Variant::Ray(Ray::new(Vector3::new(0.0, 0.0, 0.0), Vector3::new(0.0, 0.0, 0.0))),
        VariantType::Faces => Variant::Faces(Faces::from_bits(0)?),
        VariantType::Axes => Variant::Axes(Axes::from_bits(0)?),
        VariantType::BrickColor => Variant::BrickColor(BrickColor::from_number(194)?),
        VariantType::CFrame => Variant::CFrame(CFrame::new(Vector3::new(0.0, 0.0, 0.0), Matrix3::identity())),
        VariantType::Enum => Variant::Enum(Enum::from_u32(u32::MAX)),
        VariantType::Color3 => Variant::Color3(Color3::new(0.0, 0.0, 0.0)),
        VariantType::Vector2 => Variant::Vector2(Vector2::new(0.0, 0.0)),
        VariantType::Vector3 => Variant::Vector3(Vector3::new(0.0, 0.0, 0.0)),
        VariantType::Ref => Variant::Ref(Ref::none()),
        VariantType::Vector3int16 => Variant::Vector3int16(Vector3int16::new(0, 0, 0)),
        VariantType::NumberSequence => Variant::NumberSequence(NumberSequence {
            keypoints: vec![NumberSequenceKeypoint::new(0.0, 0.0, 0.0), NumberSequenceKeypoint::new(0.0, 0.0, 0.0)],
        }),
        VariantType::ColorSequence => Variant::ColorSequence(ColorSequence {
            keypoints: vec![
                ColorSequenceKeypoint::new(0.0, Color3::new(0.0, 0.0, 0.0)),
                ColorSequenceKeypoint::new(0.0, Color3::new(0.0, 0.0, 0.0)),
            ],
        }),
        VariantType::NumberRange => Variant::NumberRange(NumberRange::new(0.0, 0.0)),
        VariantType::Rect => Variant::Rect(Rect::new(Vector2::new(0.0, 0.0), Vector2::new(0.0, 0.0))),
        VariantType::PhysicalProperties => Variant::PhysicalProperties(PhysicalProperties::Default),
        VariantType::Color3uint8 => Variant::Color3uint8(Color3uint8::new(0, 0, 0)),
        VariantType::SharedString => Variant::SharedString(SharedString::new(Vec::new())),
        VariantType::OptionalCFrame => Variant::OptionalCFrame(None),
        VariantType::Tags => Variant::Tags(Tags::new()),
        VariantType::ContentId => Variant::ContentId(ContentId::new()),
        VariantType::Attributes => Variant::Attributes(Attributes::new()),
        VariantType::UniqueId => Variant::UniqueId(UniqueId::nil()),
        VariantType::Font => Variant::Font(Font::default()),
        VariantType::MaterialColors => Variant::MaterialColors(MaterialColors::new()),
        VariantType::SecurityCapabilities => Variant::SecurityCapabilities(SecurityCapabilities::default()),
        VariantType::Content => Variant::Content(Content::none()),
        _ => return None,
    })
}

/// Expected (canonical name, value) of one plain property after a *binary*
/// round trip; None = the property is not expected to come back (does not
/// serialize / migrates: handled by C15).
pub fn expect_binary_value(class: &str, prop: &str, v: &Variant) -> Option<(String, Variant)> {
    match specdb::expect(class, prop) {
        None => {
            // unknown to the database: untyped string-like blobs return as BinaryString
            let nv = match v {
                Variant::String(s) => Variant::BinaryString(BinaryString::from(s.as_bytes().to_vec())),
                Variant::ContentId(s) => Variant::BinaryString(BinaryString::from(s.as_str().as_bytes().to_vec())),
                Variant::Tags(t) => Variant::BinaryString(BinaryString::from(t.encode())),
                Variant::MaterialColors(m) => Variant::BinaryString(BinaryString::from(m.encode())),
                Variant::CFrame(c) => Variant::CFrame(snap_cf(c)),
                Variant::OptionalCFrame(Some(c)) => Variant::OptionalCFrame(Some(snap_cf(c))),
                other => other.clone(),
            };
            Some((prop.to_owned(), nv))
        }
        Some(e) => {
            if !e.serializes || e.migrate.is_some() {
                return None;
            }
            let nv = match (v, e.wire_ty) {
                (Variant::Color3(c), Some(VariantType::Color3uint8)) => Variant::Color3uint8(quantise(c)),
                // a narrower numeric stored for a wider declared type is widened exactly
                (Variant::Int32(i), _) if e.ty == Some(VariantType::Int64) => Variant::Int64(*i as i64),
                (Variant::Float32(f), _) if e.ty == Some(VariantType::Float64) => Variant::Float64(*f as f64),
                (Variant::CFrame(c), _) => Variant::CFrame(snap_cf(c)),
                (Variant::OptionalCFrame(Some(c)), _) => Variant::OptionalCFrame(Some(snap_cf(c))),
                (other, _) => other.clone(),
            };
            Some((e.name, nv))
        }
    }
}

#[derive(Clone, Copy, Debug, PartialEq, Eq, Serialize, Deserialize)]
pub enum XmlMode {
    /// EncodeOptions::default + DecodeOptions::default
    Default,
    /// WriteUnknown + ReadUnknown
    Unknown,
    /// NoReflection + NoReflection
    NoReflection,
}

/// Expected (name, value) after an *XML* round trip under the given options.
pub fn expect_xml_value(class: &str, prop: &str, v: &Variant, mode: XmlMode) -> Option<(String, Variant)> {
    let untyped = |v: &Variant| -> Variant {
        match v {
            Variant::BrickColor(b) => Variant::Int32(*b as u16 as i32),
            Variant::Tags(t) => Variant::BinaryString(BinaryString::from(t.encode())),
            Variant::MaterialColors(m) => Variant::BinaryString(BinaryString::from(m.encode())),
            Variant::Attributes(a) => {
                let mut buf = Vec::new();
                a.to_writer(&mut buf).expect("attributes encode");
                Variant::BinaryString(BinaryString::from(buf))
            }
            other => other.clone(),
        }
    };
    if mode == XmlMode::NoReflection {
        return Some((prop.to_owned(), untyped(v)));
    }
    match specdb::expect(class, prop) {
        None => {
            if mode == XmlMode::Default {
                None
            } else {
                Some((prop.to_owned(), untyped(v)))
            }
        }
        Some(e) => {
            if !e.serializes || e.migrate.is_some() {
                return None;
            }
            let nv = match (v, e.wire_ty) {
                (Variant::Color3(c), Some(VariantType::Color3uint8)) => Variant::Color3uint8(quantise(c)),
                (other, _) => other.clone(),
            };
            Some((e.name, nv))
        }
    }
}

/// Renders the expected property list of a planned property.
fn expected_props(
    codec: Codec,
    xml_mode: XmlMode,
    float_mode: FloatMode,
    node: &PNode,
    prop: &str,
    v: &PVal,
    refstr: &dyn Fn(&Tgt) -> String,
) -> Vec<(String, String)> {
    let name_for = |p: &str| -> Option<String> {
        match codec {
            Codec::Binary => match specdb::expect(&node.class, p) {
                None => Some(p.to_owned()),
                Some(e) if e.serializes && e.migrate.is_none() => Some(e.name),
                _ => None,
            },
            _ => {
                if xml_mode == XmlMode::NoReflection {
                    return Some(p.to_owned());
                }
                match specdb::expect(&node.class, p) {
                    None => {
                        if xml_mode == XmlMode::Default {
                            None
                        } else {
                            Some(p.to_owned())
                        }
                    }
                    Some(e) if e.serializes && e.migrate.is_none() => Some(e.name),
                    _ => None,
                }
            }
        }
    };
    match v {
        PVal::V(val) => {
            let e = match codec {
                Codec::Binary => expect_binary_value(&node.class, prop, val),
                _ => expect_xml_value(&node.class, prop, val, xml_mode),
            };
            match e {
                Some((n, nv)) => vec![(n, render(&nv, float_mode, &|_| "?".to_owned()))],
                None => vec![],
            }
        }
        PVal::Ref(t) => match name_for(prop) {
            Some(n) => vec![(n, format!("Ref:{}", refstr(t)))],
            None => vec![],
        },
        PVal::ContentObj(t) => match name_for(prop) {
            Some(n) => vec![(n, format!("Content:Object:{}", refstr(t)))],
            None => vec![],
        },
        PVal::Shared(b) => match name_for(prop) {
            Some(n) => vec![(n, render(&Variant::SharedString(SharedString::new(b.clone())), float_mode, &|_| "?".to_owned()))],
            None => vec![],
        },
    }
}

pub fn expected_for(plan: &Plan, codec: Codec, xml_mode: XmlMode, float_mode: FloatMode) -> Vec<CNode> {
    expected_forest(plan, &|node, prop, v, refstr| {
        expected_props(codec, xml_mode, float_mode, node, prop, v, refstr)
    })
}

/// Permitted extra properties after a binary round trip: an instance may gain,
/// with the default value, a property that another written instance of its
/// class carried.
pub fn binary_gain_rule(plan: &Plan, float_mode: FloatMode) -> impl Fn(&str, &str, &str) -> bool {
    // class -> canonical name -> rendered default
    let mut allowed: BTreeMap<String, BTreeMap<String, BTreeSet<String>>> = BTreeMap::new();
    let written: BTreeSet<usize> = plan.written_preorder().into_iter().collect();
    for (i, n) in plan.nodes.iter().enumerate() {
        if !written.contains(&i) {
            continue;
        }
        for (p, v) in &n.props {
            let (canonical, ty) = match specdb::expect(&n.class, p) {
                None => (
                    p.clone(),
                    match v {
                        PVal::V(v) => Some(v.ty()),
                        PVal::Ref(_) => Some(VariantType::Ref),
                        PVal::ContentObj(_) => Some(VariantType::Content),
                        PVal::Shared(_) => Some(VariantType::SharedString),
                    },
                ),
                Some(e) => {
                    if !e.serializes {
                        continue;
                    }
                    match e.migrate {
                        // a migrating legacy property makes the *new* property's column appear
                        Some((to, _)) => match specdb::expect(&n.class, &to) {
                            Some(e2) => (e2.name, e2.wire_ty),
                            None => continue,
                        },
                        None => (e.name, e.wire_ty),
                    }
                }
            };
            let default = specdb::default_value(&n.class, &canonical)
                .cloned()
                .or_else(|| ty.and_then(neutral));
            if let Some(d) = default {
                if let Some((name, dv)) = expect_binary_value(&n.class, &canonical, &d) {
                    let r = render(&dv, float_mode, &|r: Ref| if r.is_none() { "null".to_owned() } else { "dangling".to_owned() });
                    allowed.entry(n.class.clone()).or_default().entry(name).or_default().insert(r);
                }
            }
        }
    }
    move |class: &str, prop: &str, rendered: &str| -> bool {
        allowed
            .get(class)
            .and_then(|m| m.get(prop))
            .map(|s| s.contains(rendered))
            .unwrap_or(false)
    }
}

// ---------------------------------------------------------------------------
// Running one case through a real codec

#[derive(Clone, Copy, Debug, PartialEq, Eq, Serialize, Deserialize)]
pub enum Compression {
    Lz4,
    None,
    Zstd,
}

impl Compression {
    pub fn all() -> [Compression; 3] {
        [Compression::Lz4, Compression::None, Compression::Zstd]
    }
    pub fn real(self) -> rbx_binary::CompressionType {
        match self {
            Compression::Lz4 => rbx_binary::CompressionType::Lz4,
            Compression::None => rbx_binary::CompressionType::None,
            Compression::Zstd => rbx_binary::CompressionType::Zstd,
        }
    }
}

/// A reader that hands out at most `step` bytes per `read()` call.
pub struct Dribble<'a> {
    pub data: &'a [u8],
    pub pos: usize,
    pub step: usize,
}

impl<'a> std::io::Read for Dribble<'a> {
    fn read(&mut self, buf: &mut [u8]) -> std::io::Result<usize> {
        let n = buf.len().min(self.step).min(self.data.len() - self.pos);
        buf[..n].copy_from_slice(&self.data[self.pos..self.pos + n]);
        self.pos += n;
        Ok(n)
    }
}

#[derive(Debug)]
pub enum Outcome {
    /// encoder returned Err: outside the round-trip properties' domain
    EncodeErr(String),
    EncodePanic(String, String),
    DecodeErr(String),
    DecodePanic(String, String),
    /// `entry_points`: disagreements between the public entry points that should be equivalent
    Ok { bytes: Vec<u8>, forest: Vec<CNode>, entry_points: Vec<String> },
}

pub fn binary_encode(r: &Realised, roots: &[Ref], c: Compression) -> Result<Result<Vec<u8>, String>, (String, String)> {
    crate::evidence::guarded(|| {
        let mut out = Vec::new();
        match rbx_binary::Serializer::new()
            .compression_type(c.real())
            .serialize(&mut out, &r.dom, roots)
        {
            Ok(()) => Ok(out),
            Err(e) => Err(e.to_string()),
        }
    })
}

pub fn binary_roundtrip(plan: &Plan, how: How, c: Compression, mode: FloatMode) -> Outcome {
    let r = plan.realise(how, None);
    let roots = plan.root_refs(&r);
    let bytes = match binary_encode(&r, &roots, c) {
        Err((s, m)) => return Outcome::EncodePanic(s, m),
        Ok(Err(e)) => return Outcome::EncodeErr(e),
        Ok(Ok(b)) => b,
    };
    let dec = crate::evidence::guarded(|| rbx_binary::from_reader(bytes.as_slice()).map_err(|e| e.to_string()));
    match dec {
        Err((s, m)) => Outcome::DecodePanic(s, m),
        Ok(Err(e)) => Outcome::DecodeErr(e),
        Ok(Ok(dom2)) => {
            let forest = canon_forest(&dom2, dom2.root().children(), mode);
            let mut entry_points = Vec::new();
            // the builder API and the convenience functions are documented as the same thing
            let via_builder = crate::evidence::guarded(|| rbx_binary::Deserializer::new().deserialize(bytes.as_slice()).map_err(|e| e.to_string()));
            match via_builder {
                Ok(Ok(d3)) => {
                    if canon_forest(&d3, d3.root().children(), mode) != forest {
                        entry_points.push("Deserializer::new().deserialize and from_reader decode the same bytes differently".to_owned());
                    }
                }
                _ => entry_points.push("Deserializer::new().deserialize fails on bytes from_reader accepts".to_owned()),
            }
            // a reader that delivers a few bytes per call describes the same file
            let dribbled = crate::evidence::guarded(|| rbx_binary::from_reader(Dribble { data: &bytes, pos: 0, step: 7 }).map_err(|e| e.to_string()));
            match dribbled {
                Ok(Ok(d3)) => {
                    if canon_forest(&d3, d3.root().children(), mode) != forest {
                        entry_points.push("from_reader gives a different DOM when the reader delivers 7 bytes per call".to_owned());
                    }
                }
                _ => entry_points.push("from_reader fails when the reader delivers 7 bytes per call although it accepts the same bytes from a slice".to_owned()),
            }
            // one `Serializer` and one `Deserializer` value per compression mode live as long as the
            // worker process and see every case it runs: what they give must not depend on that
            thread_local! {
                static SHARED_SER: [rbx_binary::Serializer<'static>; 3] = [
                    rbx_binary::Serializer::new().compression_type(rbx_binary::CompressionType::Lz4),
                    rbx_binary::Serializer::new().compression_type(rbx_binary::CompressionType::None),
                    rbx_binary::Serializer::new().compression_type(rbx_binary::CompressionType::Zstd),
                ];
                static SHARED_DE: rbx_binary::Deserializer<'static> = rbx_binary::Deserializer::new();
            }
            let which = match c {
                Compression::Lz4 => 0,
                Compression::None => 1,
                Compression::Zstd => 2,
            };
            let reused = crate::evidence::guarded(|| {
                let mut out = Vec::new();
                SHARED_SER.with(|s| s[which].serialize(&mut out, &r.dom, &roots)).map(|_| out).map_err(|e| e.to_string())
            });
            match reused {
                Ok(Ok(b2)) => {
                    if b2 != bytes {
                        entry_points.push("a Serializer value that has written other DOMs before writes different bytes than a fresh one".to_owned());
                    }
                }
                _ => entry_points.push("a Serializer value that has written other DOMs before fails where a fresh one succeeds".to_owned()),
            }
            match crate::evidence::guarded(|| SHARED_DE.with(|d| d.deserialize(bytes.as_slice()).map_err(|e| e.to_string()))) {
                Ok(Ok(d3)) => {
                    if canon_forest(&d3, d3.root().children(), mode) != forest {
                        entry_points.push("a Deserializer value that has read other files before decodes the same bytes differently than a fresh one".to_owned());
                    }
                }
                _ => entry_points.push("a Deserializer value that has read other files before fails on bytes a fresh one accepts".to_owned()),
            }
            if c == Compression::Lz4 {
                let conv = crate::evidence::guarded(|| {
                    let mut out = Vec::new();
                    rbx_binary::to_writer(&mut out, &r.dom, &roots).map(|_| out).map_err(|e| e.to_string())
                });
                match conv {
                    Ok(Ok(b2)) => {
                        if b2 != bytes {
                            entry_points.push("rbx_binary::to_writer and Serializer::new() with the default compression write different bytes".to_owned());
                        }
                    }
                    _ => entry_points.push("rbx_binary::to_writer fails where the Serializer builder succeeds".to_owned()),
                }
            }
            Outcome::Ok { bytes, forest, entry_points }
        }
    }
}

/// same shape, classes and names, and every property `b` shows is shown by `a` with the same value
pub fn covers(a: &[CNode], b: &[CNode]) -> bool {
    a.len() == b.len()
        && a.iter().zip(b).all(|(x, y)| x.class == y.class && x.name == y.name && y.props.iter().all(|(k, v)| x.props.get(k) == Some(v)) && covers(&x.children, &y.children))
}

pub fn xml_options(mode: XmlMode) -> (rbx_xml::EncodeOptions<'static>, rbx_xml::DecodeOptions<'static>) {
    use rbx_xml::{DecodeOptions, DecodePropertyBehavior, EncodeOptions, EncodePropertyBehavior};
    match mode {
        XmlMode::Default => (EncodeOptions::new(), DecodeOptions::new()),
        XmlMode::Unknown => (
            EncodeOptions::new().property_behavior(EncodePropertyBehavior::WriteUnknown),
            DecodeOptions::new().property_behavior(DecodePropertyBehavior::ReadUnknown),
        ),
        XmlMode::NoReflection => (
            EncodeOptions::new().property_behavior(EncodePropertyBehavior::NoReflection),
            DecodeOptions::new().property_behavior(DecodePropertyBehavior::NoReflection),
        ),
    }
}

pub fn xml_encode(r: &Realised, roots: &[Ref], mode: XmlMode) -> Result<Result<Vec<u8>, String>, (String, String)> {
    let (enc, _) = xml_options(mode);
    crate::evidence::guarded(|| {
        let mut out = Vec::new();
        match rbx_xml::to_writer(&mut out, &r.dom, roots, enc) {
            Ok(()) => Ok(out),
            Err(e) => Err(e.to_string()),
        }
    })
}

pub fn xml_roundtrip(plan: &Plan, how: How, mode: XmlMode, fmode: FloatMode) -> Outcome {
    let r = plan.realise(how, None);
    let roots = plan.root_refs(&r);
    let bytes = match xml_encode(&r, &roots, mode) {
        Err((s, m)) => return Outcome::EncodePanic(s, m),
        Ok(Err(e)) => return Outcome::EncodeErr(e),
        Ok(Ok(b)) => b,
    };
    let (_, dec_opts) = xml_options(mode);
    let dec = crate::evidence::guarded(|| rbx_xml::from_reader(bytes.as_slice(), dec_opts).map_err(|e| e.to_string()));
    match dec {
        Err((s, m)) => Outcome::DecodePanic(s, m),
        Ok(Err(e)) => Outcome::DecodeErr(e),
        Ok(Ok(dom2)) => {
            let forest = canon_forest(&dom2, dom2.root().children(), fmode);
            let mut entry_points = Vec::new();
            let same = |d: Result<Result<rbx_dom_weak::WeakDom, String>, (String, String)>, what: &str, entry_points: &mut Vec<String>| match d {
                Ok(Ok(d3)) => {
                    if canon_forest(&d3, d3.root().children(), fmode) != forest {
                        entry_points.push(format!("{} and from_reader decode the same document differently", what));
                    }
                }
                _ => entry_points.push(format!("{} fails on a document from_reader accepts", what)),
            };
            {
                let (_, o) = xml_options(mode);
                same(crate::evidence::guarded(|| rbx_xml::from_reader(Dribble { data: &bytes, pos: 0, step: 7 }, o).map_err(|e| e.to_string())), "from_reader over a reader that delivers 7 bytes per call", &mut entry_points);
            }
            if let Ok(text) = std::str::from_utf8(&bytes) {
                let (_, o) = xml_options(mode);
                same(crate::evidence::guarded(|| rbx_xml::from_str(text, o).map_err(|e| e.to_string())), "from_str", &mut entry_points);
                if mode == XmlMode::Default {
                    same(crate::evidence::guarded(|| rbx_xml::from_str_default(text).map_err(|e| e.to_string())), "from_str_default", &mut entry_points);
                }
            }
            // the same options built through every order of the builder's setters, naming the
            // bundled database explicitly (the builder does not look at the data: one document in
            // four, chosen by its length, keeps the sweep's cost in bounds)
            if bytes.len() % 4 == 0 {
                use rbx_xml::{DecodeOptions, DecodePropertyBehavior, EncodeOptions, EncodePropertyBehavior};
                let (eb, db_) = match mode {
                    XmlMode::Default => (EncodePropertyBehavior::IgnoreUnknown, DecodePropertyBehavior::IgnoreUnknown),
                    XmlMode::Unknown => (EncodePropertyBehavior::WriteUnknown, DecodePropertyBehavior::ReadUnknown),
                    XmlMode::NoReflection => (EncodePropertyBehavior::NoReflection, DecodePropertyBehavior::NoReflection),
                };
                let database = rbx_reflection_database::get();
                let encs = [
                    ("property_behavior(..).reflection_database(..)", EncodeOptions::new().property_behavior(eb).reflection_database(database)),
                    ("reflection_database(..).property_behavior(..)", EncodeOptions::new().reflection_database(database).property_behavior(eb)),
                ];
                for (how, o) in encs {
                    let res = crate::evidence::guarded(|| {
                        let mut out = Vec::new();
                        rbx_xml::to_writer(&mut out, &r.dom, &roots, o).map(|_| out).map_err(|e| e.to_string())
                    });
                    match res {
                        Ok(Ok(b2)) if b2 == bytes => {}
                        Ok(Ok(_)) => entry_points.push(format!("EncodeOptions built as {} write another document than the same options without the (default) database named", how)),
                        _ => entry_points.push(format!("EncodeOptions built as {} fail where the plain options succeed", how)),
                    }
                }
                let decs = [
                    ("property_behavior(..).reflection_database(..)", DecodeOptions::new().property_behavior(db_).reflection_database(database)),
                    ("reflection_database(..).property_behavior(..)", DecodeOptions::new().reflection_database(database).property_behavior(db_)),
                ];
                for (how, o) in decs {
                    same(crate::evidence::guarded(|| rbx_xml::from_reader(bytes.as_slice(), o).map_err(|e| e.to_string())), &format!("DecodeOptions built as {}", how), &mut entry_points);
                }
            }
            if mode == XmlMode::Default {
                same(crate::evidence::guarded(|| rbx_xml::from_reader_default(bytes.as_slice()).map_err(|e| e.to_string())), "from_reader_default", &mut entry_points);
                let conv = crate::evidence::guarded(|| {
                    let mut out = Vec::new();
                    rbx_xml::to_writer_default(&mut out, &r.dom, &roots).map(|_| out).map_err(|e| e.to_string())
                });
                match conv {
                    Ok(Ok(b2)) => {
                        if b2 != bytes {
                            entry_points.push("to_writer_default and to_writer with default options write different documents".to_owned());
                        }
                    }
                    _ => entry_points.push("to_writer_default fails where to_writer succeeds".to_owned()),
                }
                // the other property behaviours, judged against this one: WriteUnknown writes a
                // superset; ErrorOnUnknown fails exactly when WriteUnknown wrote something more,
                // and otherwise writes / reads the same as the default
                use rbx_xml::{DecodeOptions, DecodePropertyBehavior, EncodeOptions, EncodePropertyBehavior};
                let enc_with = |b: EncodePropertyBehavior| {
                    crate::evidence::guarded(|| {
                        let mut out = Vec::new();
                        rbx_xml::to_writer(&mut out, &r.dom, &roots, EncodeOptions::new().property_behavior(b)).map(|_| out).map_err(|e| e.to_string())
                    })
                };
                if let Ok(Ok(with_unknown)) = enc_with(EncodePropertyBehavior::WriteUnknown) {
                    let has_unknown = with_unknown != bytes;
                    match enc_with(EncodePropertyBehavior::ErrorOnUnknown) {
                        Ok(Ok(b2)) => {
                            if has_unknown {
                                entry_points.push("EncodePropertyBehavior::ErrorOnUnknown succeeds although WriteUnknown writes properties the default leaves out".to_owned());
                            } else if b2 != bytes {
                                entry_points.push("EncodePropertyBehavior::ErrorOnUnknown writes another document than the default although nothing is unknown".to_owned());
                            }
                        }
                        Ok(Err(_)) => {
                            if !has_unknown {
                                entry_points.push("EncodePropertyBehavior::ErrorOnUnknown fails although WriteUnknown and the default write the same document".to_owned());
                            }
                        }
                        Err(_) => entry_points.push("EncodePropertyBehavior::ErrorOnUnknown panics".to_owned()),
                    }
                    if has_unknown && matches!(crate::evidence::guarded(|| rbx_xml::from_reader(with_unknown.as_slice(), DecodeOptions::new().property_behavior(DecodePropertyBehavior::ReadUnknown)).map_err(|e| e.to_string())), Ok(Ok(_))) {
                        // (a document rbx_xml cannot read back at all is the round trip's business)
                        // the WriteUnknown document read with the default options: what is unknown may
                        // be left out, everything the default round trip shows must be there unchanged
                        match crate::evidence::guarded(|| rbx_xml::from_reader(with_unknown.as_slice(), DecodeOptions::new()).map_err(|e| e.to_string())) {
                            Ok(Ok(d3)) => {
                                if !covers(&canon_forest(&d3, d3.root().children(), fmode), &forest) {
                                    entry_points.push("the default decode of the document WriteUnknown writes loses or changes what the default round trip shows (known properties must not depend on unknown ones being present)".to_owned());
                                }
                            }
                            _ => entry_points.push("the default decode fails on the document WriteUnknown writes".to_owned()),
                        }
                    }
                    for (name, b) in [("ReadUnknown", DecodePropertyBehavior::ReadUnknown), ("ErrorOnUnknown", DecodePropertyBehavior::ErrorOnUnknown)] {
                        // the default document holds nothing unknown (unless the class itself is)
                        if has_unknown {
                            continue;
                        }
                        same(
                            crate::evidence::guarded(|| rbx_xml::from_reader(bytes.as_slice(), DecodeOptions::new().property_behavior(b)).map_err(|e| e.to_string())),
                            &format!("DecodePropertyBehavior::{} on a document without unknown properties", name),
                            &mut entry_points,
                        );
                    }
                }
            }
            Outcome::Ok { bytes, forest, entry_points }
        }
    }
}

// ---------------------------------------------------------------------------
// Case enumeration

pub fn type_modes(ty: VariantType) -> Vec<PropMode> {
    let mut m = vec![PropMode::UnknownClass, PropMode::UnknownProp];
    if specdb::known_property_for(ty).is_some() {
        m.push(PropMode::Known);
    }
    m
}

/// Value sweep: singles in every mode, full ordered pairs and (optionally)
/// windows of three in the unknown-class mode.
pub fn value_cases(codec: Codec, types: &[VariantType], k3: bool, large: bool) -> Vec<CaseDesc> {
    let mut out = Vec::new();
    for &ty in types {
        let alpha: Vec<LV> = alphabet(ty, codec, large);
        let tn = vals::type_name(ty);
        for mode in type_modes(ty) {
            for v in &alpha {
                out.push(CaseDesc::Value {
                    ty: tn.clone(),
                    labels: vec![v.label.clone()],
                    mode,
                });
            }
        }
        // pairs: position matters because columns are interleaved
        let pair_modes: &[PropMode] = &[PropMode::UnknownClass, PropMode::Known];
        for &mode in pair_modes {
            if mode == PropMode::Known && specdb::known_property_for(ty).is_none() {
                continue;
            }
            let full = alpha.len() <= 80 || mode == PropMode::UnknownClass;
            for (i, a) in alpha.iter().enumerate() {
                for (j, b) in alpha.iter().enumerate() {
                    if !full && !(j == (i + 1) % alpha.len() || j == 0 || i == 0) {
                        continue;
                    }
                    if a.label.starts_with("len65") || b.label.starts_with("len65") || a.label == "len64k" || b.label == "len64k" {
                        if i != j {
                            continue;
                        }
                    }
                    out.push(CaseDesc::Value {
                        ty: tn.clone(),
                        labels: vec![a.label.clone(), b.label.clone()],
                        mode,
                    });
                }
            }
        }
        if k3 {
            let n = alpha.len();
            if n <= 24 {
                let big = |l: &str| l.starts_with("len65") || l == "len64k";
                for a in &alpha {
                    for b in &alpha {
                        for c in &alpha {
                            // the large blobs appear in triples only as (x, x, x)
                            if (big(&a.label) || big(&b.label) || big(&c.label)) && !(a.label == b.label && b.label == c.label) {
                                continue;
                            }
                            out.push(CaseDesc::Value {
                                ty: tn.clone(),
                                labels: vec![a.label.clone(), b.label.clone(), c.label.clone()],
                                mode: PropMode::UnknownClass,
                            });
                        }
                    }
                }
            } else {
                for i in 0..n {
                    for (d1, d2) in [(1usize, 2usize), (2, 1), (n / 2, 1), (1, n / 2)] {
                        out.push(CaseDesc::Value {
                            ty: tn.clone(),
                            labels: vec![
                                alpha[i].label.clone(),
                                alpha[(i + d1) % n].label.clone(),
                                alpha[(i + d1 + d2) % n].label.clone(),
                            ],
                            mode: PropMode::UnknownClass,
                        });
                    }
                }
            }
        }
    }
    out
}

/// Topology sweep: every forest with 1..=max_nodes nodes x every class
/// assignment x every non-overlapping ordered root selection (and the DOM
/// root) x every placement of one Ref / Content-object / SharedString pair.
pub fn topo_cases(max_nodes: usize, class_count: u8) -> Vec<CaseDesc> {
    let mut out = Vec::new();
    for n in 1..=max_nodes {
        for parents in forests(n) {
            out.extend(topo_cases_for_forest(&parents, class_count));
        }
    }
    out
}

/// The topology cases of one forest shape (used directly for the largest size so that the
/// whole enumeration never has to be held in memory at once).
pub fn topo_cases_for_forest(parents: &[Option<usize>], class_count: u8) -> Vec<CaseDesc> {
    let parents = parents.to_vec();
    let n = parents.len();
    let mut out = Vec::new();
    let mut how = 0u8;
    {
        {
            let mut sels: Vec<Option<Vec<usize>>> = vec![None];
            for s in root_selections(&parents, 3) {
                sels.push(Some(s));
            }
            let total_classes = (class_count as usize).pow(n as u32);
            for code in 0..total_classes {
                let mut c = code;
                let classes: Vec<u8> = (0..n)
                    .map(|_| {
                        let x = (c % class_count as usize) as u8;
                        c /= class_count as usize;
                        x
                    })
                    .collect();
                for roots in &sels {
                    let mut feats: Vec<Feature> = Vec::new();
                    for a in 0..n {
                        for t in 0..(n + 2) {
                            feats.push(Feature::Ref { a, t });
                        }
                    }
                    // Content objects and SharedStrings only for one class pattern in three
                    if code % 3 == 0 {
                        for a in 0..n {
                            for t in 0..(n + 2) {
                                feats.push(Feature::ContentObj { a, t });
                            }
                        }
                        for a in 0..n {
                            for b in a..n {
                                feats.push(Feature::Sstr { a, b, same: true });
                                if a != b {
                                    feats.push(Feature::Sstr { a, b, same: false });
                                }
                            }
                        }
                        feats.push(Feature::Ring);
                        for a in 0..n {
                            for t in 0..(n + 2) {
                                feats.push(Feature::Weld { a, t });
                            }
                        }
                        feats.push(Feature::ContentRing);
                        feats.push(Feature::ContentMix);
                    }
                    for f in feats {
                        how = how.wrapping_add(1);
                        out.push(CaseDesc::Topo {
                            parents: parents.clone(),
                            classes: classes.clone(),
                            roots: roots.clone(),
                            feature: f,
                            how,
                        });
                    }
                }
            }
        }
    }
    out
}

/// Forests whose nodes are Folders or instances of a service class (Workspace), at every
/// depth and under every root selection: the binary format writes service classes in
/// their own INST object format.
pub fn service_topo_cases(max_nodes: usize) -> Vec<CaseDesc> {
    let mut out = Vec::new();
    let mut how = 0u8;
    for n in 1..=max_nodes {
        for parents in forests(n) {
            let mut sels: Vec<Option<Vec<usize>>> = vec![None];
            for s in root_selections(&parents, 3) {
                sels.push(Some(s));
            }
            for code in 1..(1usize << n) {
                let classes: Vec<u8> = (0..n).map(|i| if (code >> i) & 1 == 1 { 3 } else { 0 }).collect();
                for roots in &sels {
                    how = how.wrapping_add(1);
                    out.push(CaseDesc::Topo { parents: parents.clone(), classes: classes.clone(), roots: roots.clone(), feature: Feature::Ref { a: 0, t: 0 }, how });
                }
            }
        }
    }
    out
}

pub fn label_of(desc: &CaseDesc) -> String {
    match desc {
        CaseDesc::Value { ty, labels, mode } => format!("{}|{:?}|{}", ty, mode, labels.join("+")),
        CaseDesc::Topo { feature, .. } => format!("topo|{:?}", feature).chars().take(40).collect(),
        CaseDesc::Chain { depth } => format!("chain|{}", depth),
        CaseDesc::Wide { n } => format!("wide|{}", n),
        CaseDesc::Many { kind, n } => format!("many|{}|{}", kind, n),
        CaseDesc::Name { label } => format!("name|{}", label),
        CaseDesc::NearName { base, x, y, nested } => {
            let s = near_sites(*base);
            format!("near|{}.{}|{}.{}|{}", s[*x].0, s[*x].1, s[*y].0, s[*y].1, if *nested { "nested" } else { "siblings" })
        }
        CaseDesc::Text { frags } => format!("text|{:?}", frags),
        CaseDesc::Position { ty, pad } => format!("position|{}|{}", ty, pad),
        CaseDesc::OfClass { class } => format!("of-class|{}", class),
        CaseDesc::KnownAndUnknownRefs { carrier, first, target } => format!("known+unknown-refs|{}|{}|{}", carrier, if *first { "sorts-first" } else { "sorts-last" }, ["null", "model", "part", "outside"][*target as usize]),
        CaseDesc::SameName { x, y, shape } => {
            let s = same_name_sites();
            format!("same-name|{}|{}|{}", s[*x].0, s[*y].0, ["siblings", "nested", "roots-reversed"][*shape as usize])
        }
        CaseDesc::Forbidden { label, in_name } => format!("xml-forbidden-char|{}|{}", label, if *in_name { "name" } else { "value" }),
        CaseDesc::Counts { per_class } => format!("counts|{:?}", if per_class.len() > 6 { vec![per_class[0], per_class.len()] } else { per_class.clone() }),
    }
}

/// Short class of a case for violation keys: the type and mode for value
/// cases, the feature kind for topology cases.
pub fn class_of(desc: &CaseDesc) -> String {
    match desc {
        CaseDesc::Value { ty, mode, .. } => format!("value:{}:{:?}", ty, mode),
        CaseDesc::Topo { feature, roots, .. } => {
            let f = match feature {
                Feature::Ref { .. } => "ref",
                Feature::ContentObj { .. } => "content-object",
                Feature::ContentRing => "content-ring",
                Feature::ContentMix => "content-mix",
                Feature::Weld { .. } => "known-ref-serialized-under-other-name",
                Feature::Sstr { .. } => "sharedstring",
                Feature::Ring => "ring",
            };
            format!("topo:{}:{}", f, if roots.is_none() { "domroot" } else { "subtrees" })
        }
        CaseDesc::Chain { .. } => "chain".to_owned(),
        CaseDesc::Wide { .. } => "wide".to_owned(),
        CaseDesc::Many { kind, .. } => format!("many:{}", kind),
        CaseDesc::Name { .. } => "name".to_owned(),
        CaseDesc::NearName { base, .. } => format!("near-name:{}", near_sites(*base)[0].1),
        CaseDesc::Text { .. } => "text".to_owned(),
        CaseDesc::Position { ty, .. } => format!("position:{}", ty),
        CaseDesc::OfClass { .. } => "of-class".to_owned(),
        CaseDesc::SameName { .. } => "same-name-two-classes".to_owned(),
        CaseDesc::KnownAndUnknownRefs { .. } => "known-and-unknown-refs".to_owned(),
        CaseDesc::Forbidden { in_name, .. } => format!("xml-forbidden-char:{}", if *in_name { "name" } else { "value" }),
        CaseDesc::Counts { .. } => "counts".to_owned(),
    }
}

/// For value cases: which labels differ (to make keys value-specific).
pub fn culprit_labels(desc: &CaseDesc, diffs: &[Diff]) -> String {
    match desc {
        CaseDesc::Value { labels, .. } => {
            // the label of the first differing instance (path is "/<index>")
            for d in diffs {
                if let Some(i) = d.path.trim_start_matches('/').split('/').next().and_then(|s| s.parse::<usize>().ok()) {
                    if let Some(l) = labels.get(i) {
                        return l.clone();
                    }
                }
            }
            String::new()
        }
        _ => String::new(),
    }
}
