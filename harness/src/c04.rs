//! C04: the binary reader accepts any spec-conformant file — files produced
//! by the independent encoder (specbin::enc) across every degree of freedom
//! the document leaves open.

use std::collections::BTreeSet;

use rbx_dom_weak::types::{Attributes, Color3uint8, Content, Faces, Tags, UniqueId, Variant, Vector3};
use serde::{Deserialize, Serialize};
use serde_json::{json, Value};

use crate::codec::{expected_for, XmlMode};
use crate::evidence::{Run, Tier};
use crate::plan::*;
use crate::specbin::enc::{self, Comp, Encoding, COMPS};
use crate::specbin::{self, Switches};
use crate::sweeps::{run_cases, SweepOut};
use crate::vals::{f32_alphabet, i32_alphabet, Codec, FloatMode};

#[derive(Clone, Debug, Serialize, Deserialize)]
pub enum PlanDesc {
    /// forest shape + class pattern over the menu classes
    Topo { parents: Vec<Option<usize>>, classes: Vec<u8> },
    /// IntValue.Value written with the Int32 wire type (index into the i32 alphabet), two instances
    NarrowInt { a: usize, b: usize },
    /// NumberValue.Value written with the Float32 wire type
    NarrowFloat { a: usize, b: usize },
    /// one instance carrying one value of a type whose layout the document and the implementation read differently
    DocRow { which: u8 },
    /// a service class written in the service object format
    Service,
    /// `n` same-class instances under one Folder (long columns and referent arrays)
    Wide { n: usize },
    /// one incompressible byte string of `n` bytes (a chunk stored in more than 16 MiB)
    Huge { n: usize },
    /// two instances of an unknown class carrying values a, b of the alphabet of `ty` (every wire type's layout)
    TypePair { ty: String, a: usize, b: usize },
}

pub const MENU_CLASSES: [&str; 3] = ["ZzUnknownThing", "Part", "Folder"];

pub fn plan_of(d: &PlanDesc) -> Plan {
    match d {
        PlanDesc::Topo { parents, classes } => {
            let n = parents.len();
            let nodes = (0..n)
                .map(|i| {
                    let class = MENU_CLASSES[classes[i] as usize];
                    let mut props: Vec<(String, PVal)> = Vec::new();
                    match class {
                        "ZzUnknownThing" => {
                            props.push(("S".into(), PVal::V(Variant::String(format!("s{}", i)))));
                            props.push(("I".into(), PVal::V(Variant::Int32(i as i32 * 7 - 3))));
                            props.push(("F".into(), PVal::V(Variant::Float32(0.5 + i as f32))));
                            props.push(("R".into(), PVal::Ref(Tgt::Node((i + 1) % n))));
                            props.push(("Sh".into(), PVal::Shared(if i % 2 == 0 { b"even".to_vec() } else { b"odd-content".to_vec() })));
                            props.push(("C".into(), PVal::V(Variant::Content(match i % 3 { 0 => Content::none(), 1 => Content::from_uri(format!("rbxassetid://{}", i)), _ => Content::from_uri("") }))));
                            props.push(("Co".into(), PVal::ContentObj(Tgt::Node((i + n - 1) % n))));
                        }
                        "Part" => {
                            let mut tags = Tags::new();
                            tags.push(&format!("t{}", i));
                            props.push(("size".into(), PVal::V(Variant::Vector3(Vector3::new(1.0 + i as f32, 2.0, 3.0)))));
                            props.push(("Color3uint8".into(), PVal::V(Variant::Color3uint8(Color3uint8::new(10 * i as u8, 20, 30)))));
                            props.push(("Anchored".into(), PVal::V(Variant::Bool(i % 2 == 0))));
                            props.push(("Tags".into(), PVal::V(Variant::Tags(tags))));
                            props.push(("AttributesSerialize".into(), PVal::V(Variant::Attributes(Attributes::new().with("k", Variant::Float64(i as f64 + 0.5))))));
                        }
                        _ => {}
                    }
                    PNode { class: class.to_owned(), name: format!("n{}", i), parent: parents[i], props }
                })
                .collect();
            Plan { nodes, roots: RootSel::Nodes(vec![]) }
        }
        PlanDesc::NarrowInt { a, b } => {
            let al = i32_alphabet();
            let mk = |k: usize, i: usize| PNode { class: "IntValue".into(), name: format!("v{}", k), parent: None, props: vec![("Value".into(), PVal::V(Variant::Int32(al[i].1)))] };
            Plan { nodes: vec![mk(0, *a), mk(1, *b)], roots: RootSel::Nodes(vec![]) }
        }
        PlanDesc::NarrowFloat { a, b } => {
            let al = f32_alphabet();
            let mk = |k: usize, i: usize| PNode { class: "NumberValue".into(), name: format!("v{}", k), parent: None, props: vec![("Value".into(), PVal::V(Variant::Float32(al[i].1)))] };
            Plan { nodes: vec![mk(0, *a), mk(1, *b)], roots: RootSel::Nodes(vec![]) }
        }
        PlanDesc::DocRow { which } => {
            let v = match which {
                0 => Variant::UniqueId(UniqueId::new(7, 8, 9)),
                1 | 3 => Variant::Faces(Faces::from_bits(0b000110).unwrap()),
                4 => Variant::Axes(rbx_dom_weak::types::Axes::from_bits(0b101).unwrap()),
                _ => Variant::Content(Content::from_uri("rbxassetid://5")),
            };
            Plan { nodes: vec![PNode { class: "ZzUnknownThing".into(), name: "row".into(), parent: None, props: vec![("V".into(), PVal::V(v))] }], roots: RootSel::Nodes(vec![]) }
        }
        PlanDesc::Wide { n } => {
            let mut p = crate::codec::build_plan(&crate::codec::CaseDesc::Wide { n: *n }, Codec::Binary);
            p.roots = RootSel::Nodes(vec![]);
            p
        }
        PlanDesc::Huge { n } => {
            let mut p = crate::codec::build_plan(&crate::codec::CaseDesc::Many { kind: "hugeblob".into(), n: *n }, Codec::Binary);
            p.roots = RootSel::Nodes(vec![]);
            p
        }
        PlanDesc::TypePair { ty, a, b } => {
            let t = crate::vals::binary_types().into_iter().find(|t| crate::vals::type_name(*t) == *ty).expect("type");
            let al = crate::vals::alphabet(t, Codec::Binary, false);
            let mk = |k: usize, i: usize| PNode { class: "ZzUnknownThing".into(), name: format!("v{}", k), parent: None, props: vec![("V".into(), PVal::V(al[i].v.clone()))] };
            Plan { nodes: vec![mk(0, *a), mk(1, *b)], roots: RootSel::Nodes(vec![]) }
        }
        PlanDesc::Service => Plan {
            nodes: vec![
                PNode { class: "Workspace".into(), name: "Workspace".into(), parent: None, props: vec![] },
                PNode { class: "Folder".into(), name: "in".into(), parent: Some(0), props: vec![] },
                PNode { class: "Lighting".into(), name: "Lighting".into(), parent: None, props: vec![] },
            ],
            roots: RootSel::Nodes(vec![]),
        },
    }
}

fn with_all_roots(mut p: Plan) -> Plan {
    let roots = p.children_of(None);
    p.roots = RootSel::Nodes(roots);
    p
}

#[derive(Clone, Debug, Serialize, Deserialize)]
pub struct Case04 {
    pub plan: PlanDesc,
    pub enc: Encoding,
    pub dim: String,
}

/// all orders of 0..n that keep the relative order of nodes with the same parent
fn prnt_orders(plan: &Plan) -> Vec<Vec<usize>> {
    let n = plan.nodes.len();
    let mut out = Vec::new();
    let total: usize = (1..=n).product::<usize>().max(1);
    for k in 0..total {
        let perm = enc::permutation(n, k);
        let mut ok = true;
        for a in 0..n {
            for b in (a + 1)..n {
                // positions of node a and node b in perm
                if plan.nodes[a].parent == plan.nodes[b].parent {
                    let pa = perm.iter().position(|x| *x == a).unwrap();
                    let pb = perm.iter().position(|x| *x == b).unwrap();
                    if pa > pb {
                        ok = false;
                    }
                }
            }
        }
        if ok {
            out.push(perm);
        }
    }
    out
}

fn prop_perm_indices(count: usize) -> Vec<usize> {
    let total: usize = (1..=count).product::<usize>().max(1);
    if count <= 5 {
        (0..total).collect()
    } else {
        // rotations, reversal and adjacent transpositions, expressed as Lehmer indices by search
        let mut wanted: Vec<Vec<usize>> = Vec::new();
        for r in 0..count {
            wanted.push((0..count).map(|i| (i + r) % count).collect());
        }
        wanted.push((0..count).rev().collect());
        for t in 0..count - 1 {
            let mut v: Vec<usize> = (0..count).collect();
            v.swap(t, t + 1);
            wanted.push(v);
        }
        let mut out = Vec::new();
        for w in wanted {
            // Lehmer index of w
            let mut items: Vec<usize> = (0..count).collect();
            let mut k = 0usize;
            for (pos, x) in w.iter().enumerate() {
                let idx = items.iter().position(|y| y == x).unwrap();
                let f: usize = (1..(count - pos)).product::<usize>().max(1);
                k += idx * f;
                items.remove(idx);
            }
            if !out.contains(&k) {
                out.push(k);
            }
        }
        out
    }
}

pub fn encodings_for(pd: &PlanDesc, tier: Tier) -> Vec<(String, Encoding)> {
    let plan = plan_of(pd);
    let base = enc::base_encoding(&plan);
    let mut out: Vec<(String, Encoding)> = vec![("base".into(), base.clone())];
    let nclasses = enc::class_names(&plan).len();
    let n = plan.nodes.len();
    let nchunks = enc::chunk_count(&plan, &base);
    // compression: uniform, then every single-chunk deviation
    for c in COMPS.iter().skip(1) {
        let mut e = base.clone();
        e.comp = vec![*c];
        out.push((format!("compression-uniform:{:?}", c), e));
    }
    for k in 0..nchunks {
        for c in COMPS.iter().skip(1) {
            let mut e = base.clone();
            e.comp = vec![Comp::None; nchunks];
            e.comp[k] = *c;
            out.push(("compression-mixed-1".into(), e));
        }
    }
    if tier == Tier::Thorough {
        for k in 0..nchunks {
            for l in (k + 1)..nchunks {
                for c1 in [Comp::Lz4, Comp::Zstd] {
                    for c2 in [Comp::Lz4Literal, Comp::ZstdRaw, Comp::Zstd] {
                        let mut e = base.clone();
                        e.comp = vec![Comp::None; nchunks];
                        e.comp[k] = c1;
                        e.comp[l] = c2;
                        out.push(("compression-mixed-2".into(), e));
                    }
                }
            }
        }
    }
    // chunk order
    let nperm: usize = (1..=nclasses).product::<usize>().max(1);
    for k in 1..nperm {
        let mut e = base.clone();
        e.inst_order = enc::permutation(nclasses, k);
        out.push(("inst-order".into(), e));
    }
    let nprops = nchunks.saturating_sub(nclasses + 1 + plan.nodes.iter().any(|n| n.props.iter().any(|p| matches!(p.1, PVal::Shared(_)))) as usize);
    for k in prop_perm_indices(nprops) {
        if k == 0 {
            continue;
        }
        let mut e = base.clone();
        e.prop_perm = k;
        out.push(("prop-order".into(), e));
    }
    // class ids
    for k in 1..nperm {
        let mut e = base.clone();
        let p = enc::permutation(nclasses, k);
        e.class_ids = p.iter().map(|x| *x as u32).collect();
        out.push(("class-ids-permuted".into(), e));
    }
    for off in [7u32, 1000, 0x7fff_ffff - nclasses as u32] {
        let mut e = base.clone();
        e.class_ids = (0..nclasses as u32).map(|x| x + off).collect();
        out.push(("class-ids-offset".into(), e));
    }
    // "class ids are arbitrary": ids whose little-endian bytes (the first bytes of an uncompressed
    // INST / PROP payload) look like a Zstandard frame, an LZ4 frame, a chunk name
    for (lab, first) in [("zstd-magic", 0xfd2f_b528u32), ("lz4-magic", 0x184d_2204), ("chunk-name", u32::from_le_bytes(*b"PROP")), ("max", u32::MAX - nclasses as u32)] {
        let mut e = base.clone();
        e.class_ids = (0..nclasses as u32).map(|x| first.wrapping_add(x)).collect();
        out.push((format!("class-ids-{}", lab), e));
    }
    // referents
    let rperm: usize = (1..=n).product::<usize>().max(1);
    for k in 1..rperm {
        let mut e = base.clone();
        e.referents = enc::permutation(n, k).iter().map(|x| *x as i32).collect();
        out.push(("referents-permuted".into(), e));
    }
    // "a referent is any Int32 and only -1 means null": negative numberings too
    for (lab, f) in [("sparse", (10, 5)), ("offset", (1, 1_000_000)), ("large", (1000, 0x7000_0000 / 2)), ("negative", (-3, -7)), ("most-negative", (1, i32::MIN)), ("around-zero", (1, -2 - (n as i32) / 2 * 0 - 3))] {
        let mut e = base.clone();
        e.referents = (0..n as i32).map(|i| i * f.0 + f.1).collect();
        out.push((format!("referents-{}", lab), e));
    }
    // PRNT orders
    for o in prnt_orders(&plan) {
        if o == base.prnt_order {
            continue;
        }
        let mut e = base.clone();
        e.prnt_order = o;
        out.push(("prnt-order".into(), e));
    }
    // optional chunks
    {
        let mut e = base.clone();
        e.meta = true;
        out.push(("meta".into(), e));
    }
    for k in 0..=nchunks {
        for (ci, c) in enc::COMPS.iter().enumerate() {
            for len in [0usize, 16, 200] {
                // quick: every position x storage with the 200-byte payload, the other lengths at the first position
                if len != 200 && k != 0 {
                    continue;
                }
                let mut e = base.clone();
                e.unknown_chunk_at = Some(k);
                e.unknown_comp = *c;
                e.unknown_len = len;
                let _ = ci;
                out.push((format!("unknown-chunk:{:?}", c), e));
            }
        }
    }
    // the unknown chunk's payload is opaque: it may look like compressed data or like file structure
    for kind in 1..=5u8 {
        for k in [0, nchunks] {
            for c in enc::COMPS.iter() {
                let mut e = base.clone();
                e.unknown_chunk_at = Some(k);
                e.unknown_comp = *c;
                e.unknown_len = 40;
                e.unknown_kind = kind;
                out.push((format!("unknown-chunk-payload-kind:{}", kind), e));
            }
        }
    }
    // column order
    {
        let mut e = base.clone();
        e.reverse_columns = true;
        out.push(("column-order".into(), e));
    }
    // skipped PROP chunks
    for ci in 0..nclasses {
        for tid in [None, Some(0x00u8), Some(0x0f), Some(0x11), Some(0x23), Some(0xff)] {
            for last in [false, true] {
                let mut e = base.clone();
                e.junk_props = vec![(ci, "FutureProperty".into(), tid)];
                e.junk_last = last;
                out.push((if tid.is_none() { "prop-cut-after-name".to_owned() } else { "prop-unknown-type-id".to_owned() }, e));
            }
        }
    }
    // classes without instances, with and without PROP chunks (which then hold no values): a
    // known class that has a migrating legacy property, an unknown class
    {
        let used = enc::class_names(&plan);
        let known = ["SpawnLocation", "TextLabel", "MeshPart"].into_iter().find(|c| !used.iter().any(|u| u == c)).unwrap_or("Seat");
        let known_props: Vec<(String, u8)> = vec![("Name".into(), 0x01), ("BrickColor".into(), 0x0b), ("Font".into(), 0x12), ("MeshId".into(), 0x01), ("Anchored".into(), 0x02), ("size".into(), 0x0e), ("Color3uint8".into(), 0x1a), ("Tags".into(), 0x01), ("AttributesSerialize".into(), 0x01)];
        let unknown_props: Vec<(String, u8)> = vec![("Name".into(), 0x01), ("Whatever".into(), 0x03), ("Target".into(), 0x13), ("Blob".into(), 0x1c)];
        for (cname, plist) in [(known, &known_props), ("ZzNoInstances", &unknown_props)] {
            for with_props in [false, true] {
                for inst_first in [false, true] {
                    for props_first in [false, true] {
                        if !with_props && props_first {
                            continue;
                        }
                        let mut e = base.clone();
                        e.empty_classes = vec![(cname.to_owned(), if with_props { plist.clone() } else { vec![] }, inst_first, props_first)];
                        out.push((format!("empty-class:{}", if with_props { "with-prop-chunks" } else { "inst-only" }), e));
                    }
                }
            }
        }
        // one PROP chunk at a time
        for (pn, tid) in known_props.iter().chain(unknown_props.iter()) {
            let mut e = base.clone();
            e.empty_classes = vec![(known.to_owned(), vec![(pn.clone(), *tid)], true, false)];
            out.push(("empty-class:one-prop-chunk".into(), e));
        }
        // every migrating legacy property on a class that owns it
        for (cn, pn, tid) in [("SpawnLocation", "BrickColor", 0x0bu8), ("SpawnLocation", "brickColor", 0x0b), ("TextLabel", "Font", 0x12), ("MeshPart", "MeshId", 0x01), ("MeshPart", "TextureID", 0x01), ("ScreenGui", "IgnoreGuiInset", 0x02), ("ImageLabel", "Image", 0x01), ("WrapLayer", "ReferenceMeshId", 0x01), ("WrapTarget", "CageMeshId", 0x01)] {
            if used.iter().any(|u| u == cn) {
                continue;
            }
            for new_first in [false, true] {
                let new_name = match pn {
                    "BrickColor" | "brickColor" => ("Color3uint8", 0x1au8),
                    "Font" => ("FontFace", 0x20),
                    "MeshId" => ("MeshContent", 0x22),
                    "TextureID" => ("TextureContent", 0x22),
                    "IgnoreGuiInset" => ("ScreenInsets", 0x12),
                    "Image" => ("ImageContent", 0x22),
                    "ReferenceMeshId" => ("ReferenceMeshContent", 0x22),
                    _ => ("CageMeshContent", 0x22),
                };
                let mut e = base.clone();
                let mut ps = vec![(pn.to_owned(), tid)];
                if new_first {
                    ps.insert(0, (new_name.0.to_owned(), new_name.1));
                }
                e.empty_classes = vec![(cn.to_owned(), ps, false, true)];
                out.push(("empty-class:legacy-prop-chunk".into(), e));
            }
        }
    }
    // value encodings the document allows and rbx_binary's writer never chooses
    if plan.nodes.iter().any(|n| n.props.iter().any(|(_, v)| matches!(v, PVal::V(Variant::CFrame(_)) | PVal::V(Variant::OptionalCFrame(_))))) {
        let mut e = base.clone();
        e.cframe_long = true;
        out.push(("cframe-long-form".into(), e.clone()));
        e.comp = vec![Comp::Zstd];
        out.push(("cframe-long-form".into(), e));
    }
    if let PlanDesc::Service = pd {
        let mut e = base.clone();
        e.service_format = vec!["Workspace".into(), "Lighting".into()];
        out.push(("service-format".into(), e.clone()));
        e.comp = vec![Comp::Lz4];
        out.push(("service-format".into(), e));
    }
    // two degrees of freedom at a time: for every pair of families, the first and the last
    // encoding of each are merged field by field (a pair that touches the same field is skipped)
    {
        let basev = serde_json::to_value(&base).expect("encoding to json");
        let mut reps: Vec<(String, serde_json::Value)> = Vec::new();
        let mut seen: std::collections::BTreeMap<String, (usize, usize)> = std::collections::BTreeMap::new();
        for (i, (dim, _)) in out.iter().enumerate() {
            let family = dim.split(':').next().unwrap_or(dim).to_owned();
            let e = seen.entry(family).or_insert((i, i));
            e.1 = i;
        }
        for (family, (first, last)) in &seen {
            if family == "base" {
                continue;
            }
            reps.push((family.clone(), serde_json::to_value(&out[*first].1).unwrap()));
            if last != first {
                reps.push((family.clone(), serde_json::to_value(&out[*last].1).unwrap()));
            }
        }
        let mut pairs = Vec::new();
        for a in 0..reps.len() {
            for b in (a + 1)..reps.len() {
                if reps[a].0 == reps[b].0 {
                    continue;
                }
                let (ea, eb) = (reps[a].1.as_object().unwrap(), reps[b].1.as_object().unwrap());
                let mut merged = basev.as_object().unwrap().clone();
                let mut clash = false;
                for (k, bv) in basev.as_object().unwrap() {
                    let (da, db) = (ea.get(k) != Some(bv), eb.get(k) != Some(bv));
                    if da && db && ea.get(k) != eb.get(k) {
                        clash = true;
                    }
                    if da {
                        merged.insert(k.clone(), ea[k].clone());
                    }
                    if db {
                        merged.insert(k.clone(), eb[k].clone());
                    }
                }
                if clash {
                    continue;
                }
                if let Ok(e) = serde_json::from_value::<Encoding>(serde_json::Value::Object(merged)) {
                    pairs.push((format!("pair:{}*{}", reps[a].0, reps[b].0), e));
                }
            }
        }
        out.extend(pairs);
    }
    // combinations on the smallest DOMs
    if tier == Tier::Thorough && n <= 2 {
        for k in 0..nperm {
            for r in 0..rperm {
                for o in prnt_orders(&plan) {
                    for c in [Comp::None, Comp::Lz4, Comp::Zstd] {
                        let mut e = base.clone();
                        e.inst_order = enc::permutation(nclasses, k);
                        e.class_ids = enc::permutation(nclasses, (k + 1) % nperm).iter().map(|x| *x as u32 + 3).collect();
                        e.referents = enc::permutation(n, r).iter().map(|x| *x as i32 * 3 + 1).collect();
                        e.prnt_order = o.clone();
                        e.comp = vec![c];
                        e.meta = true;
                        out.push(("combined".into(), e));
                    }
                }
            }
        }
    }
    out
}

pub fn cases(tier: Tier) -> Vec<Case04> {
    let mut out = Vec::new();
    let maxn = if tier == Tier::Quick { 3 } else { 4 };
    for n in 1..=maxn {
        for parents in forests(n) {
            let total = 3usize.pow(n as u32);
            for code in 0..total {
                let mut c = code;
                let classes: Vec<u8> = (0..n).map(|_| { let x = (c % 3) as u8; c /= 3; x }).collect();
                // quick: one class pattern in three for n = 3
                if tier == Tier::Thorough && n == 4 && code % 3 != 0 {
                    continue;
                }
                let pd = PlanDesc::Topo { parents: parents.clone(), classes };
                for (dim, e) in encodings_for(&pd, tier) {
                    out.push(Case04 { plan: pd.clone(), enc: e, dim });
                }
            }
        }
    }
    // narrow numerics: full alphabet pairs
    let ni = i32_alphabet().len();
    for a in 0..ni {
        for b in 0..ni {
            let pd = PlanDesc::NarrowInt { a, b };
            let mut e = enc::base_encoding(&plan_of(&pd));
            e.comp = vec![[Comp::None, Comp::Lz4, Comp::Zstd][(a + b) % 3]];
            out.push(Case04 { plan: pd, enc: e, dim: "int32-for-int64".into() });
        }
    }
    let nf = f32_alphabet().len();
    for a in 0..nf {
        for b in 0..nf {
            let pd = PlanDesc::NarrowFloat { a, b };
            let mut e = enc::base_encoding(&plan_of(&pd));
            e.comp = vec![[Comp::None, Comp::Lz4, Comp::Zstd][(a + b) % 3]];
            out.push(Case04 { plan: pd, enc: e, dim: "float32-for-float64".into() });
        }
    }
    for which in 3..5u8 {
        let pd = PlanDesc::DocRow { which };
        let e = enc::base_encoding(&plan_of(&pd));
        out.push(Case04 { plan: pd, enc: e, dim: "doc-row-spare-bits".into() });
    }
    for which in 0..3u8 {
        for imp in [true, false] {
            let pd = PlanDesc::DocRow { which };
            let mut e = enc::base_encoding(&plan_of(&pd));
            e.switches_impl = imp;
            out.push(Case04 { plan: pd, enc: e, dim: if imp { "doc-row-impl-reading".into() } else { "doc-row-document-reading".into() } });
        }
    }
    // long columns: more instances than fit one byte / one small block, dense and reversed numbering
    for n in [255usize, 256, 257, 1000] {
        let pd = PlanDesc::Wide { n };
        let plan = plan_of(&pd);
        for (k, comp) in [Comp::None, Comp::Lz4, Comp::Zstd, Comp::ZstdChecksumBlocks].iter().enumerate() {
            let mut e = enc::base_encoding(&plan);
            e.comp = vec![*comp];
            if k % 2 == 1 {
                let total = plan.nodes.len() as i32;
                e.referents = (0..total).map(|i| 5 + (total - 1 - i) * 2).collect();
            }
            out.push(Case04 { plan: pd.clone(), enc: e, dim: "wide-column".into() });
        }
    }
    // a chunk whose stored form exceeds 16 MiB, in every storage form
    {
        let pd = PlanDesc::Huge { n: 17_000_000 };
        let plan = plan_of(&pd);
        for comp in [Comp::None, Comp::Lz4Literal, Comp::Lz4, Comp::ZstdRaw, Comp::Zstd] {
            let mut e = enc::base_encoding(&plan);
            e.comp = vec![comp];
            out.push(Case04 { plan: pd.clone(), enc: e, dim: "huge-chunk".into() });
        }
    }
    // every wire type's layout, as the document describes it, for every alphabet value (in a two-instance column)
    for t in crate::vals::binary_types() {
        let al = crate::vals::alphabet(t, Codec::Binary, false);
        let n = al.len();
        // (an Attributes value under a property unknown to the database is covered through
        // Part.AttributesSerialize in the topology menu)
        if n == 0 || t == rbx_dom_weak::types::VariantType::Attributes || enc::type_id_of(&PVal::V(al[0].v.clone())).is_none() {
            continue;
        }
        // a rotation that rbx_binary's *writer* would snap to a basis is written verbatim by the
        // independent encoder; the expectation model describes the writer, so those values are left
        // to C01/C03
        let snaps = |v: &Variant| -> bool {
            match v {
                Variant::CFrame(c) => crate::vals::snap_rotation(&c.orientation) != c.orientation,
                Variant::OptionalCFrame(Some(c)) => crate::vals::snap_rotation(&c.orientation) != c.orientation,
                _ => false,
            }
        };
        for i in 0..n {
            if snaps(&al[i].v) || snaps(&al[(i + 1) % n].v) {
                continue;
            }
            let pd = PlanDesc::TypePair { ty: crate::vals::type_name(t), a: i, b: (i + 1) % n };
            let mut e = enc::base_encoding(&plan_of(&pd));
            e.comp = vec![[Comp::None, Comp::Lz4, Comp::Zstd][i % 3]];
            out.push(Case04 { plan: pd.clone(), enc: e.clone(), dim: format!("type-layout:{}", crate::vals::type_name(t)) });
            // (only where the snapped form is bit for bit the value itself: a negative zero inside an
            // axis-aligned matrix survives the long form and not the short one)
            let bits = |v: &Variant| -> Vec<u32> {
                let m = match v {
                    Variant::CFrame(c) => Some(c.orientation),
                    Variant::OptionalCFrame(Some(c)) => Some(c.orientation),
                    _ => None,
                };
                m.map(|m| [m.x.x, m.x.y, m.x.z, m.y.x, m.y.y, m.y.z, m.z.x, m.z.y, m.z.z].iter().map(|f| f.to_bits()).collect()).unwrap_or_default()
            };
            let exact = |v: &Variant| -> bool {
                let snapped = match v {
                    Variant::CFrame(c) => Variant::CFrame(rbx_dom_weak::types::CFrame::new(c.position, crate::vals::snap_rotation(&c.orientation))),
                    Variant::OptionalCFrame(Some(c)) => Variant::OptionalCFrame(Some(rbx_dom_weak::types::CFrame::new(c.position, crate::vals::snap_rotation(&c.orientation)))),
                    o => o.clone(),
                };
                bits(&snapped) == bits(v)
            };
            if matches!(t, rbx_dom_weak::types::VariantType::CFrame | rbx_dom_weak::types::VariantType::OptionalCFrame) && exact(&al[i].v) && exact(&al[(i + 1) % n].v) {
                // every rotation (also an absent value's placeholder) as id 00 + nine floats
                e.cframe_long = true;
                out.push(Case04 { plan: pd, enc: e, dim: format!("type-layout-cframe-long-form:{}", crate::vals::type_name(t)) });
            }
        }
    }
    for (dim, e) in encodings_for(&PlanDesc::Service, tier) {
        out.push(Case04 { plan: PlanDesc::Service, enc: e, dim });
    }
    out
}

pub fn judge(c: &Case04) -> Vec<(String, String)> {
    let mut out = Vec::new();
    let plan = with_all_roots(plan_of(&c.plan));
    let mut bytes = match enc::encode(&plan, &c.enc) {
        Ok(b) => b,
        Err(e) => crate::evidence::machinery_failure(&format!("spec encoder failed: {} [{:?}]", e, c.plan)),
    };
    // "The remaining two bits have no meaning" (Faces) / "the remaining five bits" (Axes): set them
    if let PlanDesc::DocRow { which } = &c.plan {
        if *which >= 3 {
            let mut p = 32;
            let mut patched = false;
            while p + 16 <= bytes.len() {
                let len = u32::from_le_bytes(bytes[p + 8..p + 12].try_into().unwrap()) as usize;
                let end = p + 16 + len;
                if &bytes[p..p + 4] == b"PROP" && len >= 11 && &bytes[p + 16 + 4..p + 16 + 9] == [1, 0, 0, 0, b'V'] {
                    bytes[end - 1] |= if *which == 3 { 0xc0 } else { 0xf8 };
                    patched = true;
                }
                p = end;
            }
            if !patched {
                crate::evidence::machinery_failure("doc-row: could not find the value byte to set spare bits in");
            }
        }
    }
    // the spec decoder must read the spec encoder's file as the plan (conformance of the two halves)
    let sw = if c.enc.switches_impl { Switches { uniqueid_impl: true, faces_impl: true, content_impl: true } } else { Switches::default() };
    match specbin::decode(&bytes, sw).and_then(|f| {
        let s: Vec<String> = f.structure.iter().filter(|s| !s.contains("lists parent") ).cloned().collect();
        if !s.is_empty() {
            return Err(format!("structure: {:?}", s));
        }
        specbin::wire_forest(&f, FloatMode::Exact)
    }) {
        Ok(forest) => {
            let want = crate::c03::expected_wire(&plan, FloatMode::Exact);
            let d = diff_forest(&want, &forest, &|_, _, _| false);
            if !d.is_empty() {
                crate::evidence::machinery_failure(&format!("spec encoder and spec decoder disagree: {:?} [{:?} / {}]", d[0], c.plan, c.dim));
            }
        }
        Err(e) => crate::evidence::machinery_failure(&format!("spec decoder rejects the spec encoder's file: {} [{:?} / {}]", e, c.plan, c.dim)),
    }
    let res = crate::evidence::guarded(|| rbx_binary::from_reader(bytes.as_slice()).map_err(|e| e.to_string()));
    let doc_row = matches!(c.plan, PlanDesc::DocRow { which } if !c.enc.switches_impl || which >= 3);
    let row_name = match c.plan {
        PlanDesc::DocRow { which: 0 } => "UniqueId",
        PlanDesc::DocRow { which: 1 } => "Faces",
        PlanDesc::DocRow { which: 3 } => "Faces-spare-bits",
        PlanDesc::DocRow { which: 4 } => "Axes-spare-bits",
        _ => "Content.SourceTypes",
    };
    match res {
        Err((site, msg)) => out.push((format!("c04|panic|{}", crate::evidence::panic_signature(&site, &msg)), format!("rbx_binary::from_reader panicked on a spec-conformant file ({}): {} {}", c.dim, site, msg))),
        Ok(Err(e)) => {
            if doc_row {
                out.push((format!("c04|doc-vs-impl|{}", row_name), format!("a file encoded to the letter of docs/binary.md for {} is rejected: {}", row_name, e)));
            } else {
                out.push((format!("c04|rejected|{}", c.dim), format!("rbx_binary rejects a spec-conformant file ({}): {} [{:?}]", c.dim, e.chars().take(200).collect::<String>(), c.plan)));
            }
        }
        Ok(Ok(dom)) => {
            let forest = canon_forest(&dom, dom.root().children(), FloatMode::Exact);
            // the same conformant file through a reader that delivers 5 bytes per call
            match crate::evidence::guarded(|| rbx_binary::from_reader(crate::codec::Dribble { data: &bytes, pos: 0, step: 5 }).map_err(|e| e.to_string())) {
                Ok(Ok(d2)) => {
                    if canon_forest(&d2, d2.root().children(), FloatMode::Exact) != forest {
                        out.push(("c04|reader-delivery|different-dom".into(), format!("a conformant file ({}) decodes differently when the reader delivers 5 bytes per call", c.dim)));
                    }
                }
                Ok(Err(e)) => out.push(("c04|reader-delivery|rejected".into(), format!("a conformant file ({}) is rejected when the reader delivers 5 bytes per call: {}", c.dim, e))),
                Err((s, m)) => out.push((format!("c04|panic|{}", crate::evidence::panic_signature(&s, &m)), format!("panic with a 5-bytes-per-call reader: {} {}", s, m))),
            }
            // one long-lived `Deserializer` value decodes every file this process sees (thousands,
            // with the same class and property names under other wire types, other classes, other
            // numberings): what it gives must not depend on what it decoded before
            thread_local! {
                static SHARED: rbx_binary::Deserializer<'static> = rbx_binary::Deserializer::new();
            }
            match crate::evidence::guarded(|| SHARED.with(|d| d.deserialize(bytes.as_slice()).map_err(|e| e.to_string()))) {
                Ok(Ok(d2)) => {
                    if canon_forest(&d2, d2.root().children(), FloatMode::Exact) != forest {
                        out.push(("c04|reused-deserializer|different-dom".into(), format!("a conformant file ({}) decodes differently through a Deserializer value that has decoded other files before [{:?}]", c.dim, c.plan)));
                    }
                }
                Ok(Err(e)) => out.push(("c04|reused-deserializer|rejected".into(), format!("a conformant file ({}) is rejected by a Deserializer value that has decoded other files before: {} [{:?}]", c.dim, e.chars().take(200).collect::<String>(), c.plan))),
                Err((s, m)) => out.push((format!("c04|panic|{}", crate::evidence::panic_signature(&s, &m)), format!("panic in a reused Deserializer: {} {}", s, m))),
            }
            let expected = expected_for(&plan, Codec::Binary, XmlMode::Default, FloatMode::Exact);
            let diffs = diff_forest(&expected, &forest, &|_, _, _| false);
            if let Some(d) = diffs.first() {
                if doc_row {
                    out.push((format!("c04|doc-vs-impl|{}", row_name), format!("a file encoded to the letter of docs/binary.md for {} is mis-read: expected {} got {}", row_name, d.expected, d.actual)));
                } else {
                    out.push((
                        format!("c04|{}|{}|{}", c.dim, d.kind, d.prop),
                        format!("spec-conformant file ({}) decodes to something else: {} at {} {}.{}: expected {} got {} [{:?}]", c.dim, d.kind, d.path, d.class, d.prop, d.expected.chars().take(100).collect::<String>(), d.actual.chars().take(100).collect::<String>(), c.plan),
                    ));
                }
            }
        }
    }
    out
}

pub fn check(run: &Run) -> Value {
    let vectors = specbin::self_check().unwrap_or_else(|e| crate::evidence::machinery_failure(&format!("specbin does not reproduce a worked example of docs/binary.md: {}", e)));
    let cs = cases(run.tier);
    let seed = run.seed;
    let mut total: SweepOut = run_cases(&cs, &|i, c, out| {
        out.nontrivial += (c.dim != "base") as u64;
        out.executions += 1;
        let vs = judge(c);
        out.outcome(&c.dim);
        for (k, w) in vs {
            out.violation(k, w, || serde_json::to_value(c).unwrap());
        }
        if out.samples.len() < 2 && (i as u64 + seed) % 3001 == 13 {
            out.samples.push(serde_json::to_string(c).unwrap());
        }
    });
    let files_by_dim = total.outcomes.clone();
    let (c0, _e0) = (total.cases, total.executions);
    let scalar = crate::scalar::sweep(run, crate::scalar::Which::SpecVsReader, &mut total);
    total.report(run);
    let dims: BTreeSet<&String> = files_by_dim.keys().collect();
    println!("C04 sweep: files={} dimensions={} {:?} scalar={}", c0, dims.len(), files_by_dim, scalar);
    json!({
        "scalar_sweep": scalar,
        "states": total.cases,
        "transitions": total.executions,
        "traces_validated_against_impl": total.executions,
        "evaluations": total.executions,
        "distinct_nontrivial": total.nontrivial,
        "files_per_degree_of_freedom": files_by_dim,
        "doc_vectors_reproduced_by_spec_codec": vectors,
        "samples": total.samples.iter().map(|s| serde_json::from_str::<Value>(s).unwrap()).collect::<Vec<_>>(),
        "exhaustive": true,
        "rule": "for every logical DOM of the reduced topology sweep (forests <= 3/4 nodes x class patterns over {unknown class with String/Int32/Float32/Ref/SharedString/Content, Part via serialized names size/Color3uint8/Anchored/Tags/AttributesSerialize, Folder}) the independent encoder emits the base encoding and, one degree of freedom at a time, every alternative the document allows: compression per chunk over {none, LZ4 literal-only, LZ4, zstd raw blocks, zstd} (all uniform assignments, every single-chunk deviation, thorough: double), every INST order, PROP orders (all permutations up to 5 chunks, else rotations/reversal/adjacent swaps), every class-id permutation and offsets {7,1000,2^31-1}, every referent permutation plus sparse/offset/large numberings, every PRNT order that keeps sibling order, META, an unknown chunk at every boundary (every storage form; payloads that look like text, a Zstandard frame or its magic, an LZ4 frame, the END text, the file magic), class ids whose bytes look like compression magics or chunk names, reversed columns, a PROP chunk cut after its name or with type ids {00,0f,11,23,ff} before/after the real ones, service object format; Int32-for-Int64 and Float32-for-Float64 over the full numeric alphabets (pairs). Each file is first read by the spec decoder (the two halves of the spec codec must agree) and then by rbx_binary::from_reader, whose DOM must equal the plan, by a 5-bytes-per-call reader, and by one Deserializer value reused for every file a worker process sees",
    })
}

pub fn replay(case: &Value) -> Vec<(String, String)> {
    let c: Case04 = serde_json::from_value(case.clone()).unwrap_or_else(|e| crate::evidence::machinery_failure(&format!("bad replay: {}", e)));
    let a = judge(&c);
    let b = judge(&c);
    if a != b {
        crate::evidence::machinery_failure("replay gave two different observations");
    }
    a
}
